import random, subprocess, sys, os
base=open('/repo/lm/test.arpa','rb').read().split(b'\n')
def mutate(rng):
    L=list(base); k=rng.randint(0,9)
    i=rng.randrange(len(L))
    if k==0: del L[i]
    elif k==1: L.insert(i,L[i])
    elif k==2:
        j=rng.randrange(len(L)); L[i],L[j]=L[j],L[i]
    elif k==3:
        # change a count
        idx=[n for n,l in enumerate(L) if l.startswith(b'ngram ')]
        n=rng.choice(idx); a,b=L[n].split(b'='); L[n]=a+b'='+str(max(0,int(b)+rng.choice([-3,-1,1,2,50]))).encode()
    elif k==4: return b'\n'.join(L)[:rng.randrange(len(b'\n'.join(L)))]
    elif k==5: L[i]=L[i]+bytes([rng.randrange(256) for _ in range(rng.randint(1,5))])
    elif k==6: L[i]=L[i].replace(b'\t',b' ',1)
    elif k==7: L[i]=L[i].replace(b'-',b'',1)
    elif k==8:
        ws=L[i].split(b'\t')
        if len(ws)>1: ws[1]=ws[1]+b' zzzunknownword'; L[i]=b'\t'.join(ws)
    else:
        idx=[n for n,l in enumerate(L) if l.endswith(b'-grams:')]
        if idx: del L[rng.choice(idx)]
    return b'\n'.join(L)
rng=random.Random(int(sys.argv[1])); N=int(sys.argv[2])
stats={}
for n in range(N):
    m=mutate(rng); open('mut.arpa','wb').write(m)
    for t in (['probing'],['trie'],['trie','-q','4','-b','4','-a','6']):
        if os.path.exists('mut.bin'): os.remove('mut.bin')
        p=subprocess.run(['timeout','20',sys.argv[3]]+t+['mut.arpa','mut.bin'],capture_output=True)
        rc=p.returncode
        key='ok' if rc==0 else 'reject' if rc==1 else 'rc%d'%rc
        stats[key]=stats.get(key,0)+1
        if key.startswith('rc'):
            open('mut_bad_%d_%s.arpa'%(n,t[0]),'wb').write(m); print('ABNORMAL',n,t,rc,p.stderr[-300:])
        elif rc==0:
            q=subprocess.run(['timeout','20',sys.argv[4],'mut.bin'],input=b'looking on a little\nalso would consider higher\n',capture_output=True)
            if q.returncode!=0: print('QUERY ABNORMAL',n,t,q.returncode,q.stderr[-200:]); open('mut_badq_%d_%s.arpa'%(n,t[0]),'wb').write(m)
print(stats)
