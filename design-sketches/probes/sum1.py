import sys, itertools, math, random, subprocess
def parse(path):
    grams={}; order=0; sec=0
    for line in open(path, encoding='utf8', errors='surrogateescape'):
        line=line.rstrip('\n')
        if line.startswith('\\') and line.endswith('-grams:'):
            sec=int(line[1:line.index('-')]); order=max(order,sec); continue
        if not line or line.startswith('\\') or line.startswith('ngram'): continue
        f=line.split('\t')
        p=float(f[0]); w=tuple(f[1].split(' ')); b=float(f[2]) if len(f)>2 else 0.0
        grams[w]=(p,b)
    return grams, order
def score(grams, order, ctx, w):
    ctx=tuple(ctx)[-(order-1):] if order>1 else ()
    bo=0.0
    while True:
        g=ctx+(w,)
        if g in grams: return bo+grams[g][0]
        if not ctx: return bo+grams[('<unk>',)][0]
        if ctx in grams: bo+=grams[ctx][1]
        ctx=ctx[1:]
def check(path, maxlen):
    grams,order=parse(path)
    V=[g[0] for g in grams if len(g)==1]
    worst=0; worstc=None
    for L in range(0, min(order-1,maxlen)+1):
        for ctx in itertools.product([v for v in V if v!='</s>'], repeat=L):
            if '<s>' in ctx[1:]: continue
            s=sum(10**score(grams,order,ctx,w) for w in V if w!='<s>')
            if abs(s-1)>worst: worst=abs(s-1); worstc=(ctx,s)
    return worst, worstc, len(grams), order
if __name__=='__main__':
    print(check(sys.argv[1], int(sys.argv[2])))
