#include "util/stream/sort.hh"
#include <cstdio>
#include <cstdlib>
#include <map>
#include <random>
#include <vector>
using namespace util::stream;
struct Rec { uint32_t key; uint32_t cnt; };
struct Cmp : public std::binary_function<const void *, const void *, bool> {
  bool operator()(const void *a, const void *b) const { return static_cast<const Rec*>(a)->key < static_cast<const Rec*>(b)->key; } };
struct Comb { bool operator()(void *into, const void *opt, const Cmp &) const { Rec*a=static_cast<Rec*>(into); const Rec*b=static_cast<const Rec*>(opt); if(a->key!=b->key) return false; a->cnt+=b->cnt; return true; } };
struct Putter { Putter(std::vector<Rec>&v):v_(v){} void Run(const ChainPosition &p){ Stream s(p); for(size_t i=0;i<v_.size();++i,++s) *static_cast<Rec*>(s.Get())=v_[i]; s.Poison(); } std::vector<Rec>&v_; };
int main(int argc,char**argv){
  unsigned seed=atoi(argv[1]); std::mt19937 rng(seed);
  size_t n = (rng()%5==0) ? rng()%3 : rng()%30000; uint32_t keyspace = 1 + rng()% (rng()%2? 50: 100000);
  bool combine = rng()%2; int kind=rng()%3;
  std::vector<Rec> in(n); for(size_t i=0;i<n;i++){ in[i].key = kind==0? rng()%keyspace : kind==1? (uint32_t)i : (uint32_t)(n-i); in[i].cnt=1+rng()%3; }
  ChainConfig cc; cc.entry_size=8; cc.block_count=1+rng()%4; cc.total_memory = 8*cc.block_count*(1+rng()%200);
  SortConfig sc; sc.temp_prefix="/tmp/exp/st/tmp"; sc.buffer_size = 8*(1+rng()%100) + rng()%8; sc.total_memory = (sc.buffer_size - sc.buffer_size%8)*4 + rng()%(8*400);
  size_t lazy = rng()%3==0 ? 0 : rng()%(sc.total_memory+1);
  printf("seed=%u n=%zu keyspace=%u combine=%d chain(blocks=%zu mem=%zu) sort(buf=%zu total=%zu) lazy=%zu ... ",seed,n,keyspace,combine,cc.block_count,cc.total_memory,sc.buffer_size,sc.total_memory,lazy); fflush(stdout);
  std::vector<Rec> out;
  {
    Chain chain(cc);
    chain >> Putter(in);
    if (combine) { Sort<Cmp,Comb> sorter(chain, sc, Cmp(), Comb()); chain.Wait(true); sorter.Output(chain, lazy); Stream s; chain >> s >> kRecycle; for(;s;++s) out.push_back(*static_cast<const Rec*>(s.Get())); }
    else { Sort<Cmp,NeverCombine> sorter(chain, sc, Cmp(), NeverCombine()); chain.Wait(true); sorter.Output(chain, lazy); Stream s; chain >> s >> kRecycle; for(;s;++s) out.push_back(*static_cast<const Rec*>(s.Get())); }
  }
  std::map<uint32_t,uint64_t> tin, tout; for(auto&r:in) tin[r.key]+=r.cnt; for(auto&r:out) tout[r.key]+=r.cnt;
  for(size_t i=1;i<out.size();i++) if(out[i].key<out[i-1].key){ printf("MISMATCH not sorted at %zu\n",i); return 2; }
  if(tin!=tout){ printf("MISMATCH totals differ (in keys %zu out keys %zu)\n",tin.size(),tout.size()); return 2; }
  if(!combine && out.size()!=in.size()){ printf("MISMATCH size %zu vs %zu\n",out.size(),in.size()); return 2; }
  printf("ok out=%zu\n",out.size()); return 0;
}
