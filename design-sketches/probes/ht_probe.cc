#include "util/probing_hash_table.hh"
#include <cstdio>
#include <cstdlib>
#include <map>
#include <random>
#include <vector>
struct Entry { typedef uint64_t Key; uint64_t key; uint64_t value; uint64_t GetKey() const { return key; } void SetKey(uint64_t k){ key=k; } };
int main(int argc,char**argv){
  unsigned seed=atoi(argv[1]); std::mt19937_64 rng(seed);
  // AutoProbing adversarial
  for (int mode=0; mode<4; ++mode) {
    util::AutoProbing<Entry, util::IdentityHash> t(2 + rng()%6);
    std::map<uint64_t,uint64_t> ref;
    int n = 3000;
    for (int i=0;i<n;i++){
      uint64_t k;
      switch(mode){
        case 0: k = (rng() << 20) | 0xFFFFF; break;             // all ones low bits -> ideal at end of table, wraps
        case 1: k = (rng()%64) << 40 | 0x7; break;               // few distinct, same bucket for long
        case 2: k = rng(); break;
        default: k = ((uint64_t)i << 1) | 1; break;              // sequential
      }
      if (k==0) k=1;
      Entry e; e.key=k; e.value=rng();
      util::AutoProbing<Entry, util::IdentityHash>::MutableIterator it;
      bool found = t.FindOrInsert(e, it);
      if (found != (ref.count(k)>0)) { printf("MISMATCH mode=%d i=%d FindOrInsert found=%d ref=%d\n",mode,i,found,(int)ref.count(k)); return 2; }
      if (!found) ref[k]=e.value; else if (it->value!=ref[k]) { printf("MISMATCH value\n"); return 2; }
      if (i%37==0 || i<200) {
        for (auto &kv: ref){ util::AutoProbing<Entry, util::IdentityHash>::ConstIterator ci; if(!t.Find(kv.first,ci) || ci->value!=kv.second){ printf("MISMATCH mode=%d i=%d lost key %lx size=%zu\n",mode,i,(unsigned long)kv.first,ref.size()); return 2; } }
        for (int j=0;j<50;j++){ uint64_t q = (mode==0)? ((rng()<<20)|0xFFFFF) : rng(); if(!q) q=1; util::AutoProbing<Entry, util::IdentityHash>::ConstIterator ci; bool f=t.Find(q,ci); if (f!=(ref.count(q)>0)) { printf("MISMATCH mode=%d phantom %lx\n",mode,(unsigned long)q); return 2; } }
      }
    }
  }
  // fixed table DivMod, minimal buckets, wrap-around clusters
  for (int rep=0; rep<200; ++rep) {
    size_t buckets = 2 + rng()%40;
    std::vector<Entry> mem(buckets); for (auto &e: mem){ e.key=0; e.value=0; }
    util::ProbingHashTable<Entry, util::IdentityHash> t(&mem[0], buckets*sizeof(Entry));
    std::map<uint64_t,uint64_t> ref; bool threw=false;
    for (size_t i=0;i<buckets+2 && !threw;i++){
      uint64_t k = (rng()%3==0) ? (buckets-1) + buckets*(1+rng()%1000) : 1+rng()%(buckets*3);
      Entry e; e.key=k; e.value=rng();
      util::ProbingHashTable<Entry, util::IdentityHash>::MutableIterator it;
      try { bool found=t.FindOrInsert(e,it); if(found!=(ref.count(k)>0)){ printf("MISMATCH fixed found\n"); return 2;} if(!found) ref[k]=e.value; }
      catch (util::ProbingSizeException &) { threw=true; if (ref.size()+1 < buckets) { printf("MISMATCH early throw size=%zu buckets=%zu\n",ref.size(),buckets); return 2; } }
      for (auto &kv: ref){ util::ProbingHashTable<Entry, util::IdentityHash>::ConstIterator ci; if(!t.Find(kv.first,ci)||ci->value!=kv.second){ printf("MISMATCH fixed lost\n"); return 2; } }
    }
    if (!threw && ref.size()>=buckets) { printf("MISMATCH no throw at capacity size=%zu buckets=%zu\n",ref.size(),buckets); return 2; }
  }
  printf("ok seed=%u\n",seed); return 0;
}
