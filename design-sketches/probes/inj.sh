#!/bin/bash
# usage: inj.sh syscall N
sc=$1; N=$2
silent=0; nz=0; same=0
for k in $(seq 1 $N); do
  rm -f sriK.bin
  strace -f -o /dev/null -e trace=$sc -e inject=$sc:error=EIO:when=$k timeout 60 /repo/_build/bin/build_binary trie sri.arpa sriK.bin >/dev/null 2>&1
  rc=$?
  if [ $rc -eq 0 ]; then
    if cmp -s sriK.bin sri0.bin; then same=$((same+1)); else silent=$((silent+1)); echo "SILENT k=$k rc=0 but file differs"; timeout 20 /repo/_build/bin/query -n -v word sriK.bin < sri.q 2>&1 | head -3; fi
  else nz=$((nz+1)); fi
done
echo "syscall=$sc tried=$N exit0-identical=$same nonzero=$nz SILENT=$silent"
