#include "util/read_compressed.hh"
#include "util/file.hh"
#include <cstdio>
#include <cstdlib>
#include <random>
#include <string>
#include <unistd.h>
#include <sys/wait.h>
int main(int argc,char**argv){
  // argv[1]=compressed file, argv[2]=plain file, argv[3]=seed, argv[4]=mode(0 file,1 pipe)
  std::string plain; { FILE*f=fopen(argv[2],"rb"); char b[65536]; size_t n; while((n=fread(b,1,sizeof b,f))>0) plain.append(b,n); fclose(f);} 
  unsigned seed=atoi(argv[3]); std::mt19937 rng(seed); int mode=atoi(argv[4]);
  int fd; pid_t child=0;
  if(mode==0) fd=util::OpenReadOrThrow(argv[1]);
  else { std::string comp; { FILE*f=fopen(argv[1],"rb"); char b[65536]; size_t n; while((n=fread(b,1,sizeof b,f))>0) comp.append(b,n); fclose(f);} int p[2]; (void)!pipe(p); child=fork(); if(!child){ close(p[0]); std::mt19937 r2(seed+7); size_t off=0; while(off<comp.size()){ size_t n=1+r2()%3000; if(n>comp.size()-off)n=comp.size()-off; ssize_t w=write(p[1],comp.data()+off,n); if(w<=0)_exit(1); off+=w; if(r2()%4==0) usleep(r2()%100);} _exit(0);} close(p[1]); fd=p[0]; }
  util::ReadCompressed rc(fd);
  std::string got; std::vector<char> buf(70000);
  int zeros=0;
  while(true){ size_t want = 1 + rng()% (rng()%3==0? 65000: 300); size_t n=rc.Read(&buf[0],want); if(n==0){ zeros++; if(zeros>=3) break; continue;} if(zeros){ printf("MISMATCH data after EOF\n"); return 2;} got.append(&buf[0],n); }
  if(child){int st; waitpid(child,&st,0);}
  if(got!=plain){ printf("MISMATCH %s got %zu expected %zu\n",argv[1],got.size(),plain.size()); return 2; }
  printf("ok %s mode=%d bytes=%zu\n",argv[1],mode,got.size()); return 0;
}
