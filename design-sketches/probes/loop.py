import subprocess,sys
bad=0
for s in range(100,140):
    out=subprocess.run(['python3','kn_stats.py',str(s),'3','12','25'],capture_output=True,text=True).stdout.strip().split('\n')
    for j in range(0,len(out),2):
        impl=out[j].split(); spec=out[j+1]
        D=eval(spec.split('D=')[1])
        if D is None: continue
        iv=[float(x.split('=')[1]) for x in impl[3:6]]
        if any(abs(a-b)>1e-4 for a,b in zip(iv,D)):
            print(s,out[j],'|',spec); bad+=1
print('bad',bad)
