import subprocess, sys, os
def q(path):
    p=subprocess.run(['timeout','20','/repo/_build/bin/query','-v','sentence',path],input=b'looking on a little\nalso would consider higher\nfoo bar baz\n',capture_output=True)
    return p.returncode, p.stdout
for t in sys.argv[1:]:
    args=t.split()
    if os.path.exists('tb.bin'): os.remove('tb.bin')
    subprocess.run(['timeout','60','/repo/_build/bin/build_binary']+args+['/repo/lm/test.arpa','tb.bin'],capture_output=True)
    data=open('tb.bin','rb').read(); n=len(data)
    rc0,out0=q('tb.bin')
    acc=0; bad=[]; signals=[]
    lens=sorted(set(list(range(0,300))+list(range(300,n,37))+list(range(max(0,n-400),n))))
    for L in lens:
        open('tt.bin','wb').write(data[:L])
        rc,out=q('tt.bin')
        if rc==0:
            acc+=1
            if out!=out0: bad.append(L)
        elif rc<0 or rc>=124: signals.append((L,rc))
    print(t,'size',n,'tested',len(lens),'accepted',acc,'accepted-but-different',bad[:10],'signals/timeouts',signals[:10])
