import random,sys
random.seed(int(sys.argv[1])); V=['w%d'%i for i in range(int(sys.argv[2]))]
ws=[1.0/(i+1) for i in range(len(V))]
for _ in range(int(sys.argv[3])):
    print(' '.join(random.choices(V,ws,k=random.randint(1,7))))
