#include "util/file_piece.hh"
#include "util/file.hh"
#include <cstdio>
#include <cstdlib>
#include <cstring>
#include <string>
#include <vector>
#include <unistd.h>
#include <sys/wait.h>
#include <random>
using namespace util;
static bool sp(unsigned char c){ return c==' '||c=='\t'||c=='\n'||c=='\r'||c=='\v'||c=='\f'; }
struct Ref { std::string d; size_t pos=0;
  bool eof() const { return pos>=d.size(); } };
int main(int argc, char**argv){
  unsigned seed=atoi(argv[1]); int backend=atoi(argv[2]); size_t minbuf=atol(argv[3]);
  std::mt19937 rng(seed);
  std::string data;
  size_t target = 20000 + rng()%120000;
  while (data.size()<target){
    int k=rng()%100; size_t len = k<2 ? 4000+rng()%20000 : 1+rng()%12;
    bool digits = rng()%4==0;
    if (digits) len = 1+rng()%15;
    for(size_t i=0;i<len;i++) data.push_back(digits? '0'+rng()%10 : (char)('a'+rng()%26));
    int ns=1+ (rng()%5==0 ? rng()%6 : 0);
    for(int i=0;i<ns;i++){ int r=rng()%10; data.push_back(r<5?' ':r<8?'\n':r<9?'\t':'\r'); }
  }
  if (rng()%2) { while(!data.empty() && sp(data.back())) data.pop_back(); } // maybe no final newline
  char name[]="/tmp/exp/fp/dataXXXXXX"; int fd=mkstemp(name); (void)!write(fd,data.data(),data.size()); close(fd);
  int rfd;
  pid_t child=0;
  if (backend==0) rfd=OpenReadOrThrow(name);
  else { int p[2]; (void)!pipe(p); child=fork(); if(!child){ close(p[0]); std::mt19937 r2(seed+1); size_t off=0; while(off<data.size()){ size_t n=1+r2()%6000; if(n>data.size()-off)n=data.size()-off; ssize_t w=write(p[1],data.data()+off,n); if(w<=0) _exit(1); off+=w; if(r2()%3==0) usleep(r2()%200);} _exit(0);} close(p[1]); rfd=p[0]; }
  unlink(name);
  FilePiece f(rfd, "probe", NULL, minbuf);
  Ref r; r.d=data; long ops=0;
  auto fail=[&](const char*what,const std::string&a,const std::string&b){ printf("MISMATCH seed=%u backend=%d minbuf=%zu op#%ld %s pos=%zu impl='%.60s'(%zu) ref='%.60s'(%zu)\n",seed,backend,minbuf,ops,what,r.pos,a.c_str(),a.size(),b.c_str(),b.size()); exit(2); };
  while(true){
    ops++;
    int op=rng()%6;
    // reference
    if (op==0){ // ReadLine
      std::string exp; bool eof=false;
      size_t i=r.d.find('\n', r.pos);
      if (i!=std::string::npos){ size_t e=i; if(e>r.pos && r.d[e-1]=='\r') e--; exp=r.d.substr(r.pos,e-r.pos); r.pos=i+1; }
      else if (r.eof()) eof=true; else { exp=r.d.substr(r.pos); r.pos=r.d.size(); }
      try { StringPiece g=f.ReadLine(); if(eof) fail("ReadLine expected EOF", std::string(g.data(),g.size()), ""); if(std::string(g.data(),g.size())!=exp) fail("ReadLine", std::string(g.data(),g.size()), exp);} catch(EndOfFileException&){ if(!eof) fail("ReadLine unexpected EOF","",exp); break; }
    } else if (op==1){ // ReadDelimited
      while(!r.eof() && sp(r.d[r.pos])) r.pos++;
      bool eof=r.eof(); std::string exp; if(!eof){ size_t e=r.pos; while(e<r.d.size()&&!sp(r.d[e])) e++; exp=r.d.substr(r.pos,e-r.pos); r.pos=e; }
      try { StringPiece g=f.ReadDelimited(); if(eof) fail("ReadDelimited expected EOF",std::string(g.data(),g.size()),""); if(std::string(g.data(),g.size())!=exp) fail("ReadDelimited",std::string(g.data(),g.size()),exp);} catch(EndOfFileException&){ if(!eof) fail("ReadDelimited unexpected EOF","",exp); break; }
    } else if (op==2){ // ReadWordSameLine
      while(!r.eof() && sp(r.d[r.pos]) && r.d[r.pos]!='\n') r.pos++;
      bool got = !r.eof() && r.d[r.pos]!='\n'; std::string exp; if(got){ size_t e=r.pos; while(e<r.d.size()&&!sp(r.d[e])) e++; exp=r.d.substr(r.pos,e-r.pos); r.pos=e; }
      StringPiece g; bool ig=f.ReadWordSameLine(g);
      if (ig!=got) fail("ReadWordSameLine flag", ig?std::string(g.data(),g.size()):"<false>", got?exp:"<false>");
      if (ig && std::string(g.data(),g.size())!=exp) fail("ReadWordSameLine",std::string(g.data(),g.size()),exp);
      if (!got && r.eof()) { /* keep going: next op should see EOF */ }
    } else if (op==3){ // get
      bool eof=r.eof(); char exp=eof?0:r.d[r.pos]; if(!eof) r.pos++;
      try { char g=f.get(); if(eof) fail("get expected EOF",std::string(1,g),""); if(g!=exp) fail("get",std::string(1,g),std::string(1,exp)); } catch(EndOfFileException&){ if(!eof) fail("get unexpected EOF","",std::string(1,exp)); break; }
    } else if (op==4){ // ReadULong if next token is digits
      size_t p=r.pos; while(p<r.d.size()&&sp(r.d[p])) p++;
      size_t e=p; while(e<r.d.size()&&r.d[e]>='0'&&r.d[e]<='9') e++;
      if (e==p || (e<r.d.size() && !sp(r.d[e]))) { ops--; continue; }
      unsigned long exp=strtoul(r.d.substr(p,e-p).c_str(),NULL,10); r.pos=e;
      try { unsigned long g=f.ReadULong(); if(g!=exp) fail("ReadULong",std::to_string(g),std::to_string(exp)); } catch(EndOfFileException&){ fail("ReadULong unexpected EOF","",std::to_string(exp)); }
    } else { // SkipSpaces + peek
      while(!r.eof() && sp(r.d[r.pos])) r.pos++;
      bool eof=r.eof();
      try { f.SkipSpaces(); if(!eof){ char g=f.peek(); if(g!=r.d[r.pos]) fail("peek",std::string(1,g),std::string(1,r.d[r.pos])); } } catch(EndOfFileException&){ if(!eof) fail("SkipSpaces unexpected EOF","",""); break; }
    }
    if (backend==0 && f.Offset()!=r.pos) { fail("Offset", std::to_string(f.Offset()), std::to_string(r.pos)); }
  }
  if (!r.eof()) { printf("MISMATCH seed=%u ended early pos=%zu of %zu\n",seed,r.pos,r.d.size()); return 2; }
  // after EOF every read must fail
  for(int i=0;i<3;i++){ bool threw=false; try{ f.get(); }catch(EndOfFileException&){threw=true;} if(!threw){ printf("MISMATCH data after EOF\n"); return 2; } }
  if(child){int st; waitpid(child,&st,0);}
  printf("ok seed=%u backend=%d minbuf=%zu ops=%ld bytes=%zu\n",seed,backend,minbuf,ops,data.size());
  return 0;
}
