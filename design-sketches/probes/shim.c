#define _GNU_SOURCE
#include <dlfcn.h>
#include <unistd.h>
#include <stdio.h>
#include <sys/mman.h>
static int n=0;
ssize_t write(int fd, const void *buf, size_t count){ static ssize_t (*real)(int,const void*,size_t); if(!real) real=dlsym(RTLD_NEXT,"write"); if (fd>2) { n++; dprintf(2,"[shim] write#%d fd=%d count=%zu\n",n,fd,count);} return real(fd,buf,count);}
int msync(void *a, size_t l, int f){ static int (*real)(void*,size_t,int); if(!real) real=dlsym(RTLD_NEXT,"msync"); dprintf(2,"[shim] msync len=%zu\n",l); return real(a,l,f);}
int ftruncate(int fd, off_t len){ static int (*real)(int,off_t); if(!real) real=dlsym(RTLD_NEXT,"ftruncate"); dprintf(2,"[shim] ftruncate fd=%d len=%ld\n",fd,(long)len); return real(fd,len);}
int fsync(int fd){ static int (*real)(int); if(!real) real=dlsym(RTLD_NEXT,"fsync"); dprintf(2,"[shim] fsync fd=%d\n",fd); return real(fd);}
