import random, subprocess, sys, itertools, os
from sum1 import parse
def gen_model(rng, order, V, density, prune):
    words=['<unk>','<s>','</s>']+['w%d'%i for i in range(V)]
    def val(): return -rng.randint(1, 400)/64.0
    grams={1:{(w,):[val(), 0.0] for w in words}}
    grams[1][('<s>',)][0]=-99.0 if False else val()
    prev=list(grams[1].keys())
    for n in range(2, order+1):
        cur={}
        cands=[g+(w,) for g in prev for w in words if w!='<s>' and g[-1]!='</s>' and not (g[0]=='<unk>')]
        rng.shuffle(cands)
        for g in cands[:max(1,int(len(cands)*density))]:
            # require suffix present (suffix-closed) initially
            if g[1:] in grams[n-1]:
                cur[g]=[val(), 0.0]
        grams[n]=cur; prev=list(cur.keys())
        if not prev: order=n-1 if not cur else n; 
    order=max(n for n in grams if grams[n])
    # backoffs: contexts get nonzero backoff mostly
    for n in range(2, order+1):
        for g in grams[n]:
            ctx=g[:-1]
            if rng.random()<0.8: grams[n-1][ctx][1]=-rng.randint(0,128)/64.0
    # extra: some non-context with nonzero backoff
    for n in range(1, order):
        for g in grams[n]:
            if rng.random()<0.05: grams[n][g][1]=-rng.randint(1,64)/64.0
    # prune suffixes (SRI style): remove some n-grams (1<n<order) that are suffixes of longer ones but keep contexts
    if prune:
        for n in range(order-1, 1, -1):
            ctxs=set(g[:-1] for g in grams[n+1]) if n+1<=order else set()
            for g in list(grams[n]):
                if g not in ctxs and rng.random()<prune:
                    del grams[n][g]
    return grams, order
def write_arpa(grams, order, path, rng):
    with open(path,'w') as f:
        f.write('\\data\\\n')
        for n in range(1,order+1): f.write('ngram %d=%d\n'%(n,len(grams[n])))
        for n in range(1,order+1):
            f.write('\n\\%d-grams:\n'%n)
            items=list(grams[n].items()); rng.shuffle(items)
            for g,(p,b) in items:
                if n<order and (b!=0.0 or rng.random()<0.5): f.write('%s\t%s\t%s\n'%(repr(p),' '.join(g),repr(b)))
                else: f.write('%s\t%s\n'%(repr(p),' '.join(g)))
        f.write('\n\\end\\\n')
def ref_score(flat, order, ctx, w):
    ctx=tuple(ctx)[-(order-1):] if order>1 else ()
    bo=0.0
    while True:
        g=ctx+(w,)
        if g in flat: return bo+flat[g][0], len(g)
        if ctx in flat: bo+=flat[ctx][1]
        ctx=ctx[1:]
def run(seed, types):
    rng=random.Random(seed)
    order=rng.randint(2,5); V=rng.randint(2,6)
    grams,order=gen_model(rng, order, V, rng.choice([0.15,0.3,0.6]), rng.choice([0,0.3,0.7]))
    if order<2: return None
    write_arpa(grams, order, 'r.arpa', rng)
    flat={}
    for n in grams: 
        for g,v in grams[n].items(): flat[g]=v
    words=[g[0] for g in grams[1]]
    sents=[[rng.choice(words+['oov']) for _ in range(rng.randint(1,8))] for _ in range(40)]
    sents=[[w for w in s if w not in ('<s>',)] for s in sents]
    open('r.q','w').write(''.join(' '.join(s)+'\n' for s in sents))
    bad=[]
    for t in types:
        if os.path.exists('r.bin'): os.remove('r.bin')
        p=subprocess.run(['timeout','60','/repo/_build/bin/build_binary','-s']+t.split()+['r.arpa','r.bin'],capture_output=True,text=True)
        if p.returncode!=0: bad.append((t,'build rc',p.returncode,p.stderr[-300:])); continue
        q=subprocess.run(['timeout','60','/repo/_build/bin/query','-v','word','r.bin'],stdin=open('r.q'),capture_output=True,text=True)
        lines=q.stdout.split('\n')
        for s,line in zip(sents,lines):
            toks=[x for x in line.split('\t') if '=' in x]
            ctx=['<s>']
            for w,tok in zip(s+['</s>'],toks):
                name,rest=tok.rsplit('=',1); vid,ln,pr=rest.split(' ')
                ww=w if (w,) in flat else '<unk>'
                rp,rl=ref_score(flat,order,ctx,ww)
                if abs(rp-float(pr))>1e-4: bad.append((t,s,w,'prob',rp,float(pr),rl,int(ln)))
                ctx.append(ww)
    return order,V,len(flat),bad
if __name__=='__main__':
    types=['probing','trie','trie -a 3','trie -q 8 -b 8']
    nb=0
    for seed in range(int(sys.argv[1]),int(sys.argv[2])):
        r=run(seed,types)
        if r is None: continue
        order,V,n,bad=r
        if bad:
            nb+=1; print('seed',seed,'order',order,'V',V,'ngrams',n,'BAD',len(bad)); 
            for b in bad[:4]: print('   ',b)
    print('done bad models',nb)
