import random, subprocess, itertools, sys
def derivable(ng, phrases):
    n=len(ng)
    # substring of a phrase
    for p in phrases:
        for i in range(len(p)-n+1):
            if tuple(p[i:i+n])==ng: return True
    # segmentation: pos 0..n ; first piece ng[0:i] is a suffix of a phrase (i>=1), then complete phrases, last piece prefix of a phrase
    suffixes=set(tuple(p[k:]) for p in phrases for k in range(len(p)))
    prefixes=set(tuple(p[:k]) for p in phrases for k in range(1,len(p)+1))
    full=set(tuple(p) for p in phrases)
    # reach[i]: ng[:i] can be covered ending exactly at a phrase boundary
    reach=[False]*(n+1)
    for i in range(1,n+1):
        if ng[:i] in suffixes: reach[i]=True
    for i in range(1,n+1):
        if not reach[i]: continue
        for j in range(i+1,n+1):
            if ng[i:j] in full: reach[j]=True
    if reach[n]: return True
    for i in range(1,n):
        if reach[i] and ng[i:] in prefixes: return True
    return False
def run(seed):
    rng=random.Random(seed)
    W=['a','b','c','d'][:rng.randint(2,4)]
    sents=[[ [rng.choice(W) for _ in range(rng.randint(1,3))] for _ in range(rng.randint(1,3))] for _ in range(rng.randint(1,3))]
    open('pv.txt','w').write(''.join('\t'.join(' '.join(p) for p in s)+'\n' for s in sents))
    ngs=[ng for n in range(1,5) for ng in itertools.product(W,repeat=n)]
    open('pc.txt','w').write(''.join(' '.join(ng)+'\t1\n' for ng in ngs))
    p=subprocess.run(['timeout','30','/repo/_build/bin/filter','union','phrase','raw','threads:1','model:pc.txt','pout.txt'],stdin=open('pv.txt'),capture_output=True)
    if p.returncode!=0: return ('rc',p.returncode,p.stderr[-200:])
    kept=set(tuple(l.split('\t')[0].split(' ')) for l in open('pout.txt').read().split('\n') if l)
    missing=[]; extra=0
    for ng in ngs:
        ref=any(derivable(ng,s) for s in sents)
        if ref and ng not in kept: missing.append(ng)
        if (not ref) and ng in kept: extra+=1
    return (missing, extra, sents)
bad=0; extras=0
for seed in range(int(sys.argv[1]),int(sys.argv[2])):
    r=run(seed)
    if r[0]=='rc': print('seed',seed,r); bad+=1; continue
    missing,extra,sents=r; extras+=extra
    if missing: bad+=1; print('seed',seed,'MISSING',missing[:5],'sents',sents)
print('bad',bad,'over-permissive keeps',extras)
