import random, subprocess, sys, collections
def stats(sents, N):
    # true N-gram counts with N-1 <s> padding
    full = collections.Counter()
    for s in sents:
        toks = ['<s>']*(N-1) + s + ['</s>']
        for i in range(N-1, len(toks)):
            full[tuple(toks[i-N+1:i+1])] += 1
    # collapse: remove N-grams whose 2nd word is <s> (N>=2)... they are kept only as lower order
    res = {}
    # order N counts: those with toks[1] != <s>
    adj = {N: {g:c for g,c in full.items() if N==1 or g[1] != '<s>'}}
    # lower orders k<N: grams = suffixes of full N-grams; if starts with <s>: count = true count else distinct left ext
    for k in range(N-1, 0, -1):
        d = {}
        ext = collections.defaultdict(set)
        cnt = collections.Counter()
        for g,c in full.items():
            suf = g[N-k:]
            if '<s>' in suf[1:]: continue
            if suf[0] == '<s>':
                # true count: count of this k-gram at sentence start; derive from full grams where g[N-k-1]=='<s>' 
                if g[N-k-1] == '<s>' :
                    cnt[suf] += c
            else:
                ext[suf].add(g[N-k-1])
        for g,s in ext.items(): d[g] = len(s)
        for g,c in cnt.items(): d[g] = c
        adj[k] = d
    out = {}
    for k in range(1, N+1):
        n = [0]*5
        for g,c in adj[k].items():
            if k==1 and g[0]=='<s>': continue
            if c < 5: n[c]+=1
        if k==1: n[0]+=1  # unk
        out[k]=n
    return out, adj
def disc(n):
    if 0 in n[1:4+1][:3] : return None
    y = n[1]/(n[1]+2.0*n[2])
    return [j-(j+1)*y*n[j+1]/n[j] for j in (1,2,3)]
seed=int(sys.argv[1]); N=int(sys.argv[2])
random.seed(seed)
V=['w%d'%i for i in range(int(sys.argv[3]))]
sents=[[random.choice(V) for _ in range(random.randint(1,6))] for _ in range(int(sys.argv[4]))]
open('r.txt','w').write(''.join(' '.join(s)+'\n' for s in sents))
p=subprocess.run(['/repo/_build/bin/lmplz','-o',str(N),'-S','20M','--vocab_estimate','1000','-T','/tmp/exp/','--discount_fallback','--arpa','r.arpa','--text','r.txt'],capture_output=True,text=True)
lines=p.stderr.split('\n')
i=lines.index('Statistics:')
st,adj=stats(sents,N)
for k in range(1,N+1):
    print('impl', lines[i+k]); print('spec n=',st[k],'D=',disc(st[k]))
