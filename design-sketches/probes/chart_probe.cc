#include "lm/left.hh"
#include "lm/model.hh"
#include <cstdio>
#include <cstdlib>
#include <cmath>
#include <random>
#include <string>
#include <vector>
#include <sstream>
#include <fstream>
using namespace lm::ngram;
template <class M> struct Prober {
  const M &m; std::mt19937 &rng; int bad;
  Prober(const M &mm, std::mt19937 &r) : m(mm), rng(r), bad(0) {}
  // score fragment [b,e) recursively with random bracketing; returns total (inclusive) score
  float Frag(const std::vector<lm::WordIndex> &w, size_t b, size_t e, ChartState &out, bool bos) {
    RuleScore<M> rs(m, out);
    if (bos) rs.BeginSentence();
    if (e - b <= 1 || rng()%4==0) { // flat: all terminals
      for (size_t i=b;i<e;i++) rs.Terminal(w[i]);
      return rs.Finish();
    }
    // split into 2..3 children, each child either terminal run or nonterminal
    size_t pos=b; bool first=true;
    while (pos<e) {
      size_t len = 1 + rng()%(e-pos);
      if (len==1 && rng()%2) { rs.Terminal(w[pos]); }
      else {
        ChartState child; float cs = Frag(w,pos,pos+len,child,false);
        if (first && !bos && rng()%2) rs.BeginNonTerminal(child, cs); else rs.NonTerminal(child, cs);
      }
      first=false; pos+=len;
    }
    return rs.Finish();
  }
  void Run(int nsent, const std::vector<lm::WordIndex> &vocab) {
    for (int s=0;s<nsent;s++){
      size_t n=1+rng()%9; std::vector<lm::WordIndex> w(n); for(auto &x:w) x=vocab[rng()%vocab.size()];
      // left to right
      State st=m.BeginSentenceState(), st2; float ltr=0; for(size_t i=0;i<n;i++){ ltr+=m.FullScore(st,w[i],st2).prob; st=st2; }
      for (int rep=0;rep<6;rep++){
        ChartState cs; float tot;
        if (rng()%2) { tot=Frag(w,0,n,cs,true); }
        else { // fragment from null then wrap with BeginSentence
          ChartState inner; float is=Frag(w,0,n,inner,false);
          RuleScore<M> rs(m, cs); rs.BeginSentence(); rs.NonTerminal(inner,is); tot=rs.Finish();
        }
        if (std::fabs(tot-ltr) > 1e-3) { bad++; if (bad<5){ printf("MISMATCH chart=%f ltr=%f words:",tot,ltr); for(auto x:w) printf(" %u",x); printf("\n"); } }
        // right state must equal the left-to-right state
        if (!(cs.right==st)) { bad++; if (bad<5) { printf("MISMATCH right state len %d vs %d words:",(int)cs.right.length,(int)st.length); for(auto x:w) printf(" %u",x); printf("\n"); } }
      }
    }
  }
};
template <class M> int Go(const char *file, unsigned seed, const std::vector<std::string> &words) {
  Config cfg; cfg.messages=NULL; cfg.show_progress=false; cfg.unknown_missing=lm::SILENT; cfg.sentence_marker_missing=lm::SILENT; cfg.probing_multiplier=3.0;
  M m(file,cfg); std::mt19937 rng(seed); std::vector<lm::WordIndex> v; for(auto &s:words){ if(s=="<s>") continue; v.push_back(m.GetVocabulary().Index(s)); } v.push_back(0);
  Prober<M> p(m,rng); p.Run(300,v); return p.bad;
}
int main(int argc,char**argv){
  std::vector<std::string> words; { std::ifstream in(argv[1]); std::string line; bool uni=false; while(std::getline(in,line)){ if(line=="\\1-grams:"){uni=true;continue;} if(uni){ if(line.empty()||line[0]=='\\'){ if(!line.empty()) break; else continue;} size_t a=line.find('\t'); size_t b=line.find('\t',a+1); words.push_back(line.substr(a+1,b==std::string::npos?std::string::npos:b-a-1)); } } }
  unsigned seed=atoi(argv[2]); int bad=0;
  try { bad+=Go<ProbingModel>(argv[1],seed,words); } catch (std::exception &e) { printf("probing rejected\n"); }
  bad+=Go<TrieModel>(argv[1],seed,words);
  printf("%s seed=%u bad=%d\n", bad?"BAD":"ok", seed, bad); return bad?2:0;
}
