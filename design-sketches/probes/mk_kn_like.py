# generate a random ARPA where only contexts have nonzero backoff (as estimators produce); optional SRI-style pruning
import random, sys
sys.path.insert(0,'/tmp/exp')
from arpadiff import gen_model, write_arpa
seed=int(sys.argv[1]); rng=random.Random(seed)
order=rng.randint(2,5); V=rng.randint(2,6)
grams,order=gen_model(rng,order,V,rng.choice([0.15,0.3,0.6]),float(sys.argv[2]))
# zero the backoff of non-contexts
for n in range(1,order):
    ctxs=set(g[:-1] for g in grams.get(n+1,{}))
    for g in grams[n]:
        if g not in ctxs: grams[n][g][1]=0.0
for g in grams[order]: grams[order][g][1]=0.0
write_arpa(grams,order,sys.argv[3],rng)
