#include "util/float_to_string.hh"
#include "util/string_stream.hh"
#include <cstdio>
#include <cstring>
int main() {
  char buf[64]; memset(buf, '#', sizeof(buf));
  float f = -1.2345678e20f; double d = -1.2345678901234567e-5;
  char *e = util::ToString(f, buf); printf("float len=%ld %.*s reserved=%u\n", (long)(e-buf), (int)(e-buf), buf, util::ToStringBuf<float>::kBytes);
  memset(buf, '#', sizeof(buf));
  e = util::ToString(d, buf); printf("double len=%ld %.*s reserved=%u\n", (long)(e-buf), (int)(e-buf), buf, util::ToStringBuf<double>::kBytes);
}
