From Coq Require Import ZArith Lia Bool.
Local Open Scope Z_scope.
Arguments Z.ones : simpl never.
Arguments Z.testbit : simpl never.
Arguments Z.shiftl : simpl never.
Arguments Z.shiftr : simpl never.
Arguments Z.land : simpl never.
Arguments Z.lor : simpl never.
Arguments Z.ldiff : simpl never.
Arguments Z.mul : simpl never.
Arguments Z.add : simpl never.
Arguments Z.sub : simpl never.
Arguments Z.pow : simpl never.
Arguments Z.div : simpl never.
Arguments Z.modulo : simpl never.

(* memory = one big non-negative Z; byte a occupies bits [8a, 8a+8) (little endian) *)
Definition load64 (mem a : Z) : Z := Z.land (Z.shiftr mem (8 * a)) (Z.ones 64).
Definition store64 (mem a v : Z) : Z :=
  Z.lor (Z.ldiff mem (Z.shiftl (Z.ones 64) (8 * a))) (Z.shiftl (Z.land v (Z.ones 64)) (8 * a)).

(* as the translator would emit them (uint64 wrap written in) *)
Definition ReadInt57 (mem bit_off length mask : Z) : Z :=
  Z.land (Z.shiftr (load64 mem (Z.shiftr bit_off 3)) (Z.land bit_off 7)) mask.
Definition WriteInt57 (mem bit_off length value : Z) : Z :=
  store64 mem (Z.shiftr bit_off 3)
    (Z.lor (load64 mem (Z.shiftr bit_off 3)) (Z.land (Z.shiftl value (Z.land bit_off 7)) (Z.ones 64))).

Lemma land7 : forall x, 0 <= x -> Z.land x 7 = x mod 8.
Proof. intros. change 7 with (Z.ones 3). rewrite Z.land_ones by lia. reflexivity. Qed.
Lemma shr3 : forall x, Z.shiftr x 3 = x / 8.
Proof. intros. rewrite Z.shiftr_div_pow2 by lia. reflexivity. Qed.

Ltac bits :=
  repeat first
   [ rewrite Z.land_spec | rewrite Z.lor_spec | rewrite Z.ldiff_spec
   | rewrite Z.shiftr_spec by lia | rewrite Z.shiftl_spec by lia
   | rewrite Z.ones_spec_low by lia | rewrite Z.ones_spec_high by lia
   | rewrite Z.testbit_neg_r by lia ].

Lemma testbit_ones : forall n i, 0 <= n -> 0 <= i -> Z.testbit (Z.ones n) i = (i <? n).
Proof.
  intros. destruct (Z.ltb_spec i n).
  - apply Z.ones_spec_low; lia.
  - apply Z.ones_spec_high; lia.
Qed.

Lemma load64_bit : forall mem a i, 0 <= a -> 0 <= i ->
  Z.testbit (load64 mem a) i = Z.testbit mem (i + 8 * a) && (i <? 64).
Proof. intros. unfold load64. rewrite Z.land_spec, Z.shiftr_spec, testbit_ones by lia. reflexivity. Qed.

Lemma store64_bit : forall mem a v i, 0 <= a -> 0 <= i ->
  Z.testbit (store64 mem a v) i =
  if (8 * a <=? i) && (i <? 8 * a + 64) then Z.testbit v (i - 8 * a) else Z.testbit mem i.
Proof.
  intros mem a v i Ha Hi. unfold store64. rewrite Z.lor_spec, Z.ldiff_spec.
  do 2 rewrite Z.shiftl_spec by lia. rewrite Z.land_spec.
  destruct (Z.leb_spec (8 * a) i) as [H1|H1]; simpl.
  - rewrite !testbit_ones by lia.
    destruct (Z.ltb_spec i (8 * a + 64)); destruct (Z.ltb_spec (i - 8 * a) 64); try lia; simpl.
    + rewrite andb_false_r, andb_true_r. reflexivity.
    + rewrite andb_true_r, andb_false_r, orb_false_r. reflexivity.
  - rewrite !(Z.testbit_neg_r _ (i - 8 * a)) by lia. simpl.
    rewrite andb_true_r, orb_false_r. reflexivity.
Qed.

(* bit-level characterisation of the two translated functions *)
Lemma ReadInt57_bit : forall mem off len i, 0 <= off -> 0 <= len <= 57 -> 0 <= i ->
  Z.testbit (ReadInt57 mem off len (Z.ones len)) i = Z.testbit mem (off + i) && (i <? len).
Proof.
  intros mem off len i Hoff Hlen Hi. unfold ReadInt57. rewrite land7, shr3 by lia.
  assert (Hm : 0 <= off mod 8 < 8) by (apply Z.mod_pos_bound; lia).
  assert (Hd : 0 <= off / 8) by (apply Z.div_pos; lia).
  pose proof (Z.div_mod off 8 ltac:(lia)) as Hdm.
  rewrite Z.land_spec, Z.shiftr_spec, load64_bit, testbit_ones by lia.
  replace (i + off mod 8 + 8 * (off / 8)) with (off + i) by lia.
  destruct (Z.ltb_spec i len); [|rewrite !andb_false_r; reflexivity].
  destruct (Z.ltb_spec (i + off mod 8) 64); [|lia]. rewrite !andb_true_r. reflexivity.
Qed.

Lemma WriteInt57_bit : forall mem off len v i, 0 <= off -> 0 <= len <= 57 -> 0 <= v < 2 ^ len -> 0 <= i ->
  Z.testbit (WriteInt57 mem off len v) i =
  Z.testbit mem i || ((off <=? i) && Z.testbit v (i - off)).
Proof.
  intros mem off len v i Hoff Hlen Hv Hi. unfold WriteInt57. rewrite land7, shr3 by lia.
  assert (Hm : 0 <= off mod 8 < 8) by (apply Z.mod_pos_bound; lia).
  assert (Hd : 0 <= off / 8) by (apply Z.div_pos; lia).
  pose proof (Z.div_mod off 8 ltac:(lia)) as Hdm.
  rewrite store64_bit by lia.
  destruct ((8 * (off / 8) <=? i) && (i <? 8 * (off / 8) + 64)) eqn:Ein.
  - apply andb_true_iff in Ein. destruct Ein as [E1 E2]. apply Z.leb_le in E1. apply Z.ltb_lt in E2.
    rewrite Z.lor_spec, load64_bit, Z.land_spec, Z.shiftl_spec, testbit_ones by lia.
    replace (i - 8 * (off / 8) + 8 * (off / 8)) with i by lia.
    replace (i - 8 * (off / 8) - off mod 8) with (i - off) by lia.
    destruct (Z.ltb_spec (i - 8 * (off / 8)) 64); [|lia]. rewrite !andb_true_r.
    destruct (Z.leb_spec off i); simpl; [reflexivity|]. rewrite (Z.testbit_neg_r v (i - off)) by lia. reflexivity.
  - (* outside the 64-bit window: v has no bits there *)
    destruct (Z.leb_spec off i); simpl; [|rewrite orb_false_r; reflexivity].
    assert (Z.testbit v (i - off) = false).
    { apply andb_false_iff in Ein. destruct Ein as [E|E]; [apply Z.leb_gt in E; lia|apply Z.ltb_ge in E].
      destruct (Z.eq_dec v 0) as [->|]; [apply Z.bits_0|].
      apply Z.bits_above_log2; [lia|]. apply Z.log2_lt_pow2; [lia|].
      apply Z.lt_le_trans with (2 ^ len); [lia|]. apply Z.pow_le_mono_r; lia. }
    rewrite H0, orb_false_r. reflexivity.
Qed.

Theorem read_after_write : forall mem off len v, 0 <= mem -> 0 <= off -> 0 <= len <= 57 -> 0 <= v < 2 ^ len ->
  ReadInt57 mem off len (Z.ones len) = 0 ->       (* target bits initially zero *)
  ReadInt57 (WriteInt57 mem off len v) off len (Z.ones len) = v.
Proof.
  intros mem off len v Hmem Hoff Hlen Hv Hz. apply Z.bits_inj'. intros i Hi.
  rewrite ReadInt57_bit, WriteInt57_bit by (try lia; assumption).
  pose proof (f_equal (fun z => Z.testbit z i) Hz) as Hzi. cbv beta in Hzi.
  rewrite ReadInt57_bit, Z.bits_0 in Hzi by lia.
  replace (off + i - off) with i by lia.
  destruct (Z.leb_spec off (off + i)); [|lia]. simpl.
  destruct (Z.ltb_spec i len).
  - rewrite andb_true_r in *. rewrite Hzi. reflexivity.
  - rewrite andb_false_r. symmetry.
    destruct (Z.eq_dec v 0) as [->|]; [apply Z.bits_0|].
    apply Z.bits_above_log2; [lia|]. apply Z.log2_lt_pow2; [lia|].
    apply Z.lt_le_trans with (2 ^ len); [lia|]. apply Z.pow_le_mono_r; lia.
Qed.

Theorem write_frames : forall mem off len v i, 0 <= off -> 0 <= len <= 57 -> 0 <= v < 2 ^ len -> 0 <= i ->
  (i < off \/ off + len <= i) -> Z.testbit (WriteInt57 mem off len v) i = Z.testbit mem i.
Proof.
  intros mem off len v i Hoff Hlen Hv Hi Hout. rewrite WriteInt57_bit by (try lia; assumption).
  destruct (Z.leb_spec off i); simpl; [|rewrite orb_false_r; reflexivity].
  assert (Z.testbit v (i - off) = false).
  { destruct (Z.eq_dec v 0) as [->|]; [apply Z.bits_0|].
    apply Z.bits_above_log2; [lia|]. apply Z.log2_lt_pow2; [lia|].
    apply Z.lt_le_trans with (2 ^ len); [lia|]. apply Z.pow_le_mono_r; lia. }
  rewrite H0, orb_false_r. reflexivity.
Qed.
Print Assumptions read_after_write.
