From Coq Require Import List Arith Lia Bool.
Import ListNotations.

Inductive ppc := PW | PL | PS | PU | PP.
Inductive cpc := CW | CL | CS | CU | CP.

Record st := { empty : nat; used : nat; stored : nat; taken : nat;
               pm : bool; cm : bool;                       (* mutex held? *)
               prods : list (ppc * nat);                   (* pc, items still to produce (incl. current) *)
               cons  : list (cpc * nat) }.                 (* pc, items still to consume (incl. current) *)

Fixpoint upd {A} (l : list A) (i : nat) (x : A) : list A :=
  match l, i with
  | [], _ => []
  | _ :: t, O => x :: t
  | h :: t, S i' => h :: upd t i' x
  end.

Definition pstep (s : st) (i : nat) : option st :=
  match nth_error (prods s) i with
  | None => None
  | Some (pc, n) =>
    match pc with
    | PW => if (0 <? n) && (0 <? empty s)
            then Some {| empty := empty s - 1; used := used s; stored := stored s; taken := taken s; pm := pm s; cm := cm s;
                         prods := upd (prods s) i (PL, n); cons := cons s |} else None
    | PL => if pm s then None
            else Some {| empty := empty s; used := used s; stored := stored s; taken := taken s; pm := true; cm := cm s;
                         prods := upd (prods s) i (PS, n); cons := cons s |}
    | PS => Some {| empty := empty s; used := used s; stored := S (stored s); taken := taken s; pm := pm s; cm := cm s;
                    prods := upd (prods s) i (PU, n); cons := cons s |}
    | PU => Some {| empty := empty s; used := used s; stored := stored s; taken := taken s; pm := false; cm := cm s;
                    prods := upd (prods s) i (PP, n); cons := cons s |}
    | PP => Some {| empty := empty s; used := S (used s); stored := stored s; taken := taken s; pm := pm s; cm := cm s;
                    prods := upd (prods s) i (PW, n - 1); cons := cons s |}
    end
  end.

Definition cstep (s : st) (j : nat) : option st :=
  match nth_error (cons s) j with
  | None => None
  | Some (pc, n) =>
    match pc with
    | CW => if (0 <? n) && (0 <? used s)
            then Some {| empty := empty s; used := used s - 1; stored := stored s; taken := taken s; pm := pm s; cm := cm s;
                         prods := prods s; cons := upd (cons s) j (CL, n) |} else None
    | CL => if cm s then None
            else Some {| empty := empty s; used := used s; stored := stored s; taken := taken s; pm := pm s; cm := true;
                         prods := prods s; cons := upd (cons s) j (CS, n) |}
    | CS => Some {| empty := empty s; used := used s; stored := stored s; taken := S (taken s); pm := pm s; cm := cm s;
                    prods := prods s; cons := upd (cons s) j (CU, n) |}
    | CU => Some {| empty := empty s; used := used s; stored := stored s; taken := taken s; pm := pm s; cm := false;
                    prods := prods s; cons := upd (cons s) j (CP, n) |}
    | CP => Some {| empty := S (empty s); used := used s; stored := stored s; taken := taken s; pm := pm s; cm := cm s;
                    prods := prods s; cons := upd (cons s) j (CW, n - 1) |}
    end
  end.

Definition step (s : st) (t : nat + nat) : option st :=
  match t with inl i => pstep s i | inr j => cstep s j end.

(* counting *)
Fixpoint cnt {A} (f : A -> bool) (l : list A) : nat :=
  match l with [] => 0 | h :: t => (if f h then 1 else 0) + cnt f t end.
Fixpoint tot {A} (g : A -> nat) (l : list A) : nat :=
  match l with [] => 0 | h :: t => g h + tot g t end.

Lemma cnt_upd : forall A (f : A -> bool) l i x y, nth_error l i = Some y ->
  cnt f (upd l i x) + (if f y then 1 else 0) = cnt f l + (if f x then 1 else 0).
Proof.
  induction l as [|h t IH]; intros i x y H; destruct i; simpl in *; try discriminate.
  - injection H as ->. lia.
  - specialize (IH _ x _ H). lia.
Qed.
Lemma tot_upd : forall A (g : A -> nat) l i x y, nth_error l i = Some y ->
  tot g (upd l i x) + g y = tot g l + g x.
Proof.
  induction l as [|h t IH]; intros i x y H; destruct i; simpl in *; try discriminate.
  - injection H as ->. lia.
  - specialize (IH _ x _ H). lia.
Qed.

Definition p_hasE (x : ppc * nat) := match fst x with PW => false | _ => true end.     (* holds an empty-token *)
Definition p_storedNP (x : ppc * nat) := match fst x with PU | PP => true | _ => false end. (* stored, not posted *)
Definition p_inlock (x : ppc * nat) := match fst x with PS | PU => true | _ => false end.
Definition c_hasU (x : cpc * nat) := match fst x with CW => false | _ => true end.
Definition c_claimed (x : cpc * nat) := match fst x with CL | CS => true | _ => false end.
Definition c_inlock (x : cpc * nat) := match fst x with CS | CU => true | _ => false end.
(* remaining complete stores / loads *)
Definition p_rem (x : ppc * nat) := match fst x with PW | PL | PS => snd x | PU | PP => snd x - 1 end.
Definition c_rem (x : cpc * nat) := match fst x with CW | CL | CS => snd x | CU | CP => snd x - 1 end.
Definition p_pos (x : ppc * nat) := match fst x with PW => true | _ => 0 <? snd x end.
Definition c_pos (x : cpc * nat) := match fst x with CW => true | _ => 0 <? snd x end.

Section K.
Variable k : nat.
Variable total : nat.   (* total items = total produce calls = total consume calls *)

Record Inv (s : st) : Prop := {
  J1 : empty s + used s + cnt p_hasE (prods s) + cnt c_hasU (cons s) = k;
  J2 : stored s = taken s + cnt p_storedNP (prods s) + used s + cnt c_claimed (cons s);
  J3 : cnt p_inlock (prods s) = if pm s then 1 else 0;
  J4 : cnt c_inlock (cons s) = if cm s then 1 else 0;
  J5 : stored s + tot p_rem (prods s) = total;
  J6 : taken s + tot c_rem (cons s) = total;
  J7 : cnt p_pos (prods s) = length (prods s);    (* a thread mid-operation has n > 0 *)
  J8 : cnt c_pos (cons s) = length (cons s)
}.

Lemma cnt_le_len : forall A (f : A -> bool) l, cnt f l <= length l.
Proof. induction l; simpl; [lia|]. destruct (f a); lia. Qed.
Lemma cnt_all_nth : forall A (f : A -> bool) l i x, cnt f l = length l -> nth_error l i = Some x -> f x = true.
Proof.
  induction l as [|h t IH]; intros i x Hc Hn; destruct i; simpl in *; try discriminate.
  - injection Hn as ->. pose proof (cnt_le_len _ f t). destruct (f x); [reflexivity|lia].
  - pose proof (cnt_le_len _ f t). apply (IH i); [destruct (f h); lia|assumption].
Qed.
Lemma upd_length : forall A (l : list A) i x, length (upd l i x) = length l.
Proof. induction l; intros [|i] x; simpl; auto. Qed.

Ltac upd_facts Hn :=
  repeat match goal with
  | |- context [cnt ?f (upd ?l ?i ?x)] =>
      let H := fresh "Hc" in pose proof (cnt_upd _ f l i x _ Hn) as H; simpl in H;
      let c := fresh "c" in set (c := cnt f (upd l i x)) in *; clearbody c
  | |- context [tot ?g (upd ?l ?i ?x)] =>
      let H := fresh "Ht" in pose proof (tot_upd _ g l i x _ Hn) as H; simpl in H;
      let c := fresh "c" in set (c := tot g (upd l i x)) in *; clearbody c
  end.

Theorem step_inv : forall s t s', Inv s -> step s t = Some s' -> Inv s'.
Proof.
  intros s t s' [H1 H2 H3 H4 H5 H6 H7 H8] Hs. destruct t as [i|j]; simpl in Hs.
  - unfold pstep in Hs. destruct (nth_error (prods s) i) as [[pc n]|] eqn:Hn; [|discriminate].
    pose proof (cnt_all_nth _ _ _ _ _ H7 Hn) as Hpos. unfold p_pos in Hpos; simpl in Hpos.
    destruct pc.
    + destruct ((0 <? n) && (0 <? empty s)) eqn:E; [|discriminate]. injection Hs as <-.
      apply andb_true_iff in E. destruct E as [E1 E2]. apply Nat.ltb_lt in E1. apply Nat.ltb_lt in E2.
      constructor; simpl; rewrite ?upd_length; upd_facts Hn;
        unfold p_hasE, p_storedNP, p_inlock, p_rem, p_pos in *; simpl in *;
        try (destruct (0 <? n) eqn:?; [|apply Nat.ltb_ge in Heqb]); try lia.
    + destruct (pm s) eqn:Epm; [discriminate|]. injection Hs as <-. apply Nat.ltb_lt in Hpos.
      constructor; simpl; rewrite ?upd_length; upd_facts Hn;
        unfold p_hasE, p_storedNP, p_inlock, p_rem, p_pos in *; simpl in *;
        try (destruct (0 <? n) eqn:?; [|apply Nat.ltb_ge in Heqb]); try lia.
    + injection Hs as <-. apply Nat.ltb_lt in Hpos.
      constructor; simpl; rewrite ?upd_length; upd_facts Hn;
        unfold p_hasE, p_storedNP, p_inlock, p_rem, p_pos in *; simpl in *;
        try (destruct (0 <? n) eqn:?; [|apply Nat.ltb_ge in Heqb]); try (destruct (pm s)); try lia.
    + injection Hs as <-. apply Nat.ltb_lt in Hpos.
      constructor; simpl; rewrite ?upd_length; upd_facts Hn;
        unfold p_hasE, p_storedNP, p_inlock, p_rem, p_pos in *; simpl in *;
        try (destruct (0 <? n) eqn:?; [|apply Nat.ltb_ge in Heqb]); try (destruct (pm s)); try lia.
    + injection Hs as <-. apply Nat.ltb_lt in Hpos.
      constructor; simpl; rewrite ?upd_length; upd_facts Hn;
        unfold p_hasE, p_storedNP, p_inlock, p_rem, p_pos in *; simpl in *;
        try (destruct (0 <? n) eqn:?; [|apply Nat.ltb_ge in Heqb]); try lia.
  - unfold cstep in Hs. destruct (nth_error (cons s) j) as [[pc n]|] eqn:Hn; [|discriminate].
    pose proof (cnt_all_nth _ _ _ _ _ H8 Hn) as Hpos. unfold c_pos in Hpos; simpl in Hpos.
    destruct pc.
    + destruct ((0 <? n) && (0 <? used s)) eqn:E; [|discriminate]. injection Hs as <-.
      apply andb_true_iff in E. destruct E as [E1 E2]. apply Nat.ltb_lt in E1. apply Nat.ltb_lt in E2.
      constructor; simpl; rewrite ?upd_length; upd_facts Hn;
        unfold c_hasU, c_claimed, c_inlock, c_rem, c_pos in *; simpl in *;
        try (destruct (0 <? n) eqn:?; [|apply Nat.ltb_ge in Heqb]); try lia.
    + destruct (cm s) eqn:Ecm; [discriminate|]. injection Hs as <-. apply Nat.ltb_lt in Hpos.
      constructor; simpl; rewrite ?upd_length; upd_facts Hn;
        unfold c_hasU, c_claimed, c_inlock, c_rem, c_pos in *; simpl in *;
        try (destruct (0 <? n) eqn:?; [|apply Nat.ltb_ge in Heqb]); try lia.
    + injection Hs as <-. apply Nat.ltb_lt in Hpos.
      constructor; simpl; rewrite ?upd_length; upd_facts Hn;
        unfold c_hasU, c_claimed, c_inlock, c_rem, c_pos in *; simpl in *;
        try (destruct (0 <? n) eqn:?; [|apply Nat.ltb_ge in Heqb]); try (destruct (cm s)); try lia.
    + injection Hs as <-. apply Nat.ltb_lt in Hpos.
      constructor; simpl; rewrite ?upd_length; upd_facts Hn;
        unfold c_hasU, c_claimed, c_inlock, c_rem, c_pos in *; simpl in *;
        try (destruct (0 <? n) eqn:?; [|apply Nat.ltb_ge in Heqb]); try (destruct (cm s)); try lia.
    + injection Hs as <-. apply Nat.ltb_lt in Hpos.
      constructor; simpl; rewrite ?upd_length; upd_facts Hn;
        unfold c_hasU, c_claimed, c_inlock, c_rem, c_pos in *; simpl in *;
        try (destruct (0 <? n) eqn:?; [|apply Nat.ltb_ge in Heqb]); try lia.
Qed.

(* capacity: never more than k items stored and untaken *)
Theorem capacity : forall s, Inv s -> stored s - taken s <= k /\ taken s <= stored s.
Proof.
  intros s [H1 H2 _ _ _ _ _ _].
  assert (forall l, cnt p_storedNP l <= cnt p_hasE l).
  { induction l as [|[[] n] l IH]; simpl; unfold p_storedNP, p_hasE in *; simpl; lia. }
  assert (forall l, cnt c_claimed l <= cnt c_hasU l).
  { induction l as [|[[] n] l IH]; simpl; unfold c_claimed, c_hasU in *; simpl; lia. }
  specialize (H (prods s)). specialize (H0 (cons s)). lia.
Qed.

(* every reachable state *)
Theorem reach_inv : forall sched s, Inv s ->
  forall s', fold_left (fun o t => match o with Some x => step x t | None => None end) sched (Some s) = Some s' -> Inv s'.
Proof.
  induction sched as [|t sched IH]; intros s Hi s' Hf; simpl in Hf.
  - injection Hf as <-. exact Hi.
  - destruct (step s t) as [s1|] eqn:E.
    + apply (IH s1); [eapply step_inv; eassumption|exact Hf].
    + exfalso. clear -Hf. induction sched; simpl in Hf; [discriminate|auto].
Qed.


Lemma cnt_pos_ex : forall A (f : A -> bool) l, 0 < cnt f l -> exists i x, nth_error l i = Some x /\ f x = true.
Proof.
  induction l as [|h t IH]; simpl; intros H; [lia|].
  destruct (f h) eqn:E.
  - exists 0, h. simpl. auto.
  - destruct (IH ltac:(lia)) as (i & x & Hn & Hf). exists (S i), x. simpl. auto.
Qed.
Lemma tot_pos_ex : forall A (g : A -> nat) l, 0 < tot g l -> exists i x, nth_error l i = Some x /\ 0 < g x.
Proof.
  induction l as [|h t IH]; simpl; intros H; [lia|].
  destruct (Nat.eq_dec (g h) 0) as [E|E].
  - destruct (IH ltac:(lia)) as (i & x & Hn & Hf). exists (S i), x. simpl. auto.
  - exists 0, h. simpl. split; [reflexivity|lia].
Qed.

Definition p_run (x : ppc * nat) := match fst x with PS | PU | PP => true | _ => false end.
Definition p_atL (x : ppc * nat) := match fst x with PL => true | _ => false end.
Definition c_run (x : cpc * nat) := match fst x with CS | CU | CP => true | _ => false end.
Definition c_atL (x : cpc * nat) := match fst x with CL => true | _ => false end.

Lemma p_split : forall l, cnt p_hasE l = cnt p_run l + cnt p_atL l /\ cnt p_inlock l <= cnt p_run l /\ cnt p_storedNP l <= cnt p_run l.
Proof. induction l as [|[[] n] l IH]; simpl; unfold p_hasE, p_run, p_atL, p_inlock, p_storedNP in *; simpl; lia. Qed.
Lemma c_split : forall l, cnt c_hasU l = cnt c_run l + cnt c_atL l /\ cnt c_inlock l <= cnt c_run l /\ cnt c_claimed l <= cnt c_run l + cnt c_atL l.
Proof. induction l as [|[[] n] l IH]; simpl; unfold c_hasU, c_run, c_atL, c_inlock, c_claimed in *; simpl; lia. Qed.

(* all idle: remaining work is just the n's *)
Lemma p_idle_rem : forall l, cnt p_hasE l = 0 -> tot p_rem l = tot (fun x => snd x) l /\
   (forall i pc n, nth_error l i = Some (pc, n) -> pc = PW).
Proof.
  induction l as [|[pc n] l IH]; simpl; intros H.
  - split; [reflexivity|]. intros [|i]; discriminate.
  - destruct pc; unfold p_hasE in H; simpl in H; try lia. destruct (IH H) as [E F].
    split; [unfold p_rem at 1; simpl; lia|]. intros [|i] pc' n' Hn; simpl in Hn; [congruence|eauto].
Qed.
Lemma c_idle_rem : forall l, cnt c_hasU l = 0 -> tot c_rem l = tot (fun x => snd x) l /\
   (forall i pc n, nth_error l i = Some (pc, n) -> pc = CW).
Proof.
  induction l as [|[pc n] l IH]; simpl; intros H.
  - split; [reflexivity|]. intros [|i]; discriminate.
  - destruct pc; unfold c_hasU in H; simpl in H; try lia. destruct (IH H) as [E F].
    split; [unfold c_rem at 1; simpl; lia|]. intros [|i] pc' n' Hn; simpl in Hn; [congruence|eauto].
Qed.

Definition work_left (s : st) := 0 < tot p_rem (prods s) + tot c_rem (cons s)
                                  \/ 0 < cnt p_hasE (prods s) + cnt c_hasU (cons s).

Theorem deadlock_free : forall s, 1 <= k -> Inv s -> work_left s -> exists t s', step s t = Some s'.
Proof.
  intros s Hk [H1 H2 H3 H4 H5 H6 H7 H8] Hw.
  destruct (p_split (prods s)) as (Pa & Pb & Pc). destruct (c_split (cons s)) as (Ca & Cb & Cc).
  (* a producer in PS/PU/PP can always run *)
  destruct (Nat.eq_dec (cnt p_run (prods s)) 0) as [Pr|Pr].
  2:{ destruct (cnt_pos_ex _ p_run (prods s) ltac:(lia)) as (i & [pc n] & Hn & Hf).
      exists (inl i). simpl. unfold pstep. rewrite Hn. destruct pc; unfold p_run in Hf; simpl in Hf; try discriminate; eauto. }
  destruct (Nat.eq_dec (cnt c_run (cons s)) 0) as [Cr|Cr].
  2:{ destruct (cnt_pos_ex _ c_run (cons s) ltac:(lia)) as (j & [pc n] & Hn & Hf).
      exists (inr j). simpl. unfold cstep. rewrite Hn. destruct pc; unfold c_run in Hf; simpl in Hf; try discriminate; eauto. }
  (* nobody holds a mutex *)
  assert (Hpm : pm s = false) by (destruct (pm s); [lia|reflexivity]).
  assert (Hcm : cm s = false) by (destruct (cm s); [lia|reflexivity]).
  destruct (Nat.eq_dec (cnt p_atL (prods s)) 0) as [Pl|Pl].
  2:{ destruct (cnt_pos_ex _ p_atL (prods s) ltac:(lia)) as (i & [pc n] & Hn & Hf).
      exists (inl i). simpl. unfold pstep. rewrite Hn. destruct pc; unfold p_atL in Hf; simpl in Hf; try discriminate.
      rewrite Hpm. eauto. }
  destruct (Nat.eq_dec (cnt c_atL (cons s)) 0) as [Cl|Cl].
  2:{ destruct (cnt_pos_ex _ c_atL (cons s) ltac:(lia)) as (j & [pc n] & Hn & Hf).
      exists (inr j). simpl. unfold cstep. rewrite Hn. destruct pc; unfold c_atL in Hf; simpl in Hf; try discriminate.
      rewrite Hcm. eauto. }
  (* everyone is idle at PW / CW *)
  assert (HpE : cnt p_hasE (prods s) = 0) by lia. assert (HcU : cnt c_hasU (cons s) = 0) by lia.
  destruct (p_idle_rem _ HpE) as [Prem Ppc]. destruct (c_idle_rem _ HcU) as [Crem Cpc].
  assert (Hu : used s + tot p_rem (prods s) = tot c_rem (cons s)) by lia.
  destruct (Nat.eq_dec (used s) 0) as [U0|U0].
  - (* queue empty: a producer with work can run since empty = k >= 1 *)
    assert (0 < tot p_rem (prods s)) by (destruct Hw; lia).
    rewrite Prem in H. destruct (tot_pos_ex _ _ _ H) as (i & [pc n] & Hn & Hpos). simpl in Hpos.
    exists (inl i). simpl. unfold pstep. rewrite Hn. rewrite (Ppc _ _ _ Hn).
    assert (E1 : (0 <? n) = true) by (apply Nat.ltb_lt; lia).
    assert (E2 : (0 <? empty s) = true) by (apply Nat.ltb_lt; lia). rewrite E1, E2. simpl. eauto.
  - (* something is queued: a consumer with work can run *)
    assert (0 < tot c_rem (cons s)) by lia.
    rewrite Crem in H. destruct (tot_pos_ex _ _ _ H) as (j & [pc n] & Hn & Hpos). simpl in Hpos.
    exists (inr j). simpl. unfold cstep. rewrite Hn. rewrite (Cpc _ _ _ Hn).
    assert (E1 : (0 <? n) = true) by (apply Nat.ltb_lt; lia).
    assert (E2 : (0 <? used s) = true) by (apply Nat.ltb_lt; lia). rewrite E1, E2. simpl. eauto.
Qed.

End K.
Print Assumptions deadlock_free.
