From Coq Require Import List ZArith Lia Bool Arith.
Import ListNotations.
Local Open Scope Z_scope.

Definition word := nat.
Record entry := { prob : Z; bov : Z; ext : bool; left : bool }.

Section LM.
Variable N : nat.
Variable T : list word -> option entry.

Definition bo_of (k : list word) : Z := match T k with Some e => bov e | None => 0 end.

Fixpoint spec (ctx : list word) (w : word) (k : nat) : Z :=
  match T (w :: firstn k ctx) with
  | Some e => prob e
  | None => match k with
            | O => 0
            | S k' => bo_of (firstn k ctx) + spec ctx w k'
            end
  end.

Definition M (ctx : list word) := Nat.min (length ctx) (N - 1).
Definition bo_score ctx w := spec ctx w (M ctx).

(* sum of backoffs of contexts of length i+1 .. i+n *)
Fixpoint sumbo (ctx : list word) (n i : nat) : Z :=
  match n with O => 0 | S n' => bo_of (firstn (S i) ctx) + sumbo ctx n' (S i) end.

Fixpoint resume (fuel : nat) (ctx : list word) (w : word) (i : nat) (p : Z) (indep : bool) : Z * nat :=
  match fuel with
  | O => (p, i)
  | S f =>
    if indep then (p, i) else
    if Nat.leb (M ctx) i then (p, i) else
    match T (w :: firstn (S i) ctx) with
    | None => (p, i)
    | Some e => resume f ctx w (S i) (prob e) (negb (left e))
    end
  end.
(* here the second component is the number of context words matched (ngram_length - 1) *)

Definition score_except_backoff ctx w : Z * nat :=
  match T [w] with
  | None => (0, 0%nat)
  | Some e => resume N ctx w 0 (prob e) (negb (left e))
  end.

(* charge backoffs of contexts of length j+1 .. M, stopping at the first missing context *)
Fixpoint charge (fuel : nat) (ctx : list word) (j : nat) : Z :=
  match fuel with
  | O => 0
  | S f => if Nat.leb (M ctx) j then 0 else
           match T (firstn (S j) ctx) with
           | None => 0
           | Some e => bov e + charge f ctx (S j)
           end
  end.

Definition full_score_forgot ctx w : Z :=
  let '(p, i) := score_except_backoff ctx w in p + charge N ctx i.

Hypothesis Hord : (2 <= N)%nat.
Hypothesis I1 : forall k x, k <> [] -> T (k ++ [x]) <> None -> T k <> None.
Hypothesis I2 : forall k e, T k = Some e -> (left e = true <-> exists x, T (k ++ [x]) <> None).

Lemma firstn_S_snoc : forall (l : list word) i, (i < length l)%nat ->
  exists x, firstn (S i) l = firstn i l ++ [x].
Proof.
  induction l as [|a l IH]; intros i Hi; simpl in Hi; [lia|].
  destruct i as [|i]; simpl.
  - exists a. reflexivity.
  - destruct (IH i) as [x Hx]; [lia|]. exists x. simpl in Hx. rewrite Hx. reflexivity.
Qed.

Lemma miss_step : forall ctx w j, (j < length ctx)%nat ->
  T (w :: firstn j ctx) = None -> T (w :: firstn (S j) ctx) = None.
Proof.
  intros ctx w j Hj Hm. destruct (firstn_S_snoc ctx j Hj) as [x Hx].
  destruct (T (w :: firstn (S j) ctx)) eqn:E; [|reflexivity]. exfalso.
  rewrite Hx in E. change (w :: firstn j ctx ++ [x]) with ((w :: firstn j ctx) ++ [x]) in E.
  apply (I1 (w :: firstn j ctx) x); [discriminate| rewrite E; discriminate | exact Hm].
Qed.

Lemma miss_mono : forall ctx w i j, (i <= j)%nat -> (j <= length ctx)%nat ->
  T (w :: firstn i ctx) = None -> T (w :: firstn j ctx) = None.
Proof.
  intros ctx w i j Hij Hj Hm. induction j as [|j IH].
  - assert (i = 0)%nat by lia. subst. exact Hm.
  - destruct (Nat.eq_dec i (S j)) as [->|Hne]; [exact Hm|].
    apply miss_step; [lia|]. apply IH; lia.
Qed.

(* context grams are suffix closed as well: missing shorter context => missing longer *)
Lemma ctx_miss_step : forall ctx j, (1 <= j)%nat -> (j < length ctx)%nat ->
  T (firstn j ctx) = None -> T (firstn (S j) ctx) = None.
Proof.
  intros ctx j H1 Hj Hm. destruct (firstn_S_snoc ctx j Hj) as [x Hx].
  destruct (T (firstn (S j) ctx)) eqn:E; [|reflexivity]. exfalso.
  rewrite Hx in E. apply (I1 (firstn j ctx) x).
  - destruct ctx; simpl in *; [lia|]. destruct j; [lia|]. simpl. discriminate.
  - rewrite E. discriminate.
  - exact Hm.
Qed.

Lemma sumbo_snoc : forall ctx n i, sumbo ctx (S n) i = sumbo ctx n i + bo_of (firstn (S (i + n)) ctx).
Proof.
  intros ctx n. induction n as [|n IH]; intros i.
  - cbn [sumbo]. replace (i + 0)%nat with i by lia. lia.
  - cbn [sumbo] in *. specialize (IH (S i)). cbn [sumbo] in IH. rewrite IH.
    replace (S i + n)%nat with (i + S n)%nat by lia. lia.
Qed.

(* spec when everything above i misses *)
Lemma spec_miss_above : forall ctx w k i, (i <= k)%nat ->
  (forall j, (i < j <= k)%nat -> T (w :: firstn j ctx) = None) ->
  spec ctx w k = spec ctx w i + sumbo ctx (k - i) i.
Proof.
  intros ctx w k. induction k as [|k IH]; intros i Hik Hm.
  - assert (i = 0)%nat by lia. subst. cbn. lia.
  - destruct (Nat.eq_dec i (S k)) as [->|Hne].
    + replace (S k - S k)%nat with 0%nat by lia. cbn [sumbo]. lia.
    + cbn [spec]. rewrite (Hm (S k)) by lia.
      rewrite (IH i) by (try lia; intros; apply Hm; lia).
      replace (S k - i)%nat with (S (k - i)) by lia.
      rewrite sumbo_snoc. replace (i + (k - i))%nat with k by lia. lia.
Qed.

Lemma spec_hit : forall ctx w k e, T (w :: firstn k ctx) = Some e -> spec ctx w k = prob e.
Proof. intros ctx w k e H. destruct k; cbn [spec]; rewrite H; reflexivity. Qed.

(* resume returns the last hit; everything above it up to M misses *)
Lemma resume_correct : forall fuel ctx w i p indep e,
  (M ctx - i <= fuel)%nat -> (i <= M ctx)%nat ->
  T (w :: firstn i ctx) = Some e -> p = prob e -> indep = negb (left e) ->
  let '(p', i') := resume fuel ctx w i p indep in
  (i <= i' <= M ctx)%nat /\ (exists e', T (w :: firstn i' ctx) = Some e' /\ p' = prob e') /\
  (forall j, (i' < j <= M ctx)%nat -> T (w :: firstn j ctx) = None).
Proof.
  induction fuel as [|f IH]; intros ctx w i p indep e Hf Hi He Hp Hind.
  - cbn [resume]. assert (i = M ctx) by lia. subst i. split; [lia|]. split; [eauto|]. intros; lia.
  - cbn [resume]. destruct indep eqn:Eind.
    + (* independent left: no extension, so everything above misses *)
      split; [lia|]. split; [eauto|]. intros j Hj.
      assert (Hl : left e = false) by (destruct (left e); simpl in Hind; congruence).
      apply (miss_mono ctx w (S i) j); [lia| unfold M in *; lia|].
      destruct (T (w :: firstn (S i) ctx)) eqn:E; [|reflexivity]. exfalso.
      destruct (firstn_S_snoc ctx i ltac:(unfold M in *; lia)) as [x Hx].
      rewrite Hx in E. change (w :: firstn i ctx ++ [x]) with ((w :: firstn i ctx) ++ [x]) in E.
      pose proof (proj2 (I2 _ _ He)) as H2. rewrite Hl in H2.
      assert (false = true) by (apply H2; exists x; rewrite E; discriminate). discriminate.
    + destruct (Nat.leb (M ctx) i) eqn:Eleb.
      * apply Nat.leb_le in Eleb. split; [lia|]. split; [eauto|]. intros; lia.
      * apply Nat.leb_gt in Eleb.
        destruct (T (w :: firstn (S i) ctx)) as [e1|] eqn:E1.
        -- specialize (IH ctx w (S i) (prob e1) (negb (left e1)) e1 ltac:(lia) ltac:(lia) E1 eq_refl eq_refl).
           destruct (resume f ctx w (S i) (prob e1) (negb (left e1))) as [p' i'].
           destruct IH as (A & B & C). split; [lia|]. split; assumption.
        -- split; [lia|]. split; [eauto|]. intros j Hj.
           apply (miss_mono ctx w (S i) j); [lia| unfold M in *; lia| exact E1].
Qed.

(* charge equals the full backoff sum (missing contexts contribute 0, and once missing always missing) *)
Lemma charge_correct : forall fuel ctx j, (M ctx - j <= fuel)%nat -> (j <= M ctx)%nat ->
  charge fuel ctx j = sumbo ctx (M ctx - j) j.
Proof.
  induction fuel as [|f IH]; intros ctx j Hf Hj.
  - cbn [charge]. replace (M ctx - j)%nat with 0%nat by lia. reflexivity.
  - cbn [charge]. destruct (Nat.leb (M ctx) j) eqn:E.
    + apply Nat.leb_le in E. replace (M ctx - j)%nat with 0%nat by lia. reflexivity.
    + apply Nat.leb_gt in E. replace (M ctx - j)%nat with (S (M ctx - S j)) by lia. cbn [sumbo].
      unfold bo_of at 1. destruct (T (firstn (S j) ctx)) as [e|] eqn:Ee.
      * rewrite IH by lia. reflexivity.
      * (* all longer contexts are missing too *)
        assert (Hz : forall n i, (S j <= i)%nat -> (i + n <= M ctx)%nat -> sumbo ctx n i = 0).
        { induction n as [|n IHn]; intros i Hi Hin; [reflexivity|]. cbn [sumbo].
          rewrite IHn by lia. unfold bo_of.
          assert (T (firstn (S i) ctx) = None).
          { clear IHn. induction i as [|i IHi]; [lia|].
            destruct (Nat.eq_dec (S i) (S j)) as [Heq|Hne].
            - injection Heq as ->. apply ctx_miss_step; [lia| unfold M in *; lia| exact Ee].
            - apply ctx_miss_step; [lia| unfold M in *; lia|]. apply IHi; lia. }
          rewrite H. lia. }
        rewrite Hz by lia. lia.
Qed.

Theorem full_score_forgot_spec : forall ctx w e, T [w] = Some e ->
  full_score_forgot ctx w = bo_score ctx w.
Proof.
  intros ctx w e He. unfold full_score_forgot, score_except_backoff, bo_score. rewrite He.
  pose proof (resume_correct N ctx w 0 (prob e) (negb (left e)) e) as H.
  specialize (H ltac:(unfold M; lia) ltac:(lia) He eq_refl eq_refl).
  destruct (resume N ctx w 0 (prob e) (negb (left e))) as [p' i'].
  destruct H as (Hi & (e' & He' & ->) & Hmiss).
  rewrite charge_correct by (unfold M in *; lia).
  rewrite (spec_miss_above ctx w (M ctx) i') by (try lia; exact Hmiss).
  rewrite (spec_hit _ _ _ _ He'). reflexivity.
Qed.

End LM.
Print Assumptions full_score_forgot_spec.
