(* C16 model driver: same line protocol as harness/drivers/c16_driver.cc, evaluated with the extracted model.
   SORT:  S <kind I|S|C|P> <n> <pw> <comb 0|1> <chain_blocks> <chain_mem> <fill F|E> <buf> <tot> <lazy> <mode O|M|S> recs...
          rec = w1.w2...:payload   "/" = block boundary (fill E)           (all numbers hex)
          -> OK <ret> rec rec ... | T g:len,g:len;...      or BADCHAIN | BADSORT | ABORT2 | ABORTLAZY | FUEL
   OFF:   OFF l1 l2 ... [R m1 m2 ...]   -> <blocks> off:len ... [ R <blocks> off:len ...] *)
open C16_model
(*INCLUDE zio*)

let n_of_hex s = Z.to_N (z_of_hex s)
let hex_of_n x = hex_of_z (Z.of_N x)
let nat_of_hex s = N.to_nat (n_of_hex s)

let parse_rec (s : string) : rec0 =
  match String.split_on_char ':' s with
  | [k; p] -> (List.map n_of_hex (String.split_on_char '.' k), n_of_hex p)
  | _ -> failwith ("bad record " ^ s)

let show_rec ((k, p) : rec0) : string = String.concat "." (List.map hex_of_n k) ^ ":" ^ hex_of_n p

let show_trace tr =
  String.concat ";" (List.map (fun pass ->
      String.concat "," (List.map (fun (g, len) -> Printf.sprintf "%x:%x" (int_of_nat g) (int_of_nat len)) pass)) tr)

let split_blocks (toks : string list) : rec0 list list =
  let rec go cur acc = function
    | [] -> List.rev (List.rev cur :: acc)
    | "/" :: r -> go [] (List.rev cur :: acc) r
    | t :: r -> go (parse_rec t :: cur) acc r in
  go [] [] toks

let handle_sort toks =
  match toks with
  | kind :: n :: pw :: comb :: cbc :: cmem :: fill :: buf :: tot :: lz :: mode :: recs ->
      let n_i = int_of_string ("0x" ^ n) and pw_i = int_of_string ("0x" ^ pw) in
      let es_i = (if kind = "I" then n_i else 4 * n_i) + pw_i in
      let es = n_of_hex (Printf.sprintf "%x" es_i) in
      let order = if kind = "I" then nat_of_int 1 else nat_of_int n_i in
      let klt = match kind with
        | "I" | "S" -> suffix_lt order
        | "C" -> context_lt order
        | "P" -> prefix_lt order
        | _ -> failwith "kind" in
      let lt = rec_lt klt in
      let combine = if comb = "1" then combine_counts order else never_combine in
      (match chain_block_size es (n_of_hex cbc) (n_of_hex cmem) with
       | None -> "BADCHAIN"
       | Some bs ->
           let blocks =
             if fill = "F" then begin
               let cap = int_of_string ("0x" ^ hex_of_n bs) / es_i in
               blocks_of (nat_of_int cap) (List.map parse_rec recs) end
             else split_blocks recs in
           let m = match mode with "O" -> ModeOutput | "M" -> ModeMergeOutput | "S" -> ModeSteal | _ -> failwith "mode" in
           let cfg = { cfg_buffer = n_of_hex buf; cfg_total = n_of_hex tot } in
           (match sort_run lt combine es m cfg (n_of_hex lz) blocks with
            | (SortOk (out, tr), r) ->
                "OK " ^ hex_of_n r ^ String.concat "" (List.map (fun x -> " " ^ show_rec x) out) ^ " | T " ^ show_trace tr
            | (SortBadConfig, _) -> "BADSORT"
            | (SortAbortTwo, _) -> "ABORT2"
            | (SortAbortLazy, _) -> "ABORTLAZY"
            | (SortFuel, _) -> "FUEL"))
  | _ -> failwith "S args"

let drain_str (lens : n list) : string =
  let o = off_log lens in
  match off_drain (nat_of_int (List.length lens)) o with
  | None -> "DRAIN-FAILED"
  | Some l -> hex_of_n o.off_blocks ^ String.concat "" (List.map (fun (off, len) -> " " ^ hex_of_n off ^ ":" ^ hex_of_n len) l)

let handle_off toks =
  let rec split cur acc = function
    | [] -> List.rev (List.rev cur :: acc)
    | "R" :: r -> split [] (List.rev cur :: acc) r
    | t :: r -> split (n_of_hex t :: cur) acc r in
  String.concat " R " (List.map drain_str (split [] [] toks))

let handle (line : string) : string =
  match split_ws line with
  | "S" :: r -> handle_sort r
  | "OFF" :: r -> handle_off r
  | "PR" :: file :: off :: size :: script :: [] ->
      (* PR <file bytes hex|-> <off> <size> <d3,i,d1,...>  : util::ErsatzPRead with dictated pread return lengths *)
      let bytes = if file = "-" then [] else List.init (String.length file / 2) (fun i -> String.sub file (2 * i) 2) in
      let o = List.map (fun t -> if t = "i" then Eintr else Short (nat_of_int (int_of_string (String.sub t 1 (String.length t - 1)))))
          (List.filter (fun t -> t <> "") (String.split_on_char ',' script)) in
      (match ersatz_pread o bytes (nat_of_int (int_of_string ("0x" ^ size))) (nat_of_int (int_of_string ("0x" ^ off))) O with
       | PROk (g, c) -> "OK " ^ (if g = [] then "-" else String.concat "" g) ^ " " ^ string_of_int (int_of_nat c)
       | PREof c -> "EOF " ^ string_of_int (int_of_nat c)
       | PRNoOutcome -> "NO-OUTCOME")
  | _ -> "?"

let () = each_line handle
