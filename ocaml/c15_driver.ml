(* C15 model driver: same protocol as harness/drivers/c15_driver.cc, evaluated with the extracted model. *)
open C15_model
(* zio.ml.inc is not included: this model extracts no Z/positive; the four helpers needed are repeated here *)
let nat_of_int (n : int) : nat = let rec go acc k = if k <= 0 then acc else go (S acc) (k - 1) in go O n
let int_of_nat (n : nat) : int = let rec go acc = function O -> acc | S k -> go (acc + 1) k in go 0 n
let split_ws (s : string) : string list = List.filter (fun x -> x <> "") (String.split_on_char ' ' s)
let each_line (f : string -> string) : unit =
  (try while true do
       let l = input_line stdin in
       (try print_string (f l) with e -> print_string ("MODEL-EXCEPTION " ^ Printexc.to_string e));
       print_newline ()
     done with End_of_file -> ())

let unhex (h : string) : int list =
  if h = "-" then [] else
    List.init (String.length h / 2) (fun i -> int_of_string ("0x" ^ String.sub h (2 * i) 2))
let hex (l : int list) : string =
  if l = [] then "-" else String.concat "" (List.map (Printf.sprintf "%02x") l)

let oracle (s : string) : outcome list =
  if s = "-" then [] else
    List.map (fun t ->
        let v () = int_of_string (String.sub t 1 (String.length t - 1)) in
        match t.[0] with
        | 'd' -> Done (nat_of_int (v ()))
        | 'i' -> Eintr
        | 'f' -> Fail (nat_of_int (v ()))
        | _ -> failwith "oracle") (List.filter (fun x -> x <> "") (String.split_on_char ',' s))

let rec len = function [] -> 0 | _ :: r -> 1 + len r
let calls o rest = string_of_int (List.length o - List.length rest)

let status = function
  | Ok -> "ok"
  | Throw (EFd e) -> "fd:" ^ string_of_int (int_of_nat e)
  | Throw EEof -> "eof"
  | Throw EZero -> "zero"
  | NoOracle -> "nooracle"

let fs_status = function
  | FsOk -> "ok"
  | FsThrow (EFd e) -> "fd:" ^ string_of_int (int_of_nat e)
  | FsThrow EEof -> "eof"
  | FsThrow EZero -> "zero"
  | FsAbort -> "abort"
  | FsNoOracle -> "nooracle"

(* constants of the implementation (first line of every batch): kToStringMaxBytes, kBytes of uint16/32/64 *)
let k_max = ref 20 and k16 = ref 5 and k32 = ref 10 and k64 = ref 20

let ascii (s : string) : int list = List.init (String.length s) (fun i -> Char.code s.[i])

let fs_op (t : string) : int fs_op =
  let arg = String.sub t 1 (String.length t - 1) in
  match t.[0] with
  | 'w' -> FWrite (unhex arg)
  | 'a' -> FFmt (nat_of_int !k16, ascii arg)
  | 'b' -> FFmt (nat_of_int !k32, ascii arg)
  | 'c' -> FFmt (nat_of_int !k64, ascii arg)
  | 'p' -> FFmt (nat_of_int 1, unhex arg)
  | 'f' -> FFlush
  | _ -> failwith "fs op"

let handle (line : string) : string =
  match split_ws line with
  | ["K"; a; b; c; d] ->
      k_max := int_of_string a; k16 := int_of_string b; k32 := int_of_string c; k64 := int_of_string d; line
  | ["W"; data; o] ->
      let o = oracle o in
      let ((w, rest), s) = write_loop o (unhex data) in
      status s ^ " " ^ hex w ^ " " ^ calls o rest
  | ["R"; e; src; amount; o] ->
      let o = oracle o in
      let (((g, _), rest), s) = read_loop (e = "1") o (unhex src) (nat_of_int (int_of_string amount)) in
      status s ^ " " ^ hex g ^ " " ^ calls o rest
  | ["P"; src; amount; o] ->
      let o = oracle o in
      let (((g, _), rest), s) = partial_read o (unhex src) (nat_of_int (int_of_string amount)) in
      status s ^ " " ^ hex g ^ " " ^ calls o rest
  | ["PR"; file; size; off; o] ->
      let o = oracle o in
      let ((g, rest), s) = pread_loop o (unhex file) (nat_of_int (int_of_string size)) (nat_of_int (int_of_string off)) in
      status s ^ " " ^ hex g ^ " " ^ calls o rest
  | ["PW"; file; data; off; o] ->
      let o = oracle o in
      let (((f, m), rest), s) = pwrite_loop 0 o (unhex file) (unhex data) (nat_of_int (int_of_string off)) in
      status s ^ " " ^ hex f ^ " " ^ string_of_int (int_of_nat m) ^ " " ^ calls o rest
  | ["SN"; file; o] ->
      let o = oracle o in
      let (((g, _), rest), s) = sniff_magic o (unhex file) in
      (* the implementation hands the header out only when the constructor returned normally *)
      status s ^ " " ^ (if s = Ok then hex g else "-") ^ " " ^ calls o rest
  | ["S"; _; _; o] ->
      let o = oracle o in
      let (rest, s) = single_call o in
      status s ^ " - " ^ calls o rest
  | ["FS"; bufsize; o; ops] ->
      let o = oracle o in
      let cap = max (int_of_string bufsize) !k_max in
      let ops = if ops = "-" then [] else List.map fs_op (List.filter (fun x -> x <> "") (String.split_on_char ',' ops)) in
      let ((w, rest), s) = fs_run (nat_of_int cap) o [] ops in
      fs_status s ^ " " ^ hex w ^ " " ^ calls o rest
  | _ -> "BAD-CASE"

let () = each_line handle
