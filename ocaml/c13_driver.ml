(* C13 model driver: one case per line, one answer per line.  All numbers in hex (negative: leading '-').
   M C <order> <lambda> <ids>:<p>:<b> ... C <order> <lambda> ...     component tables (ids = universal word ids, ',' separated)
        -> <ids>:<P>:<B> ... |R <buggy 0/1> <fixed 0/1> |F <max successors of one context, per order> |U <union vocabulary> <largest component vocabulary>      P = sum_i lambda_i * full back-off score, B = sum_i lambda_i * back-off
   V <h,h,..>;<h,..>;...    per-model vocabulary hashes (words 1..), "-" = none
        -> G:<h,..>|M:<gi,..>;<gi,..>   or FUEL
   B <bounds hex bytes> <values hex bytes>     bounded sequence encoding ("-" = empty)
        -> L:<length> E:<encoded bytes hex|-> D:<decoded hex|->      (same format as harness/drivers/c13_driver.cc) *)
open C13_model
(*INCLUDE zio*)

let n_of_hex (s : string) : n = match z_of_hex s with Z0 -> N0 | Zpos p -> Npos p | Zneg _ -> failwith "neg"
let hex_of_n (x : n) : string = match x with N0 -> "0" | Npos p -> hex_of_z (Zpos p)

let ids_of s = if s = "-" then [] else List.map n_of_hex (String.split_on_char ',' s)
let str_ids l = if l = [] then "-" else String.concat "," (List.map hex_of_n l)

let rec comps toks acc =
  match toks with
  | [] -> List.rev acc
  | "C" :: order :: lam :: rest ->
      let rec entries toks acc2 =
        match toks with
        | [] -> (List.rev acc2, [])
        | "C" :: _ -> (List.rev acc2, toks)
        | e :: r ->
            (match String.split_on_char ':' e with
             | [ids; p; b] -> entries r ((ids_of ids, (z_of_hex p, z_of_hex b)) :: acc2)
             | _ -> failwith "entry") in
      let (es, rest') = entries rest [] in
      comps rest' ({ c_order = nat_of_int (int_of_string order); c_lambda = z_of_hex lam; c_tbl = es } :: acc)
  | _ -> failwith "comps"

let handle (line : string) : string =
  match split_ws line with
  | "M" :: rest ->
      let cs = comps rest [] in
      let rows = merged_Z cs in
      String.concat " " (List.map (fun (g, (p, b)) -> str_ids g ^ ":" ^ hex_of_z p ^ ":" ^ hex_of_z b) rows)
      ^ " |R " ^ (if reunify_ok_Z false cs then "1" else "0") ^ " " ^ (if reunify_ok_Z true cs then "1" else "0")
      ^ " |F " ^ String.concat "," (List.map (fun m -> string_of_int (int_of_nat m)) (max_followers_Z cs))
      ^ (let (u, c) = vocab_sizes_Z cs in Printf.sprintf " |U %d %d" (int_of_nat u) (int_of_nat c))
  | "B" :: bh :: vh :: [] ->
      let bytes_of h = if h = "-" then [] else List.init (String.length h / 2) (fun i -> n_of_hex (String.sub h (2 * i) 2)) in
      let hex_of l = if l = [] then "-" else String.concat "" (List.map (fun b -> let h = hex_of_n b in if String.length h = 1 then "0" ^ h else h) l) in
      let bounds = bytes_of bh and vals = bytes_of vh in
      let e = encode bounds vals in
      "L:" ^ hex_of_n (encoded_length bounds) ^ " E:" ^ hex_of e ^ " D:" ^ hex_of (decode bounds e)
  | "V" :: files :: [] ->
      let fs = List.map ids_of (String.split_on_char ';' files) in
      (match merge_vocab fs with
       | None -> "FUEL"
       | Some (g, maps) ->
           "G:" ^ str_ids g ^ "|M:" ^ String.concat ";" (List.map (fun m -> if m = [] then "-" else String.concat "," (List.map (fun i -> Printf.sprintf "%x" (int_of_nat i)) m)) maps))
  | _ -> "?"

let () = each_line handle
