(* C11 model driver: one case per line, one answer per line.
   I  s;s;...            sets of hex numbers separated by ',' ("-" = empty set)  -> F:<hex|->|A:<hex,..>
   A  mode ctx phrase vocabhex S l l S l ...   ARPA sections of hex lines ("-" = empty)  -> OK f f .. | NOTAB | FUEL
   R  mode ctx phrase vocabhex l l ...         raw lines                                  -> same
   W  ctx ngramhex       -> the words the filter looks at (hex, space separated)
   P  ctx vocabhex g g ...   phrase vocabulary + n-gram fields: the structure-faithful graph search (Substrings tables,
                             BuildGraph, Arc/Vertex::LowerBound) against the decision procedure derivable_b, union and multiple
                             -> same | DIFF <index> ... | FUEL <index> *)
open C11_model
(*INCLUDE zio*)

let n_of_int (i : int) : n = match z_of_int i with Z0 -> N0 | Zpos p -> Npos p | Zneg _ -> failwith "neg"
let rec int_of_pos (p : positive) : int = match p with XH -> 1 | XO q -> 2 * int_of_pos q | XI q -> 2 * int_of_pos q + 1
let int_of_n (x : n) : int = match x with N0 -> 0 | Npos p -> int_of_pos p

(* driver code is iterative (no recursion depth proportional to the length of a word / line / file) *)
let byte_table : n array = Array.init 256 n_of_int
let hexval c = match c with '0'..'9' -> Char.code c - 48 | 'a'..'f' -> Char.code c - 87 | 'A'..'F' -> Char.code c - 55 | _ -> failwith "hex"
let bytes_of_hex (s : string) : n list =
  if s = "-" then [] else begin
    let acc = ref [] in
    for i = String.length s / 2 - 1 downto 0 do
      acc := byte_table.(16 * hexval s.[2 * i] + hexval s.[2 * i + 1]) :: !acc
    done;
    !acc end
let hex_of_bytes (l : n list) : string =
  if l = [] then "-" else begin
    let b = Buffer.create 4096 in
    List.iter (fun x -> Buffer.add_string b (Printf.sprintf "%02x" (int_of_n x))) l;
    Buffer.contents b end

let mode_of = function "copy" -> MCopy | "single" -> MSingle | "union" -> MUnion | "multiple" -> MMultiple | _ -> failwith "mode"
let cfg m c p = { cmode = mode_of m; cctx = (c = "1"); cphrase = (p = "1") }

let show = function
  | FOk files -> let b = Buffer.create 4096 in Buffer.add_string b "OK";
                 List.iter (fun f -> Buffer.add_char b ' '; Buffer.add_string b (hex_of_bytes f)) files; Buffer.contents b
  | FNoTab -> "NOTAB"
  | FOutOfFuel -> "FUEL"

let rec sections toks cur acc =
  match toks with
  | [] -> List.rev (List.rev cur :: acc)
  | "S" :: r -> sections r [] (List.rev cur :: acc)
  | l :: r -> sections r (bytes_of_hex l :: cur) acc

let handle (line : string) : string =
  match split_ws line with
  | "I" :: sets :: [] ->
      let parse s = if s = "-" then [] else List.map (fun x -> nat_of_int (int_of_string ("0x" ^ x))) (String.split_on_char ',' s) in
      let sets = List.map parse (String.split_on_char ';' sets) in
      let f = match first_intersection sets with Ok (Some v) -> Printf.sprintf "%x" (int_of_nat v) | Ok None -> "-" | OutOfFuel -> "FUEL" in
      let a = match all_intersection sets with
        | Ok l -> if l = [] then "-" else String.concat "," (List.map (fun v -> Printf.sprintf "%x" (int_of_nat v)) l)
        | OutOfFuel -> "FUEL" in
      "F:" ^ f ^ "|A:" ^ a
  | "A" :: m :: c :: p :: vocab :: "S" :: rest ->
      show (filter_arpa (cfg m c p) (bytes_of_hex vocab) (sections rest [] []))
  | "A" :: m :: c :: p :: vocab :: [] ->
      show (filter_arpa (cfg m c p) (bytes_of_hex vocab) [])
  | "R" :: m :: c :: p :: vocab :: lines ->
      show (filter_raw (cfg m c p) (bytes_of_hex vocab) (List.map bytes_of_hex lines))
  | "P" :: c :: vocab :: grams ->
      let sents = read_phrases (bytes_of_hex vocab) in
      let show_l l = String.concat "," (List.map (fun v -> string_of_int (int_of_nat v)) l) in
      let rec go i = function
        | [] -> "same"
        | g :: rest ->
            let ws = filter_words (c = "1") (bytes_of_hex g) in
            (match graph_union_pass sents ws, graph_multiple_targets sents ws with
             | Ok u, Ok m ->
                 let u' = phrase_union_pass sents ws and m' = phrase_multiple_targets sents ws in
                 if u = u' && m = m' then go (i + 1) rest
                 else Printf.sprintf "DIFF %d graph:%b[%s] dp:%b[%s]" i u (show_l m) u' (show_l m')
             | _ -> Printf.sprintf "FUEL %d" i) in
      go 0 grams
  | "W" :: c :: g :: [] ->
      String.concat " " (List.map hex_of_bytes (filter_words (c = "1") (bytes_of_hex g)))
  | _ -> "?"

let () = each_line handle
