(* C14 model driver: runs the extracted tokenisers and scoring loops over a per-word scoring function that
   is a finite table recorded from the typed C++ interface (harness/drivers/c14_driver.cc).
   Score = IEEE float32 bit pattern, add = float32 addition (computed in double and rounded once: exact).
   line:  <sentence hex|-> <eos id> V <n> {<word hex> <id>}^n T <m> {<bos 0|1> <history ids , newest first|-> <id> <prob bits> <len>}^m
   out:   toks=.. ctoks=.. then for (bos,eos) in TT TF FT FF:  score=<bits> fs=<bits/len/oov,..> st=<bits> ; ppl=<bits>/<n> *)
open C14_model
(*INCLUDE zio*)

let n_of_int (i : int) : n = match z_of_int i with Z0 -> N0 | Zpos p -> Npos p | Zneg _ -> failwith "neg"
let rec int_of_pos (p : positive) : int = match p with XH -> 1 | XO q -> 2 * int_of_pos q | XI q -> 2 * int_of_pos q + 1
let int_of_n (x : n) : int = match x with N0 -> 0 | Npos p -> int_of_pos p
let bytes_of_hex (h : string) : n list =
  if h = "-" then [] else begin
    let tbl = Array.init 256 n_of_int in
    let hv c = match c with '0'..'9' -> Char.code c - 48 | 'a'..'f' -> Char.code c - 87 | 'A'..'F' -> Char.code c - 55 | _ -> failwith "hex" in
    List.init (String.length h / 2) (fun i -> tbl.(16 * hv h.[2 * i] + hv h.[2 * i + 1])) end
let hex_of_bytes (l : n list) : string =
  let b = Buffer.create 64 in
  List.iter (fun x -> let v = int_of_n x in Buffer.add_char b "0123456789abcdef".[v lsr 4]; Buffer.add_char b "0123456789abcdef".[v land 15]) l;
  Buffer.contents b
let f32_add (a : int32) (b : int32) : int32 = Int32.bits_of_float (Int32.float_of_bits a +. Int32.float_of_bits b)
let hex32 (x : int32) = Printf.sprintf "%lx" x
let toks_str (l : n list list) = if l = [] then "-" else String.concat "," (List.map hex_of_bytes l)

let handle (line : string) : string =
  let f = Array.of_list (split_ws line) in
  let sentence = bytes_of_hex f.(0) in
  let eos = n_of_int (int_of_string ("0x" ^ f.(1))) in
  if f.(2) <> "V" then failwith "format V";
  let nv = int_of_string f.(3) in
  let vocab = Hashtbl.create 64 in
  for i = 0 to nv - 1 do Hashtbl.replace vocab f.(4 + 2 * i) (int_of_string ("0x" ^ f.(5 + 2 * i))) done;
  let p = 4 + 2 * nv in
  if f.(p) <> "T" then failwith "format T";
  let nt = int_of_string f.(p + 1) in
  let table = Hashtbl.create 64 in
  for i = 0 to nt - 1 do
    let b = p + 2 + 5 * i in
    Hashtbl.replace table (f.(b), f.(b + 1), int_of_string ("0x" ^ f.(b + 2)))
      (Int32.of_string ("0x" ^ f.(b + 3)), int_of_string ("0x" ^ f.(b + 4)))
  done;
  let index (w : n list) : n = n_of_int (try Hashtbl.find vocab (let h = hex_of_bytes w in if h = "" then "-" else h) with Not_found -> 0) in
  (* State = (bos flag, history newest first) *)
  let full_score ((b, h) : string * int list) (w : n) =
    let wi = int_of_n w in
    let key = (b, (if h = [] then "-" else String.concat "," (List.map (Printf.sprintf "%x") h)), wi) in
    let (pr, len) = try Hashtbl.find table key with Not_found -> failwith ("no table entry for " ^ b ^ " " ^ (let (_, k, _) = key in k) ^ " " ^ string_of_int wi) in
    ((pr, nat_of_int len), (b, wi :: h)) in
  let begin_state = ("1", []) and null_state = ("0", []) in
  let zero = 0l in
  let out = Buffer.create 256 in
  Buffer.add_string out ("toks=" ^ toks_str (split_py sentence));
  Buffer.add_string out (" ctoks=" ^ (match split_kspaces (cstr sentence) with None -> "OUT-OF-FUEL" | Some l -> toks_str l));
  List.iter (fun (bos, e) ->
      let sc = score zero f32_add begin_state null_state index eos full_score sentence bos e in
      let fs = full_scores begin_state null_state index eos full_score sentence bos e in
      let st = stateful_total zero f32_add begin_state null_state index eos full_score (split_py sentence) bos e in
      Buffer.add_string out (Printf.sprintf " ; score=%s fs=%s st=%s"
        (match sc with None -> "OUT-OF-FUEL" | Some s -> hex32 s)
        (if fs = [] then "-" else String.concat "," (List.map (fun ((pr, len), oov) -> Printf.sprintf "%s/%d/%d" (hex32 pr) (int_of_nat len) (if oov then 1 else 0)) fs))
        (hex32 st)))
    [(true, true); (true, false); (false, true); (false, false)];
  let (ps, pn) = perplexity_args zero f32_add begin_state null_state index eos full_score sentence in
  Buffer.add_string out (Printf.sprintf " ; ppl=%s/%d" (match ps with None -> "OUT-OF-FUEL" | Some s -> hex32 s) (int_of_nat pn));
  Buffer.contents out

let () = each_line handle
