(* C20 model driver: same protocol as harness/drivers/c20_driver.cc, evaluated with the extracted model. *)
open C20_model
(*INCLUDE zio*)

let mem_of_bytestring (s : string) : z =
  (* s = bytes in address order, two hex digits each; memory Z is little endian *)
  let n = String.length s / 2 in
  let b = Buffer.create (2 * n) in
  for i = n - 1 downto 0 do Buffer.add_string b (String.sub s (2 * i) 2) done;
  z_of_hex (if n = 0 then "0" else Buffer.contents b)

let bytestring_of_mem (m : z) (n : int) : string =
  let h = hex_of_z m in
  let h = if String.length h > 2 * n then "OVERFLOW" ^ h else String.make (2 * n - String.length h) '0' ^ h in
  if String.length h <> 2 * n then h else begin
    let b = Buffer.create (2 * n) in
    for i = n - 1 downto 0 do Buffer.add_string b (String.sub h (2 * i) 2) done;
    Buffer.contents b end

let ones len = z_of_hex (if len = 0 then "0" else hex_of_z (Z.sub (Z.pow (z_of_int 2) (z_of_int len)) (z_of_int 1)))
let zero = Z0

let dump cells = " |" ^ String.concat "" (List.map (fun (k, v) -> " " ^ hex_of_z k ^ ":" ^ hex_of_z v) cells)

let parse_op op =
  match String.split_on_char ':' op with
  | [k; a] -> (k.[0], z_of_hex a, Z0)
  | [k; a; b] -> (k.[0], z_of_hex a, z_of_hex b)
  | _ -> failwith "op"

(* generic table op runner over closures *)
let run_ops ops (find : 'st -> z -> z option res) (ins : ('st -> (z * z) -> 'st res) option)
    (foi : 'st -> (z * z) -> (('st * bool) * z) res) (cells : 'st -> (z * z) list) (st0 : 'st) : string =
  let st = ref st0 in
  let out = ref [] in
  (try List.iter (fun op ->
       let (k, a, b) = parse_op op in
       match k with
       | 'i' -> (match ins with
                 | None -> failwith "no insert"
                 | Some f -> (match f !st (a, b) with
                              | Ok t -> st := t; out := "ok" :: !out
                              | Throw -> out := "throw" :: !out; raise Exit
                              | OutOfFuel -> out := "OUT-OF-FUEL" :: !out; raise Exit))
       | 'f' -> (match foi !st (a, b) with
                 | Ok ((t, found), v) -> st := t; out := (if found then "F:" ^ hex_of_z v else "I") :: !out
                 | Throw -> out := "throw" :: !out; raise Exit
                 | OutOfFuel -> out := "OUT-OF-FUEL" :: !out; raise Exit)
       | 'r' -> out := "r" :: !out      (* Relocate: the table's memory moves; the model's table is a value *)
       | 'q' | 'm' -> (match find !st a with
                 | Ok (Some v) -> out := hex_of_z v :: !out
                 | Ok None -> out := "-" :: !out
                 | _ -> out := "OUT-OF-FUEL" :: !out; raise Exit)
       | _ -> failwith "op kind") ops
   with Exit -> ());
  String.concat " " (List.rev !out) ^ dump (cells !st)

let handle (line : string) : string =
  match split_ws line with
  | ("W57" | "W25" as c) :: m :: off :: len :: v :: [] ->
      let n = String.length m / 2 in
      let mem = mem_of_bytestring m and off = z_of_hex off and len = z_of_hex len and v = z_of_hex v in
      let li = int_of_z len in
      if c = "W57" then begin
        let mem' = writeInt57 mem zero off len v in
        bytestring_of_mem mem' n ^ " " ^ hex_of_z (readInt57 mem' zero off len (ones li)) end
      else begin
        let mem' = writeInt25 mem zero off len v in
        bytestring_of_mem mem' n ^ " " ^ hex_of_z (readInt25 mem' zero off len (ones li)) end
  | ("F32" | "F31" as c) :: m :: off :: bits :: [] ->
      let n = String.length m / 2 in
      let mem = mem_of_bytestring m and off = z_of_hex off and bits = z_of_hex bits in
      if c = "F32" then begin
        let mem' = writeFloat32 mem zero off bits in
        bytestring_of_mem mem' n ^ " " ^ hex_of_z (readFloat32 mem' zero off) end
      else begin
        let mem' = writeNonPositiveFloat31 mem zero off bits in
        bytestring_of_mem mem' n ^ " " ^ hex_of_z (readNonPositiveFloat31 mem' zero off) end
  | "R57" :: m :: off :: len :: [] ->
      hex_of_z (readInt57 (mem_of_bytestring m) zero (z_of_hex off) (z_of_hex len) (ones (int_of_z (z_of_hex len))))
  | "R25" :: m :: off :: len :: [] ->
      hex_of_z (readInt25 (mem_of_bytestring m) zero (z_of_hex off) (z_of_hex len) (ones (int_of_z (z_of_hex len))))
  | "RB" :: x :: [] -> (match requiredBits (nat_of_int 65) (z_of_hex x) with Some r -> hex_of_z r | None -> "OUT-OF-FUEL")
  | "SS" :: x :: [] -> hex_of_z (setSign (z_of_hex x))
  | "US" :: x :: [] -> hex_of_z (unsetSign (z_of_hex x))
  | "P32" :: a :: b :: c :: [] -> hex_of_z (pivot32_Calc (z_of_hex a) (z_of_hex b) (z_of_hex c))
  | "RND" :: p :: a :: [] -> hex_of_z ((if p = "P" then power2Mod_RoundBuckets else divMod_RoundBuckets) (z_of_hex a))
  | "SZ" :: p :: a :: b :: [] ->
      (* Size(entries, multiplier) = sizeof(Entry) * RoundBuckets(max(entries + 1, (uint64) (multiplier * (float) entries)));
         by C20_probing_capacity_throws / C20_probing_refines_map a table with more buckets than entries accepts and returns them all *)
      let entries = int_of_z (z_of_hex a) in
      let mult = Int32.float_of_bits (Int32.of_string ("0x" ^ b)) in
      let single x = Int32.float_of_bits (Int32.bits_of_float x) in
      let prod = single (mult *. single (float_of_int entries)) in
      let want = max (entries + 1) (int_of_float prod) in
      let buckets = if p = "P" then int_of_z (power2Mod_RoundBuckets (z_of_int want)) else want in
      Printf.sprintf "%x %s" buckets (if buckets > entries then "ok" else "THROW")
  | "PT" :: p :: b :: ops ->
      let buckets = int_of_z (z_of_hex b) in
      let pol = if p = "P" then Power2Mod else DivMod in
      if p = "P" && (buckets = 0 || buckets land (buckets - 1) <> 0) then "ctor-throw" else begin
        let n = nat_of_int buckets in
        let ideal = ideal_of pol n and next = next_of pol n in
        run_ops ops (find n ideal next) (Some (insert n ideal next)) (find_or_insert n ideal next)
          (fun t -> t.cells) { cells = empty_cells n; entries = Z0 } end
  | "AP" :: _init :: b :: ops ->
      let buckets = int_of_z (z_of_hex b) in
      run_ops ops auto_find None auto_find_or_insert (fun a -> a.acells)
        { acells = empty_cells (nat_of_int buckets); aentries = Z0 }
  | ("SU" | "BS" | "S64" as c) :: key :: arr ->
      let a = Array.of_list (List.map z_of_hex arr) in
      let n = Array.length a in
      let get i = let k = int_of_z i in if k < 0 || k >= n then failwith "OUT-OF-BOUNDS-READ" else a.(k) in
      let fuel = nat_of_int (n + 2) in
      let key = z_of_hex key in
      let r = match c with
        | "SU" -> sorted_uniform_find get pivot32_Calc fuel Z0 (z_of_int n) key
        | "S64" -> sorted_uniform_find get (pivot64_Calc pivot32_Calc) fuel Z0 (z_of_int n) key
        | _ -> binary_find get fuel Z0 (z_of_int n) key in
      (match r with
       | None -> "OUT-OF-FUEL"
       | Some None -> "F"
       | Some (Some p) -> if c = "S64" then "T" else "T " ^ hex_of_z p)
  | "TA" :: mv :: qb :: recs ->
      (* BitPackedLongest = the record array of coq/C20/MiddleModel.v without a next field (m_nb = 0: C20_middle_array_refines_sorted_records
         covers it): Insert each (word, payload), then Find every word in [0, n); Size = BaseSize(entries, max_vocab, payload bits) *)
      let max_vocab = z_of_hex mv and quant = z_of_hex qb in
      let parsed = List.map (fun r -> match String.split_on_char ':' r with
          | [p; w] -> ((z_of_hex w, z_of_hex p), Z0) | _ -> failwith "rec") recs in
      let n = List.length parsed in
      let size = bitpacked_base_size (z_of_int n) max_vocab quant in
      let m = { m_base = Z0; m_wb = bits_needed max_vocab; m_qb = quant; m_nb = Z0; m_max_vocab = max_vocab } in
      let mem = mid_inserts m Z0 Z0 parsed in
      let fuel = nat_of_int (n + 3) in
      let vals = List.map (fun ((w, _), _) ->
          match mid_find m fuel mem w Z0 (z_of_int n) with
          | None -> "OUT-OF-FUEL"
          | Some None -> "lost:" ^ hex_of_z w
          | Some (Some (((_, pay), _), _)) -> hex_of_z pay) parsed in
      String.concat " " ((hex_of_z size ^ " guard-ok") :: vals)
  | "TM" :: "D" :: _bb :: mv :: qb :: recs ->
      (* BitPackedMiddle<DontBhiksha>: the extracted model (coq/C20/MiddleModel.v) over the generated bit-packing routines and the
         modelled BoundedSortedUniformFind -- Insert each record, FinishedLoading, then Find every word in the range [0, n) *)
      let max_vocab = z_of_hex mv and quant = z_of_hex qb in
      let parsed = List.map (fun r -> match String.split_on_char ':' r with
          | [w; p; c] -> (z_of_hex w, z_of_hex p, z_of_hex c) | _ -> failwith "rec") recs in
      let total = List.fold_left (fun acc (_, _, c) -> Z.add acc c) Z0 parsed in
      let m = { m_base = Z0; m_wb = bits_needed max_vocab; m_qb = quant; m_nb = bits_needed total; m_max_vocab = max_vocab } in
      let _, rs = List.fold_left (fun (start, acc) (w, p, c) -> (Z.add start c, ((w, p), start) :: acc)) (Z0, []) parsed in
      let rs = List.rev rs in
      let n = z_of_int (List.length rs) in
      let mem = mid_finish m (mid_inserts m Z0 Z0 rs) n total in
      let fuel = nat_of_int (List.length rs + 3) in
      let outs = List.map (fun ((w, _), _) ->
          match mid_find m fuel mem w Z0 n with
          | None -> "OUT-OF-FUEL"
          | Some None -> "lost"
          | Some (Some (((p, pay), cb), ce)) -> hex_of_z pay ^ ":" ^ hex_of_z p ^ ":" ^ hex_of_z cb ^ ":" ^ hex_of_z ce) rs in
      String.concat " " ("guard-ok" :: outs)
  | "TM" :: "A" :: bb :: mv :: qb :: recs ->
      (* BitPackedMiddle<ArrayBhiksha>: the extracted model (coq/C20/MiddleModel.v midA_*: generated bit-packing routines + the
         offset table of coq/C03/BhikshaModel.v, inline bits = InlineBits(entries + 1, max_next, config)) *)
      let max_vocab = z_of_hex mv and quant = z_of_hex qb and cfg = z_of_hex bb in
      let parsed = List.map (fun r -> match String.split_on_char ':' r with
          | [w; p; c] -> (z_of_hex w, z_of_hex p, z_of_hex c) | _ -> failwith "rec") recs in
      let total = List.fold_left (fun acc (_, _, c) -> Z.add acc c) Z0 parsed in
      let _, rs = List.fold_left (fun (start, acc) (w, p, c) -> (Z.add start c, ((w, p), start) :: acc)) (Z0, []) parsed in
      let rs = List.rev rs in
      let n = z_of_int (List.length rs) in
      let n1 = z_of_int (List.length rs + 1) in
      let m = { m_base = Z0; m_wb = bits_needed max_vocab; m_qb = quant; m_nb = inline_bits n1 total cfg; m_max_vocab = max_vocab } in
      let st = midA_finish m (midA_inserts m (Z0, []) Z0 rs) n total in
      let fuel = nat_of_int (List.length rs + 3) in
      let count = nat_of_int (List.length rs + 1) in
      let outs = List.map (fun ((w, _), _) ->
          match midA_find m fuel st w Z0 n with
          | None -> "OUT-OF-FUEL"
          | Some None -> "lost"
          | Some (Some (((p, pay), cb), ce)) -> hex_of_z pay ^ ":" ^ hex_of_z p ^ ":" ^ hex_of_z cb ^ ":" ^ hex_of_z ce) rs in
      (* ArrayBhiksha::FinishedLoading throws unless exactly ArrayCount offset slots were written *)
      let slots_ok = z_of_int (List.length (snd st)) = array_count n1 total cfg in
      String.concat " " ((if slots_ok then "guard-ok" else "OFFSET-SLOTS-MISMATCH") :: outs)
  | _ -> "?"

let () = each_line handle
