(* C05/C06 model driver.  One case per line:
     KN <which> <order> <interp 0|1> <prune t1,t2,..|-> <limit id,id,..|-|none> <fallback n/d,n/d,n/d|-> <corpus>
   which  = S (kn_spec) | I (kn_pipeline: repaired streaming AdjustCounts + bottom-up interpolation) | A (kn_impl) | B1 (final flush passes the actual count: F1) | B2 (</s> prunable: F12L)
   corpus = sentences separated by '|', word ids (hex) separated by ',' ; an empty sentence is the empty string; "." = no sentences.
   Answer: REFUSED <order>   or
           BUILT <counts ,> ; <discounts: n/d:n/d:n/d ,> ; <order 1 entries> ; <order 2 entries> ...
           entry = w.w.w=pn/pd=bn/bd   (words newest first as in the model; numbers hex)
   ADJ <which> <order> <prune> <limit> <corpus>   prints the adjusted-count streams and statistics only. *)
open C05_model
(*INCLUDE zio*)

let n_of_hex s = match z_of_hex s with Z0 -> N0 | Zpos p -> Npos p | Zneg _ -> failwith "negative"
let hex_of_n x = match x with N0 -> "0" | Npos p -> hex_of_pos p
let q_of_string s =
  match String.split_on_char '/' s with
  | [a; b] -> (match z_of_hex b with Zpos p -> { qnum = z_of_hex a; qden = p } | _ -> failwith "den")
  | _ -> failwith "q"
let string_of_q x = hex_of_z x.qnum ^ "/" ^ hex_of_pos x.qden
let split c s = if s = "" then [] else String.split_on_char c s

let parse_corpus s : n list list =
  if s = "." then [] else List.map (fun sent -> List.map n_of_hex (split ',' sent)) (String.split_on_char '|' s)
exception Reject
let parse_opts order prune limit interp fb =
  { o_prune = (match parse_pruning (if prune = "-" then [] else List.map n_of_hex (split ',' prune)) order with
               | Some l -> l | None -> raise Reject);
    o_limit = (if limit = "none" then None else Some (if limit = "-" then [] else List.map n_of_hex (split ',' limit)));
    o_interp_uni = (interp = "1");
    o_fallback = (if fb = "-" then None else
                    match List.map q_of_string (split ',' fb) with
                    | [a; b; c] -> Some ((a, b), c) | _ -> failwith "fallback") }
let gram_s g = String.concat "." (List.map hex_of_n g)
let show_result r =
  match r with
  | Refused k -> "REFUSED " ^ string_of_int (int_of_nat k)
  | Built m ->
      "BUILT " ^ String.concat "," (List.map hex_of_n m.m_counts) ^ " ; " ^
      String.concat "," (List.map (fun ((a, b), c) -> string_of_q a ^ ":" ^ string_of_q b ^ ":" ^ string_of_q c) m.m_discounts) ^
      String.concat "" (List.map (fun l -> " ; " ^ String.concat " " (List.map (fun a ->
          gram_s a.a_gram ^ "=" ^ string_of_q a.a_prob ^ "=" ^ string_of_q a.a_bo) l)) m.m_orders)
let flags w = match w with "I" | "A" -> (true, true) | "B1" -> (false, true) | "B2" -> (true, false) | "B12" -> (false, false) | _ -> failwith "which"
let show_entry e = gram_s e.e_gram ^ "=" ^ hex_of_n e.e_adj ^ "=" ^ (if e.e_marked then "1" else "0") ^ "=" ^ hex_of_n e.e_stat
let show_stat s = String.concat "," (List.map hex_of_n [s.s_n1; s.s_n2; s.s_n3; s.s_n4; s.s_count; s.s_count_pruned])

let handle (line : string) : string =
  try match split_ws line with
  | "KN" :: which :: order :: interp :: prune :: limit :: fb :: rest ->
      let c = parse_corpus (match rest with [] -> "" | x :: _ -> x) in
      let n = nat_of_int (int_of_string order) in
      let o = parse_opts n prune limit interp fb in
      if which = "S" then show_result (kn_spec c n o)
      else if which = "I" then
        (match kn_pipeline c n o with
         | Refused2 k -> show_result (Refused k)
         | NoSuffix2 g -> "NOSUFFIX " ^ gram_s g
         | Built2 m -> show_result (Built m))
      else let (fs, fe) = flags which in show_result (kn_impl_gen fs fe c n o)
  | "ADJ" :: which :: order :: prune :: limit :: rest ->
      let c = parse_corpus (match rest with [] -> "" | x :: _ -> x) in
      let n = nat_of_int (int_of_string order) in
      let o = parse_opts n prune limit "1" "-" in
      let (tab, stats) =
        if which = "S" then (let t = table n o (events c) in (t, List.map order_stat t))
        else let (fs, fe) = flags which in adjust fs fe n o (sorted_counts n (events c)) in
      String.concat " ; " (List.map (fun l -> String.concat " " (List.map show_entry l)) tab) ^ " # " ^
      String.concat " " (List.map show_stat stats)
  | "ADJF" :: order :: thr :: pruned :: vocab :: rest ->
      (* the component case of harness/drivers/c05_adjust_driver.cc: AdjustCounts on given sorted padded n-grams *)
      let n = nat_of_int (int_of_string ("0x" ^ order)) in
      let thr_l = List.map n_of_hex (split ',' thr) in
      let vocab_n = int_of_string ("0x" ^ vocab) in
      let limit = if pruned = "-" then None else
          (let pr = List.map n_of_hex (split ',' pruned) in
           let rec ids i = if i >= vocab_n then [] else (let x = n_of_hex (Printf.sprintf "%x" i) in if List.mem x pr then ids (i + 1) else x :: ids (i + 1)) in
           Some (ids 0)) in
      let o = { o_prune = (match parse_pruning thr_l n with Some l -> l | None -> raise Reject); o_limit = limit; o_interp_uni = true;
                o_fallback = Some ((q_of_string "1/2", q_of_string "1/1"), q_of_string "3/2") } in
      let fulls = List.map (fun item -> match String.split_on_char '=' item with
          | [g; c] -> (List.rev (List.map n_of_hex (split '.' g)), n_of_hex c) | _ -> failwith "full") rest in
      let (tab, stats) = adjust true true n o fulls in
      let show_nat e = String.concat "." (List.map hex_of_n (List.rev e.e_gram)) ^ "=" ^ hex_of_n e.e_adj ^ "=" ^ (if e.e_marked then "1" else "0") in
      let nn = int_of_nat n in
      let streams = List.mapi (fun i l -> let ls = List.map show_nat l in
                                String.concat " " (if i = nn - 1 && nn > 1 then List.sort compare ls else ls)) tab in
      String.concat " ; " streams ^ " #" ^ String.concat "" (List.map (fun s -> " " ^ hex_of_n s.s_count ^ "," ^ hex_of_n s.s_count_pruned) stats) ^
      " #" ^ (match all_discounts o.o_fallback (nat_of_int 1) stats with
              | Inl dl -> String.concat "" (List.map (fun ((a, b), c) -> " " ^ string_of_q a ^ ":" ^ string_of_q b ^ ":" ^ string_of_q c) dl)
              | Inr _ -> " REFUSED")
  | "PRUNE" :: order :: p :: [] ->
      (match parse_pruning (if p = "-" then [] else List.map n_of_hex (split ',' p)) (nat_of_int (int_of_string order)) with
       | None -> "REJECT" | Some l -> String.concat "," (List.map hex_of_n l))
  | _ -> "BAD-CASE"
  with Reject -> "REJECT-PRUNING"

let () = each_line handle
