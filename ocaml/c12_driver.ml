(* C12 model driver: same protocol as harness/drivers/c12_driver.cc.
   CTL <threads> <batch_size> <seed> <token>*   : repaired protocol (skip_empty = false, reset_last = true)
   CTLX <skip_empty 0|1> <reset_last 0|1> <threads> <batch_size> <seed> <token>*  : chosen variant
   The seed drives the choice of the next thread (reader or arrival of any in-flight batch) at every step. *)
open C12_model
(*INCLUDE zio*)

let parse_tok t =
  match t.[0] with
  | 'E' -> EndSection
  | 'F' -> FlushOnly
  | 'L' ->
    (match String.split_on_char ':' (String.sub t 1 (String.length t - 1)) with
     | [id; len; cs] ->
       let calls = if cs = "A" then [ToAll] else if cs = "-" then []
         else List.map (fun o -> ToOne (nat_of_int (int_of_string o))) (String.split_on_char '.' cs) in
       Line { lid = nat_of_int (int_of_string id); llen = nat_of_int (int_of_string len); lcalls = calls }
     | _ -> failwith "token")
  | _ -> failwith "token"

let show_events evs =
  String.concat "" (List.map (function
      | Mark -> " M"
      | Ev (ToAll, id) -> " A" ^ string_of_int (int_of_nat id)
      | Ev (ToOne o, id) -> " " ^ string_of_int (int_of_nat o) ^ ":" ^ string_of_int (int_of_nat id)) evs)

let go skip reset threads b seed toks =
  let toks = List.map parse_tok toks in
  let cfg = { nbatch = nat_of_int (2 * threads); bsize = nat_of_int b; skip_empty = skip; reset_last = reset } in
  let fuel = 20 * (List.length toks + 2 * threads) + 200 in
  let st = ref (seed land 0x3fffffff) in
  let picks = List.init fuel (fun _ -> st := (!st * 1103515245 + 12345) land 0x3fffffff; nat_of_int ((!st lsr 8) mod 7)) in
  match drive cfg (nat_of_int fuel) picks (init cfg toks) with
  | Finished s -> "ok" ^ show_events s.out
  | Deadlock s -> "deadlock" ^ show_events s.out
  | Crashed s -> "crash" ^ show_events s.out
  | OutOfFuel s -> "out-of-fuel"

let () = each_line (fun line ->
  match split_ws line with
  | ("CTL" | "CTLC") :: threads :: b :: seed :: toks ->   (* CTLC: the same filter behind lm::ContextFilter; same specification *) go false true (int_of_string threads) (int_of_string b) (int_of_string seed) toks
  | "CTLX" :: sk :: rs :: threads :: b :: seed :: toks -> go (sk = "1") (rs = "1") (int_of_string threads) (int_of_string b) (int_of_string seed) toks
  | "SEQ" :: toks -> "ok" ^ show_events (sequential (List.map parse_tok toks))
  | _ -> "unsupported-case")
