(* LM model driver.  Session protocol (one answer line per input line; "." for definition lines):
     MODEL <order> <saw_unk 0|1> <unk_prob> <probing buckets, comma separated, for orders 2..N>
     U <id> <prob> <bo> <pz 0|1>
     G <n> <ids newest first, comma separated> <prob> <bo>
     END                        -> "loaded P=<ok|err:..> T=<ok|err:..>"
     S <P|T> <bos 0|1> <ids oldest first...>   -> per word:  fs ; forgot ; getstate   (see fmt_* below)
     SPEC <bos 0|1> <ids...>    -> per word: bo_score and matched length straight from the ARPA (L0)
   Numbers: ids hex; scores signed hex in units of 1/64. *)
open C01_model
(*INCLUDE zio*)

let n_of_hex s = match z_of_hex s with Z0 -> N0 | Zpos p -> Npos p | Zneg _ -> failwith "negative id"
let hex_of_n = function N0 -> "0" | Npos p -> hex_of_pos p
let ids s = if s = "-" then [] else List.map n_of_hex (String.split_on_char ',' s)

let order = ref 2 and saw_unk = ref true and unk_prob = ref Z0 and buckets = ref []
let unigrams = ref [] and higher : (int * gram) list ref = ref []
let tp = ref (LoadError MissingUnigram) and tt = ref (LoadError MissingUnigram) and tr = ref (LoadError MissingUnigram)
let arpa_tbl : (n list * (z * z)) list ref = ref []
let bos_id = ref N0
let spellings : (int * z list) list ref = ref []

let err_name = function MissingContext -> "missing-context" | TableFull -> "table-full" | MissingUnigram -> "missing-unigram"
let loaded_str = function Loaded _ -> "ok" | LoadError e -> "err:" ^ err_name e

let fmt_state (s : state) =
  String.concat "," (List.map hex_of_n s.s_words) ^ "/" ^
  String.concat "," (List.map (fun (b, e) -> hex_of_z b ^ (if e then "+" else "-")) s.s_bo)
let fmt_ret (r : ret) = Printf.sprintf "%s %d %d" (hex_of_z r.r_prob) (int_of_nat r.r_len) (if r.r_indep then 1 else 0)

let rec key_eq a b = match a, b with
  | [], [] -> true | x :: r, y :: s -> x = y && key_eq r s | _ -> false
let arpa_lookup k = try Some (List.assoc k !arpa_tbl) with Not_found -> None

let handle (line : string) : string =
  match split_ws line with
  | "MODEL" :: o :: su :: up :: b :: [] ->
      order := int_of_string o; saw_unk := (su = "1"); unk_prob := z_of_hex up;
      buckets := List.map (fun x -> nat_of_int (int_of_string x)) (String.split_on_char ',' b);
      unigrams := []; higher := []; arpa_tbl := []; spellings := []; "."
  | "BOS" :: id :: [] -> bos_id := n_of_hex id; "."
  | "U" :: id :: p :: b :: pz :: [] ->
      let g = { g_key = [n_of_hex id]; g_prob = z_of_hex p; g_bo = z_of_hex b; g_pz = (pz = "1") } in
      unigrams := g :: !unigrams; arpa_tbl := (g.g_key, (g.g_prob, g.g_bo)) :: !arpa_tbl; "."
  | "G" :: n :: k :: p :: b :: [] ->
      let g = { g_key = ids k; g_prob = z_of_hex p; g_bo = z_of_hex b; g_pz = false } in
      higher := (int_of_string n, g) :: !higher; arpa_tbl := (g.g_key, (g.g_prob, g.g_bo)) :: !arpa_tbl; "."
  | "END" :: [] ->
      let us = List.rev !unigrams in
      let hs = List.rev !higher in
      let secs = List.init (!order - 1) (fun i -> List.map snd (List.filter (fun (n, _) -> n = i + 2) hs)) in
      tp := load_probing !buckets false !saw_unk !unk_prob us secs;
      tr := load_probing !buckets true !saw_unk !unk_prob us secs;
      tt := load_trie (nat_of_int !order) !saw_unk !unk_prob us secs;
      if not !saw_unk then arpa_tbl := ([N0], (!unk_prob, Z0)) :: !arpa_tbl;
      let inv = function Loaded t -> if tinv_check (nat_of_int !order) t !arpa_tbl then "1" else "0" | LoadError _ -> "-" in
      let flat = function Loaded t -> if flat_hyp_check t then "1" else "0" | LoadError _ -> "-" in
      "loaded P=" ^ loaded_str !tp ^ " T=" ^ loaded_str !tt ^ " invP=" ^ inv !tp ^ " invT=" ^ inv !tt ^ " flatP=" ^ flat !tp ^ " flatT=" ^ flat !tt ^ " invR=" ^ inv !tr ^ " extR=" ^ (match !tr with Loaded t -> if ext_ctx_check t then "1" else "0" | LoadError _ -> "-")
  | "S" :: kd :: bos :: ws ->
      let k = if kd = "P" || kd = "R" then Probing else Trie in
      (match (if kd = "P" then !tp else if kd = "R" then !tr else !tt) with
       | LoadError e -> "not-loaded"
       | Loaded t ->
           let tl = alookup t in
           let n = nat_of_int !order in
           let st0 = if bos = "1" then
               (match tl [!bos_id] with
                | Some e -> { s_words = [!bos_id]; s_bo = [(e.e_bo, e.e_ext)] }
                | None -> { s_words = [!bos_id]; s_bo = [(Z0, false)] })
             else null_state in
           let hist0 = if bos = "1" then [!bos_id] else [] in
           let rec go st hist ws acc = match ws with
             | [] -> List.rev acc
             | w :: rest ->
                 let w = n_of_hex w in
                 let (r, out) = full_score n tl st w in
                 let (rf, outf) = full_score_forgot n tl k hist w in
                 let gs = get_state n tl (w :: hist) in
                 let item = fmt_ret r ^ " " ^ fmt_state out ^ " ; " ^ fmt_ret rf ^ " " ^ fmt_state outf ^ " ; " ^ fmt_state gs in
                 go out (w :: hist) rest (item :: acc) in
           String.concat " | " (go st0 hist0 ws []))
  | "C" :: kd :: toks ->
      (* derivation tree: ( [B] [^] item* )   item = hex id | tree *)
      (match (if kd = "P" then !tp else if kd = "R" then !tr else !tt) with
       | LoadError _ -> "not-loaded"
       | Loaded t ->
           let tl = alookup t in
           let n = nat_of_int !order in
           let rec parse_tree toks = match toks with
             | "(" :: rest ->
                 let (bos, rest) = (match rest with "B" :: r -> (true, r) | r -> (false, r)) in
                 let (fast, rest) = (match rest with "^" :: r -> (true, r) | r -> (false, r)) in
                 let rec items toks acc = match toks with
                   | ")" :: r -> (List.rev acc, r)
                   | "(" :: _ -> let (t, r) = parse_tree toks in items r (Sub t :: acc)
                   | w :: r -> items r (Term (n_of_hex w) :: acc)
                   | [] -> failwith "unbalanced" in
                 let (its, r) = items rest [] in (Rule (bos, fast, its), r)
             | _ -> failwith "expected (" in
           let (tree, _) = parse_tree toks in
           let bos_st = (match tl [!bos_id] with
                | Some e -> { s_words = [!bos_id]; s_bo = [(e.e_bo, e.e_ext)] }
                | None -> { s_words = [!bos_id]; s_bo = [(Z0, false)] }) in
           let (c, p) = eval_tree n tl (kd = "R") bos_st tree in
           Printf.sprintf "%s %d %d %s" (hex_of_z p) (List.length c.c_left.l_ptrs) (if c.c_left.l_full then 1 else 0) (fmt_state c.c_right))
  | "P" :: kd :: rest ->
      (* partial.hh: P <kind> before.. ; between.. ; after..   (CheckAdjustment of lm/partial_test.cc) *)
      (match (if kd = "P" then !tp else if kd = "R" then !tr else !tt) with
       | LoadError _ -> "not-loaded"
       | Loaded t ->
           let tl = alookup t in
           let n = nat_of_int !order in
           let dr = (kd = "R") in
           let rec split3 acc cur = function
             | ";" :: r -> split3 (List.rev cur :: acc) [] r
             | x :: r -> split3 acc (n_of_hex x :: cur) r
             | [] -> List.rev (List.rev cur :: acc) in
           (match split3 [] [] rest with
            | [before; between; after] ->
                let frag ws = eval_tree n tl dr null_state (Rule (false, false, List.map (fun w -> Term w) ws)) in
                let (cfull, pfull) = frag (before @ between @ after) in
                let (cb, pb) = frag before and (cm, pm) = frag between and (ca, pa) = frag after in
                let left = ref cm.c_left and right = ref cm.c_right and got = ref Z0 in
                let bl = List.length cb.c_right.s_words and al = List.length ca.c_left.l_ptrs in
                let firstn k l = List.filteri (fun i _ -> i < k) l in
                for i = 1 to 5 do
                  if bl >= i then begin
                    let rv = { s_words = firstn i cb.c_right.s_words; s_bo = firstn i cb.c_right.s_bo } in
                    let ((a, l'), r') = reveal_before n tl dr rv (nat_of_int (i - 1)) false !left !right in
                    got := Z.add !got a; left := l'; right := r' end;
                  if al >= i then begin
                    let rv = { l_ptrs = firstn i ca.c_left.l_ptrs; l_full = false } in
                    let ((a, l'), r') = reveal_after n tl dr !left !right rv (nat_of_int (i - 1)) in
                    got := Z.add !got a; left := l'; right := r' end
                done;
                if ca.c_left.l_full then begin
                  let rv = { l_ptrs = firstn al ca.c_left.l_ptrs; l_full = true } in
                  let ((a, l'), r') = reveal_after n tl dr !left !right rv (nat_of_int al) in
                  got := Z.add !got a; left := l'; right := r' end;
                if cb.c_left.l_full then begin
                  let k = bl in
                  let rv = { s_words = firstn k cb.c_right.s_words; s_bo = firstn k cb.c_right.s_bo } in
                  let ((a, l'), r') = reveal_before n tl dr rv (nat_of_int k) true !left !right in
                  got := Z.add !got a; left := l'; right := r' end;
                Printf.sprintf "%s %s %s %s %s %d %d %s" (hex_of_z !got) (hex_of_z pfull) (hex_of_z pb) (hex_of_z pm) (hex_of_z pa)
                  (List.length !left.l_ptrs) (if !left.l_full then 1 else 0) (fmt_state !right)
            | _ -> "?"))
  | "PX" :: kd :: rest ->
      (* partial.hh with an explicit script of instalments:
         PX <kind> before.. ; between.. ; after.. ; script..      script tokens: b<c> / B<c> = RevealBefore with the first c words
         (upper case: reveal_full set), a<c> / A<c> = RevealAfter with the first c pointers (upper case: reveal.full set),
         bF / aF = the closing calls; `seen` is the previous cut of that side.  An empty script answers "I <before right length>
         <before left full> <after left length> <after left full>" so that the harness can write valid scripts. *)
      (match (if kd = "P" then !tp else if kd = "R" then !tr else !tt) with
       | LoadError _ -> "not-loaded"
       | Loaded t ->
           let tl = alookup t in
           let n = nat_of_int !order in
           let dr = (kd = "R") in
           let rec splitraw acc cur = function
             | ";" :: r -> splitraw (List.rev cur :: acc) [] r
             | x :: r -> splitraw acc (x :: cur) r
             | [] -> List.rev (List.rev cur :: acc) in
           (match splitraw [] [] rest with
            | [before; between; after; script] ->
                let before = List.map n_of_hex before and between = List.map n_of_hex between and after = List.map n_of_hex after in
                let frag ws = eval_tree n tl dr null_state (Rule (false, false, List.map (fun w -> Term w) ws)) in
                let (cfull, pfull) = frag (before @ between @ after) in
                let (cb, pb) = frag before and (cm, pm) = frag between and (ca, pa) = frag after in
                let bl = List.length cb.c_right.s_words and al = List.length ca.c_left.l_ptrs in
                if script = [] then
                  Printf.sprintf "I %d %d %d %d" bl (if cb.c_left.l_full then 1 else 0) al (if ca.c_left.l_full then 1 else 0)
                else begin
                  let left = ref cm.c_left and right = ref cm.c_right and got = ref Z0 in
                  let firstn k l = List.filteri (fun i _ -> i < k) l in
                  let sb = ref 0 and sa = ref 0 in
                  List.iter (fun tok ->
                      let k = tok.[0] and arg = String.sub tok 1 (String.length tok - 1) in
                      if arg = "F" then begin
                        if k = 'b' then begin
                          let rv = { s_words = firstn bl cb.c_right.s_words; s_bo = firstn bl cb.c_right.s_bo } in
                          let ((a, l'), r') = reveal_before n tl dr rv (nat_of_int bl) true !left !right in
                          got := Z.add !got a; left := l'; right := r' end
                        else begin
                          let rv = { l_ptrs = firstn al ca.c_left.l_ptrs; l_full = true } in
                          let ((a, l'), r') = reveal_after n tl dr !left !right rv (nat_of_int al) in
                          got := Z.add !got a; left := l'; right := r' end end
                      else begin
                        let c = int_of_string arg in
                        if k = 'b' || k = 'B' then begin
                          let rv = { s_words = firstn c cb.c_right.s_words; s_bo = firstn c cb.c_right.s_bo } in
                          let ((a, l'), r') = reveal_before n tl dr rv (nat_of_int !sb) (k = 'B') !left !right in
                          got := Z.add !got a; left := l'; right := r'; sb := c end
                        else begin
                          let rv = { l_ptrs = firstn c ca.c_left.l_ptrs; l_full = (k = 'A') } in
                          let ((a, l'), r') = reveal_after n tl dr !left !right rv (nat_of_int !sa) in
                          got := Z.add !got a; left := l'; right := r'; sa := c end end) script;
                  Printf.sprintf "%s %s %s %s %s %d %d %s" (hex_of_z !got) (hex_of_z pfull) (hex_of_z pb) (hex_of_z pm) (hex_of_z pa)
                    (List.length !left.l_ptrs) (if !left.l_full then 1 else 0) (fmt_state !right) end
            | _ -> "?"))
  | "SUB" :: kd :: rest ->
      (* Subsume: U <kind> first.. ; second..  -> adjust full first second, merged left length/full, merged right *)
      (match (if kd = "P" then !tp else if kd = "R" then !tr else !tt) with
       | LoadError _ -> "not-loaded"
       | Loaded t ->
           let tl = alookup t in
           let n = nat_of_int !order in
           let dr = (kd = "R") in
           let rec split2 cur = function
             | ";" :: r -> (List.rev cur, List.map n_of_hex r)
             | x :: r -> split2 (n_of_hex x :: cur) r
             | [] -> (List.rev cur, []) in
           let (a, b) = split2 [] rest in
           let frag ws = eval_tree n tl dr null_state (Rule (false, false, List.map (fun w -> Term w) ws)) in
           let (_, pfull) = frag (a @ b) in
           let (ca, pa) = frag a and (cb, pb) = frag b in
           let ((adj, l1), r2) = subsume n tl dr ca.c_left ca.c_right cb.c_left cb.c_right in
           Printf.sprintf "%s %s %s %s %d %d %s" (hex_of_z adj) (hex_of_z pfull) (hex_of_z pa) (hex_of_z pb)
             (List.length l1.l_ptrs) (if l1.l_full then 1 else 0) (fmt_state r2))
  | "K" :: rest ->
      (* State comparison: K w.. ; w..   -> eq sign(compare) lt *)
      let rec split acc = function ";" :: r -> (List.rev acc, r) | x :: r -> split (x :: acc) r | [] -> (List.rev acc, []) in
      let (a, b) = split [] rest in
      let mk l = { c_len = nat_of_int (List.length l); c_words = List.map z_of_hex l } in
      let sa = mk a and sb = mk b in
      let sign z = match z with Z0 -> "0" | Zpos _ -> "+" | Zneg _ -> "-" in
      Printf.sprintf "%d %s %d" (if st_eq sa sb then 1 else 0) (sign (st_compare sa sb)) (if st_lt sa sb then 1 else 0)
  | "L" :: l1 :: p1 :: f1 :: l2 :: p2 :: f2 :: [] ->
      let mk l p f = { l_len = nat_of_int (int_of_string l); l_last = z_of_hex p; l_full0 = (f = "1") } in
      let a = mk l1 p1 f1 and b = mk l2 p2 f2 in
      let sign z = match z with Z0 -> "0" | Zpos _ -> "+" | Zneg _ -> "-" in
      Printf.sprintf "%d %s %d" (if left_eq a b then 1 else 0) (sign (left_compare a b)) (if left_lt a b then 1 else 0)
  | "IMG" :: kd :: cfg :: [] ->
      (* the bytes of the search structure of a `trie` (kd = T) / `trie -a <cfg>` (kd = A) binary file, from the loaded trie table
         (coq/C03/TrieImage.v); preceded by the executable walk check over that memory *)
      (match !tt with
       | LoadError _ -> "not-loaded"
       | Loaded t ->
           let pz = List.filter_map (fun g -> if g.g_pz then Some g.g_key else None) !unigrams in
           let arr = (kd = "A") and c = z_of_hex cfg and n = nat_of_int !order in
           let ok = trie_walk_check arr c n t pz in
           let bytes = trie_image arr c n t pz in
           let buf = Buffer.create 4096 in
           List.iter (fun b -> Buffer.add_string buf (Printf.sprintf "%02x" (int_of_string ("0x" ^ hex_of_z b)))) bytes;
           (if ok then "walk=1 " else "walk=0 ") ^ Buffer.contents buf)
  | "PIMG" :: slots :: [] ->
      (* the bytes of the search structure of a `probing` binary file from the loaded probing table (coq/C03/ProbingImage.v) *)
      (match !tp with
       | LoadError _ -> "not-loaded"
       | Loaded t ->
           (match probing_image t (nat_of_int (int_of_string slots)) !buckets with
            | None -> "table-full"
            | Some bytes ->
                let buf = Buffer.create 4096 in
                List.iter (fun b -> Buffer.add_string buf (Printf.sprintf "%02x" (int_of_string ("0x" ^ hex_of_z b)))) bytes;
                "img " ^ Buffer.contents buf))
  | "W" :: id :: hx :: [] ->
      (* spelling (hex bytes) of the word with this (implementation) id *)
      let bytes = List.init (String.length hx / 2) (fun i -> z_of_hex (String.sub hx (2 * i) 2)) in
      spellings := (int_of_string ("0x" ^ id), bytes) :: !spellings; "."
  | "FIMG" :: kd :: rest ->
      (* the complete binary file (coq/C04/FileImage.v):  FIMG T|A <cfg> <pm bits> <include_vocab>   /   FIMG P <pm bits> <include_vocab> <vocab buckets> <arpa counts,>  *)
      let words = List.map snd (List.sort compare (List.filter (fun (i, _) -> i > 0) !spellings)) in
      let hexout bytes =
        let buf = Buffer.create 4096 in
        List.iter (fun b -> Buffer.add_string buf (Printf.sprintf "%02x" (int_of_string ("0x" ^ hex_of_z b)))) bytes;
        "file " ^ Buffer.contents buf in
      let pz = List.filter_map (fun g -> if g.g_pz then Some g.g_key else None) !unigrams in
      (match kd, rest with
       | ("T" | "A"), [cfg; pm; iv] ->
           (match !tt with
            | LoadError _ -> "not-loaded"
            | Loaded t -> hexout (trie_file (kd = "A") (z_of_hex cfg) (z_of_hex pm) (nat_of_int !order) t pz words (iv = "1")))
       | "R", [pm; iv; vb; cs] ->
           (match !tr with
            | LoadError _ -> "not-loaded"
            | Loaded t ->
                let counts = List.map (fun x -> z_of_int (int_of_string x)) (String.split_on_char ',' cs) in
                let unset = if !saw_unk then [] else (match !unigrams with g :: _ -> [g.g_key] | [] -> []) in
                (match rest_file (z_of_hex pm) (nat_of_int !order) t counts (nat_of_int (int_of_string vb)) !buckets unset words (iv = "1") with
                 | None -> "table-full"
                 | Some b -> hexout b))
       | "P", [pm; iv; vb; cs] ->
           (match !tp with
            | LoadError _ -> "not-loaded"
            | Loaded t ->
                let counts = List.map (fun x -> z_of_int (int_of_string x)) (String.split_on_char ',' cs) in
                (match probing_file (z_of_hex pm) (nat_of_int !order) t counts (nat_of_int (int_of_string vb)) !buckets words (iv = "1") with
                 | None -> "table-full"
                 | Some b -> hexout b))
       | _ -> "?")
  | "VIDS" :: kd :: vb :: rest ->
      (* the vocabulary lookups (coq/C04/VocabModel.v):  VIDS S|P <vocab buckets> <spellings handed to Insert, hex> ; <spellings looked up, hex>
         (a spelling is hex bytes, "-" for the empty one)  ->  "ids <id ...>" | "table-full" | "fuel" *)
      let spell hx = if hx = "-" then [] else List.init (String.length hx / 2) (fun i -> z_of_hex (String.sub hx (2 * i) 2)) in
      let rec split acc = function [] -> (List.rev acc, []) | ";" :: r -> (List.rev acc, r) | x :: r -> split (x :: acc) r in
      let (ws, qs) = split [] rest in
      let ws = List.map spell ws and qs = List.map spell qs in
      let out l = if List.exists (fun x -> x = None) l then "fuel"
                  else "ids " ^ String.concat " " (List.map (function Some z -> hex_of_z z | None -> "?") l) in
      (match kd with
       | "S" -> out (sorted_vocab_ids mid_pivot ws qs)
       | "P" -> (match probing_vocab_ids (nat_of_int (int_of_string vb)) ws qs with None -> "table-full" | Some l -> out l)
       | _ -> "?")
  | "TSZ" :: a :: b :: c :: [] ->
      (* the Size() functions of coq/C04/TrieSize.v:  TSZ <array 0|1> <pointer_bhiksha_bits> <counts,>  ->  "<SortedVocabulary::Size> <TrieSearch::Size>" *)
      let counts = List.map (fun x -> z_of_hex (Printf.sprintf "%x" (int_of_string x))) (String.split_on_char ',' c) in
      let dec z = string_of_int (int_of_string ("0x" ^ hex_of_z z)) in
      dec (sorted_vocab_size (List.hd counts)) ^ " " ^ dec (trie_size (a = "1") (z_of_int (int_of_string b)) counts)
  | "DUMP" :: kd :: k :: [] ->
      (match (if kd = "P" then !tp else if kd = "R" then !tr else !tt) with
       | LoadError _ -> "not-loaded"
       | Loaded t -> (match alookup t (ids k) with
                      | None -> "none"
                      | Some e -> Printf.sprintf "prob=%s bo=%s ext=%b left=%b rest=%s" (hex_of_z e.e_prob) (hex_of_z e.e_bo) e.e_ext e.e_left (hex_of_z e.e_rest)))
  | "SPEC" :: bos :: ws ->
      let n = nat_of_int !order in
      let hist0 = if bos = "1" then [!bos_id] else [] in
      let rec go hist ws acc = match ws with
        | [] -> List.rev acc
        | w :: rest ->
            let w = n_of_hex w in
            let p = bo_score n arpa_lookup hist w and l = bo_length n arpa_lookup hist w in
            go (w :: hist) rest ((hex_of_z p ^ " " ^ string_of_int (int_of_nat l)) :: acc) in
      String.concat " | " (go hist0 ws [])
  | _ -> "?"

let () = each_line handle
