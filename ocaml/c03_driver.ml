(* C03 model driver: BH <configured bits> <v0> <v1> ...  (hex, non-decreasing) -> "<inline bits> <array count> b0:e0 b1:e1 ..." *)
open C03_model
(*INCLUDE zio*)
let handle line =
  match split_ws line with
  | "BH" :: cfg :: vals ->
      let vs = List.map z_of_hex vals in
      let n = List.length vs in
      let max_next = List.nth vs (n - 1) in
      let b = inline_bits (z_of_int n) max_next (z_of_hex cfg) in
      let st = bhiksha_write b vs in
      let outs = List.init (n - 1) (fun i -> let (x, y) = read_next b st (z_of_int i) in hex_of_z x ^ ":" ^ hex_of_z y) in
      String.concat " " (hex_of_z b :: hex_of_z (array_count (z_of_int n) max_next (z_of_hex cfg)) :: outs)
  | "QZ" :: pb :: bb :: rest ->
      (* values in units of 1/64 (signed decimal); output: tables and read-back values as exact rationals num/den, or -inf *)
      let p64 = (match z_of_int 64 with Zpos p -> p | _ -> XH) in
      let q_of s = { qnum = z_of_int (int_of_string s); qden = p64 } in
      let parts = ref [[]; []; []] and cur = ref (-1) in
      List.iter (fun x -> if x = ";" then incr cur else
                   parts := List.mapi (fun i l -> if i = !cur then x :: l else l) !parts) rest;
      let get i = List.rev (List.nth !parts i) in
      let probs = List.map q_of (get 0) and backoffs = List.map q_of (get 1) in
      let pbits = nat_of_int (int_of_string pb) and bbits = nat_of_int (int_of_string bb) in
      let tp = train_prob pbits probs and tb = train_backoff bbits backoffs in
      let show = function None -> "-inf" | Some q -> hex_of_z q.qnum ^ "/" ^ hex_of_pos q.qden in
      let tests = List.map (fun t -> match String.split_on_char ':' t with
          | [p; b] ->
              let pc = encode_prob tp (q_of p) in
              let bq = q_of b in
              let bshow = if bq.qnum = Z0 then "0/1" else show (decode tb (stored bbits (encode_backoff_nonzero tb bq))) in
              show (decode tp pc) ^ ":" ^ bshow
          | _ -> "?") (get 2) in
      String.concat " " (["P"] @ List.map show tp @ ["B"] @ List.map show tb @ ["R"] @ tests)
  | "QE" :: bb :: rest ->
      (* encode/decode against GIVEN tables (the implementation's float centres as exact rationals num/den hex, or -inf):
         QE <backoff bits> ; <prob centres> ; <back-off centres incl. the two reserved> ; <p:b pairs in 1/64> *)
      let p64 = (match z_of_int 64 with Zpos p -> p | _ -> XH) in
      let q_of s = { qnum = z_of_int (int_of_string s); qden = p64 } in
      let centre s = if s = "-inf" then None else
          (match String.split_on_char '/' s with
           | [a; b] -> Some { qnum = z_of_hex a; qden = (match z_of_hex b with Zpos p -> p | _ -> XH) }
           | _ -> failwith "centre") in
      let parts = ref [[]; []; []] and cur = ref (-1) in
      List.iter (fun x -> if x = ";" then incr cur else
                   parts := List.mapi (fun i l -> if i = !cur then x :: l else l) !parts) rest;
      let get i = List.rev (List.nth !parts i) in
      let tp = List.map centre (get 0) and tb = List.map centre (get 1) in
      let bbits = nat_of_int (int_of_string bb) in
      let show = function None -> "-inf" | Some q -> hex_of_z q.qnum ^ "/" ^ hex_of_pos q.qden in
      let tests = List.map (fun t -> match String.split_on_char ':' t with
          | [p; b] ->
              let pc = encode_prob tp (q_of p) in
              let bq = q_of b in
              let bc = if bq.qnum = Z0 then O else stored bbits (encode_backoff_nonzero tb bq) in
              Printf.sprintf "%d=%s:%d=%s" (int_of_nat pc) (show (decode tp pc)) (int_of_nat bc) (if bq.qnum = Z0 then "0/1" else show (decode tb bc))
          | _ -> "?") (get 2) in
      String.concat " " ("R" :: tests)
  | _ -> "?"
let () = each_line handle
