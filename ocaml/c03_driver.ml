(* C03 model driver: BH <configured bits> <v0> <v1> ...  (hex, non-decreasing) -> "<inline bits> <array count> b0:e0 b1:e1 ..." *)
open C03_model
(*INCLUDE zio*)
let handle line =
  match split_ws line with
  | "BH" :: cfg :: vals ->
      let vs = List.map z_of_hex vals in
      let n = List.length vs in
      let max_next = List.nth vs (n - 1) in
      let b = inline_bits (z_of_int n) max_next (z_of_hex cfg) in
      let st = bhiksha_write b vs in
      let outs = List.init (n - 1) (fun i -> let (x, y) = read_next b st (z_of_int i) in hex_of_z x ^ ":" ^ hex_of_z y) in
      String.concat " " (hex_of_z b :: hex_of_z (array_count (z_of_int n) max_next (z_of_hex cfg)) :: outs)
  | _ -> "?"
let () = each_line handle
