(* C17 model driver: replays an explicit schedule in the extracted PCQueue model.
   Same protocol as harness/drivers/c17_driver.cc for `PCQ k items counts s:<schedule>` cases. *)
open C17_model
(*INCLUDE zio*)

let ints s = if s = "-" || s = "" then [] else List.map int_of_string (String.split_on_char ',' s)
let tid_of s = let n = int_of_string (String.sub s 1 (String.length s - 1)) in
  if s.[0] = 'p' then P (nat_of_int n) else C (nat_of_int n)
let name = function P i -> "p" ^ string_of_int (int_of_nat i) | C j -> "c" ^ string_of_int (int_of_nat j)

let () = each_line (fun line ->
  match split_ws line with
  | ["PCQ"; k; items; counts; pol] when String.length pol >= 2 && String.sub pol 0 2 = "s:" ->
    let items = if items = "-" then [] else List.map (fun s -> List.map nat_of_int (ints s)) (String.split_on_char ';' items) in
    let counts = List.map nat_of_int (ints counts) in
    let sched_s = String.sub pol 2 (String.length pol - 2) in
    let sched = if sched_s = "" then [] else List.map tid_of (String.split_on_char ',' sched_s) in
    let s0 = init_st (nat_of_int (int_of_string k)) items counts in
    let ((ens, s), bad) = replay sched s0 [] in
    let nsets = List.length ens in
    let status, shown = match bad with
      | None -> "ok", nsets
      | Some t -> Printf.sprintf "notenabled@%d:%s" (nsets - 1) (name t), nsets - 1 in
    let rec take n l = if n = 0 then [] else match l with [] -> [] | h :: r -> h :: take (n - 1) r in
    let got = List.mapi (fun j _ ->
        let l = returned_by (nat_of_int j) s in
        if l = [] then "-" else String.concat "," (List.map (fun v -> string_of_int (int_of_nat v)) l)) counts in
    let fin = (bad = None) && finished s in
    Printf.sprintf "%s sched=%s en=%s got=%s fin=%d next=%s" status
      (String.concat "," (List.map name (take shown sched)))
      (String.concat "|" (List.map (fun e -> String.concat "" (List.map name e)) ens))
      (String.concat ";" got) (if fin then 1 else 0) (String.concat "" (List.map name (enabled s)))
  | _ -> "unsupported-case")
