(* C17 model driver: replays an explicit schedule in the extracted PCQueue model.
   Same protocol as harness/drivers/c17_driver.cc for `PCQ k items counts s:<schedule>` cases. *)
open C17_model
(*INCLUDE zio*)

let ints s = if s = "-" || s = "" then [] else List.map int_of_string (String.split_on_char ',' s)
let tid_of s = let n = int_of_string (String.sub s 1 (String.length s - 1)) in
  if s.[0] = 'p' then P (nat_of_int n) else C (nat_of_int n)
let name = function P i -> "p" ^ string_of_int (int_of_nat i) | C j -> "c" ^ string_of_int (int_of_nat j)

let () = each_line (fun line ->
  match split_ws line with
  | ["PCQ"; k; items; counts; pol] when String.length pol >= 2 && String.sub pol 0 2 = "s:" ->
    let items = if items = "-" then [] else List.map (fun s -> List.map nat_of_int (ints s)) (String.split_on_char ';' items) in
    let counts = List.map nat_of_int (ints counts) in
    let sched_s = String.sub pol 2 (String.length pol - 2) in
    let sched = if sched_s = "" then [] else List.map tid_of (String.split_on_char ',' sched_s) in
    let s0 = init_st (nat_of_int (int_of_string k)) items counts in
    let ((ens, s), bad) = replay sched s0 [] in
    let nsets = List.length ens in
    let status, shown = match bad with
      | None -> "ok", nsets
      | Some t -> Printf.sprintf "notenabled@%d:%s" (nsets - 1) (name t), nsets - 1 in
    let rec take n l = if n = 0 then [] else match l with [] -> [] | h :: r -> h :: take (n - 1) r in
    let got = List.mapi (fun j _ ->
        let l = returned_by (nat_of_int j) s in
        if l = [] then "-" else String.concat "," (List.map (fun v -> string_of_int (int_of_nat v)) l)) counts in
    let fin = (bad = None) && finished s in
    Printf.sprintf "%s sched=%s en=%s got=%s fin=%d next=%s" status
      (String.concat "," (List.map name (take shown sched)))
      (String.concat "|" (List.map (fun e -> String.concat "" (List.map name e)) ens))
      (String.concat ";" got) (if fin then 1 else 0) (String.concat "" (List.map name (enabled s)))
  | ("CHAIN" | "CHAINS" | "CHAINF" | "CHAINFS" | "CHAINIO") as ckind0 :: blocks :: per :: stages :: n :: seed :: io ->
    let fill_first = ckind0 = "CHAINF" || ckind0 = "CHAINFS" in
    let ckind = if ckind0 = "CHAINFS" then "CHAINS" else if ckind0 = "CHAINF" then "CHAIN" else ckind0 in
    (* CHAINIO: the file workers of util/stream/io.hh; Read / PRead fill blocks like the Link source, a Stream source may leave an
       empty block before the poison; Write / PWrite / WriteAndRecycle deliver the concatenated payloads; WriteAndRecycle is the
       last worker itself (it also recycles) *)
    let src_kind, sink_kind = match io with [a; b] -> a, b | _ -> (if ckind = "CHAINS" then "stream", "stream" else "link", "link") in
    (* the chain model under a seed-driven schedule: source + stage workers + sink + recycler *)
    let b = int_of_string blocks and per = int_of_string per and n = int_of_string n in
    let rec blocks_of i acc cur k = if i > n then List.rev (if cur = [] then acc else List.rev cur :: acc)
      else if k = per then blocks_of i (List.rev cur :: acc) [] 0 else blocks_of (i + 1) acc (nat_of_int i :: cur) (k + 1) in
    let payloads = blocks_of 1 [] [] 0 in
    let stage s =
      let body = String.sub s 1 (String.length s - 1) in
      let k, k2 = match String.split_on_char '-' body with
        | [a; b] -> int_of_string a, int_of_string b
        | [a] when a <> "" -> int_of_string a, 0
        | _ -> 0, 0 in
      match s.[0] with
      | 'a' | 's' -> List.map (fun x -> nat_of_int (int_of_nat x + k))      (* 's' = the same function, done record by record through a Stream *)
      | 'f' -> List.filter (fun x -> int_of_nat x mod k <> 0)
      | 'd' -> List.filter (fun x -> let v = int_of_nat x in v < k || v >= k2)
      | _ -> (fun p -> p) in
    (* a Stream-based source ends with Stream::Poison: when the last block is exactly full it leaves one more, empty, block *)
    let payloads = if src_kind = "stream" && n mod per = 0 then payloads @ [[]] else payloads in
    let fs = (if stages = "-" then [] else List.map stage (String.split_on_char ',' stages)) @
             (if sink_kind = "war" then [(fun p -> p)] else [(fun p -> p); (fun p -> p)]) in
    let nw = List.length fs in
    let st = ref (int_of_string seed land 0x3fffffff) in
    let rnd k = st := (!st * 1103515245 + 12345) land 0x3fffffff; (!st lsr 8) mod k in
    let c = ref (chain_init (nat_of_int b) payloads fs) in
    (* fill, then drain: only the source runs until it has finished or cannot step *)
    let src_state = if not fill_first then "-" else begin
        let go = ref true in
        while !go do (match chain_step (nat_of_int b) !c TSrc with Some c' -> c := c' | None -> go := false) done;
        if !c.sphs = SDone then "done" else "parked" end in
    let status = ref "" in
    let fuel = ref (100000 + 40 * (n + 2) * (nw + 2)) in
    while !status = "" do
      if !c.mainp = MDone then status := "ok"
      else begin
        let cands = TSrc :: TMain :: List.init nw (fun i -> TW (nat_of_int i)) in
        let en = List.filter_map (fun t -> match chain_step (nat_of_int b) !c t with Some c' -> Some c' | None -> None) cands in
        if en = [] then status := (if !c.mainp = MAbort then "abort" else "deadlock")
        else if !fuel = 0 then status := "out-of-fuel"
        else begin decr fuel; c := List.nth en (rnd (List.length en)) end
      end
    done;
    (* the sink reads block by block (CHAIN) or record by record through the Stream model (CHAINS) *)
    let out = List.map int_of_nat (if sink_kind = "stream" then stream_records (sink_seen !c) else List.concat (sink_seen !c)) in
    let h = ref 0x14650FB0739D0383L in   (* same multiplicative hash as the C++ driver, 64 bit *)
    List.iter (fun v -> h := Int64.mul (Int64.logxor !h (Int64.of_int v)) 0x100000001b3L) out;
    let rec take k l = if k = 0 then [] else match l with [] -> [] | x :: r -> x :: take (k - 1) r in
    Printf.sprintf "%s count=%d hash=%Lx head=%s src=%s caps=%s" !status (List.length out) !h
      (if out = [] then "-" else String.concat "," (List.map string_of_int (take 8 out))) src_state
      (String.concat "," (List.init (nw + 1) (fun _ -> string_of_int b)))    (* every queue of the model has capacity block_count *)
  | ["POOL"; workers; queue; n; seed] ->
    let w = int_of_string workers and cap = int_of_string queue and n = int_of_string n in
    let st = ref (int_of_string seed land 0x3fffffff) in
    let rnd k = st := (!st * 1103515245 + 12345) land 0x3fffffff; (!st lsr 8) mod k in
    let s = ref (pool_init (List.init n nat_of_int) (nat_of_int w)) in
    let status = ref "" in
    while !status = "" do
      if pool_finished !s then status := "ok"
      else begin
        let cands = Main :: List.init w (fun j -> Wk (nat_of_int j)) in
        let en = List.filter_map (fun t -> pool_step (nat_of_int cap) !s t) cands in
        if en = [] then status := "deadlock" else s := List.nth en (rnd (List.length en))
      end
    done;
    let h = List.sort compare (List.map (fun (_, r) -> int_of_nat r) !s.handled) in
    let dup = ref 0 and miss = ref 0 in
    for i = 0 to n - 1 do
      let c = List.length (List.filter (fun x -> x = i) h) in
      if c = 0 then incr miss else dup := !dup + c - 1
    done;
    Printf.sprintf "%s handled=%d dup=%d miss=%d stray=%d" !status (List.length h) !dup !miss
      (List.length (List.filter (fun x -> x < 0 || x >= n) h))
  | "SIG" :: k :: script ->
    (* one thread per c / p<v> action; after every action the started threads run until none can step; i<n> interrupts thread n *)
    let acts = List.map (fun s -> (s.[0], if String.length s > 1 then int_of_string (String.sub s 1 (String.length s - 1)) else 0)) script in
    let prod_vals = List.filter_map (fun (a, v) -> if a = 'p' then Some [nat_of_int v] else None) acts in
    let ncons = List.length (List.filter (fun (a, _) -> a = 'c') acts) in
    let s = ref (init_st (nat_of_int (int_of_string k)) prod_vals (List.init ncons (fun _ -> nat_of_int 1))) in
    let started = ref [] and np = ref 0 and nc = ref 0 in
    let fuel = nat_of_int (12 * (List.length acts + 2)) in
    let out = Buffer.create 64 in
    List.iteri (fun a (act, v) ->
        (match act with
         | 'c' -> started := !started @ [C (nat_of_int !nc)]; incr nc
         | 'p' -> started := !started @ [P (nat_of_int !np)]; incr np
         | _ -> if v < List.length !started then (match interrupt !s (List.nth !started v) with Some s' -> s := s' | None -> failwith "interrupt"));
        (match quiesce fuel !started !s with Some s' -> s := s' | None -> failwith "out-of-fuel");
        let fin t = match t with
          | P i -> (match List.nth !s.prods (int_of_nat i) with (pc, todo) -> pc = O && todo = [])
          | C j -> (match List.nth !s.cons (int_of_nat j) with (pc, n) -> pc = O && n = O) in
        let fp = List.length (List.filter (fun t -> match t with P _ -> fin t | _ -> false) !started)
        and fc = List.length (List.filter (fun t -> match t with C _ -> fin t | _ -> false) !started) in
        let vals = List.sort compare (List.concat (List.map (fun t -> match t with C j -> List.map int_of_nat (returned_by j !s) | _ -> []) !started)) in
        Buffer.add_string out (Printf.sprintf "%sP%dC%d:%s" (if a = 0 then "" else "|") fp fc (String.concat "," (List.map string_of_int vals)))) acts;
    "ok " ^ Buffer.contents out
  | "LIFE" :: es :: bc :: total :: seed :: ops ->
    (* configuration (chain_block_size) and life cycle (life_step) of a Chain; every round with a sink is one run of the chain
       model from chain_init to MDone under a seed-driven schedule *)
    let es = int_of_string es and bc = int_of_string bc and total = int_of_string total in
    (match chain_block_size (nat_of_int es) (nat_of_int bc) (nat_of_int total) with
     | None -> "config-exception"
     | Some bsn ->
       let bs = int_of_nat bsn in
       if bs = 0 then "bs=0" else begin
         let per = bs / es in
         let st = ref (int_of_string seed land 0x3fffffff) in
         let rnd k = st := (!st * 1103515245 + 12345) land 0x3fffffff; (!st lsr 8) mod k in
         let l = ref life_init and reported = ref 0 and round = ref 0 in
         let rounds = ref [] in          (* (round number, entries, hash) of the rounds that have a sink *)
         let out = Buffer.create 128 in
         Buffer.add_string out (Printf.sprintf "bs=%d" bs);
         let step o = l := life_step (nat_of_int bc) !l o in
         let run_round n r =
           let rec blocks_of i acc cur k = if i >= n then List.rev (if cur = [] then acc else List.rev cur :: acc)
             else if k = per then blocks_of i (List.rev cur :: acc) [] 0 else blocks_of (i + 1) acc (nat_of_int i :: cur) (k + 1) in
           let c = ref (chain_init (nat_of_int bc) (blocks_of 0 [] [] 0) [(fun p -> p); (fun p -> p)]) in
           let fuel = ref (100000 + 200 * (n + 2)) in
           while !c.mainp <> MDone && !fuel > 0 do
             decr fuel;
             let en = List.filter_map (fun t -> chain_step (nat_of_int bc) !c t) [TSrc; TMain; TW O; TW (S O)] in
             if en = [] then fuel := 0 else c := List.nth en (rnd (List.length en))
           done;
           let idx = List.map int_of_nat (List.concat (sink_seen !c)) in
           let h = ref 0x14650FB0739D0383L in
           List.iter (fun i -> for j = 0 to es - 1 do
                         h := Int64.mul (Int64.logxor !h (Int64.of_int ((i * 31 + j * 7 + r * 13 + 1) land 0xff))) 0x100000001b3L done) idx;
           (if !c.mainp = MDone then List.length idx else -1), !h in
         List.iter (fun op ->
             let n = if String.length op > 1 then int_of_string (String.sub op 1 (String.length op - 1)) else 0 in
             match op.[0] with
             | 'T' | 'U' ->
               step LAddWorker; step LAddWorker; if op.[0] = 'T' then step LRecycle;
               let cnt, h = run_round n !round in
               rounds := !rounds @ [(!round, cnt, h)]; incr round
             | 'M' -> step LAddOutside; incr round
             | k ->
               step (if k = 'S' then LStart else LWait);
               let made = !l.lmade in
               let rec drop k l = if k = 0 then l else match l with [] -> [] | _ :: r -> drop (k - 1) r in
               let fresh = drop !reported made in
               reported := List.length made;
               Buffer.add_string out (Printf.sprintf " %c:run=%d:made=%s:%s" k (if lrunning !l then 1 else 0)
                                        (String.concat "." (List.map (fun x -> string_of_int (int_of_nat x)) fresh))
                                        (String.concat ";" (List.map (fun (r, c, h) -> Printf.sprintf "r%d=%d.%Lx" r c h) !rounds)))) ops;
         Buffer.contents out end)
  | ["POOLF"; workers; queue; n; fail_at; seed] ->
    (* handlers that throw: the model with the failure oracle; the run ends aborted or finished, never with a dropped request *)
    let w = int_of_string workers and cap = int_of_string queue and n = int_of_string n and fa = int_of_string fail_at in
    let st = ref (int_of_string seed land 0x3fffffff) in
    let rnd k = st := (!st * 1103515245 + 12345) land 0x3fffffff; (!st lsr 8) mod k in
    let fails r = int_of_nat r = fa in
    let s = ref (pool_init (List.init n nat_of_int) (nat_of_int w), false) in
    let status = ref "" in
    while !status = "" do
      if snd !s then status := "ok aborted"
      else if pool_finished (fst !s) then status := Printf.sprintf "ok finished handled=%d" (List.length (fst !s).handled)
      else begin
        let cands = Main :: List.init w (fun j -> Wk (nat_of_int j)) in
        let en = List.filter_map (fun t -> pool_step_f (nat_of_int cap) fails !s t) cands in
        if en = [] then status := "deadlock" else s := List.nth en (rnd (List.length en))
      end
    done;
    !status
  | _ -> "unsupported-case")
