(* C10 model driver.
   A <P|T> <file hex|->                  -> ACCEPT order=<k> bound=<n> | REJECT <class>
   T <P|T> <text hex|->                  -> the same through parse_arpa_text (text delivered by a decompressor or a pipe)
   B <type 0..5|v> <enum 0|1> <file hex> -> REJECT <class> | UNDECIDED
   S <file size> <order> <size>          -> REJECT Format | UNDECIDED   (BinaryFormat::LoadBinary, numbers in hex)
   F <hex>                               -> FilePiece::ReadFloat probe: <class> <bytes consumed> | ERR <class> *)
open C10_model
(*INCLUDE zio*)

let n_of_int (i : int) : n = match z_of_int i with Z0 -> N0 | Zpos p -> Npos p | Zneg _ -> failwith "neg"
let int_of_n (x : n) : int = match x with N0 -> 0 | Npos p -> int_of_z (Zpos p)
let bytes_of_hex (h : string) : n list =
  if h = "-" then [] else begin
    let tbl = Array.init 256 n_of_int in
    List.init (String.length h / 2) (fun i -> tbl.(int_of_string ("0x" ^ String.sub h (2 * i) 2))) end
let err_name = function
  | EndOfFile -> "EndOfFile" | ParseNumber -> "ParseNumber" | Format -> "Format" | SpecialWord -> "SpecialWord"
  | ProbingSize -> "ProbingSize" | OutOfFuel -> "OUT-OF-FUEL" | Unmodelled -> "UNMODELLED"
let fval_name = function FZero b -> if b then "-0" else "+0" | FFin b -> if b then "-fin" else "+fin" | FInf b -> if b then "-inf" else "+inf" | FNaN -> "nan"

let handle (line : string) : string =
  match split_ws line with
  | ["A"; st; h] ->
      (match parse_arpa (if st = "P" then Probing else Trie) (bytes_of_hex h) with
       | Ok m -> Printf.sprintf "ACCEPT order=%d bound=%d" (List.length m.m_counts) (List.length m.m_words + 1)
       | Err e -> "REJECT " ^ err_name e)
  | ["T"; st; h] ->
      (* the text reaches the ARPA parser through FilePiece's read() path (compressed file, pipe): no binary-format dispatch *)
      (match parse_arpa_text (if st = "P" then Probing else Trie) (bytes_of_hex h) with
       | Ok m -> Printf.sprintf "ACCEPT order=%d bound=%d" (List.length m.m_counts) (List.length m.m_words + 1)
       | Err e -> "REJECT " ^ err_name e)
  | ["B"; t; en; h] when not (is_binary_file (bytes_of_hex h)) ->
      (* not recognised as a binary file: the ARPA parser gets it (LoadVirtual: as PROBING) *)
      (match parse_arpa (if t = "v" || int_of_string t < 2 then Probing else Trie) (bytes_of_hex h) with
       | Ok m -> Printf.sprintf "ACCEPT order=%d bound=%d" (List.length m.m_counts) (List.length m.m_words + 1)
       | Err e -> "REJECT " ^ err_name e)
  | ["B"; t; en; h] ->
      (match check_binary_header (bytes_of_hex h) (if t = "v" then None else Some (n_of_int (int_of_string t))) (en = "1") with
       | BinReject e -> "REJECT " ^ err_name e
       | BinUndecided -> "UNDECIDED")
  | ["S"; fs; order; size] ->
      (* LoadBinary's size test: file size, order, image bytes after the header (all hex) *)
      let n x = match z_of_hex x with Z0 -> N0 | Zpos p -> Npos p | Zneg _ -> failwith "neg" in
      (match check_binary_size (n fs) (n order) (n size) with
       | BinReject e -> "REJECT " ^ err_name e
       | BinUndecided -> "UNDECIDED")
  | ["F"; h] ->
      let b = bytes_of_hex h in
      (match read_float b with
       | Err e -> "ERR " ^ err_name e
       | Ok (v, rest) -> Printf.sprintf "%s %d" (fval_name v) (List.length b - List.length rest))
  | _ -> failwith "bad case line"

let () = each_line handle
