(* C09 model driver: prints the system-call shape of a binary build as the extracted model defines it.
   input:  S <m|a> <0|1 include_vocab> <H> <HV> <P> <M> <W>     (decimal sizes)
   output: create trunc:N mmap:N munmap:N write:OFF:LEN msync:N fsync close ...   (one line)
           T <m|a> <0|1> <H> <V> <P> <M> <W>  runs the extracted finish_trace on dummy contents of those sizes and prints
           the shape obtained through `shapes` (must equal the S answer: C09_trace_shape, checked here by execution)
           F <m|a> <0|1> <H> <V> <P> <M> <W>  shape of failed_sync_trace (FinishFile's sync fails)
           H <order>  header_size order *)
open C09_model
let nat_of_int (n : int) : nat = let rec go acc k = if k <= 0 then acc else go (S acc) (k - 1) in go O n
let int_of_nat (n : nat) : int = let rec go acc = function O -> acc | S k -> go (acc + 1) k in go 0 n
let split_ws (s : string) : string list = List.filter (fun x -> x <> "") (String.split_on_char ' ' s)
let each_line (f : string -> string) : unit =
  (try while true do
       let l = input_line stdin in
       (try print_string (f l) with e -> print_string ("MODEL-EXCEPTION " ^ Printexc.to_string e));
       print_newline ()
     done with End_of_file -> ())

let show = function
  | SCreate -> "create"
  | STruncate n -> "trunc:" ^ string_of_int (int_of_nat n)
  | SMmap n -> "mmap:" ^ string_of_int (int_of_nat n)
  | SMunmap n -> "munmap:" ^ string_of_int (int_of_nat n)
  | SWrite (o, l) -> "write:" ^ string_of_int (int_of_nat o) ^ ":" ^ string_of_int (int_of_nat l)
  | SMsync n -> "msync:" ^ string_of_int (int_of_nat n)
  | SFsync -> "fsync"
  | SSyncFail -> "syncfail"
  | SClose -> "close"

let wm = function "m" -> WriteMmap | _ -> WriteAfter
let zeros n = List.init n (fun _ -> O)

let handle (line : string) : string =
  match split_ws line with
  | ["S"; m; iv; h; hv; p; mm; w] ->
      let n x = nat_of_int (int_of_string x) in
      String.concat " " (List.map show (finish_shape (wm m) (iv = "1") (n h) (n hv) (n p) (n mm) (n w)))
  | ["T"; m; iv; h; v; p; mm; w] ->
      let i = int_of_string in
      let c = { c_H = nat_of_int (i h); c_vocab1 = zeros (i v); c_vocab2 = zeros (i v); c_pad = nat_of_int (i p); c_search1 = zeros (i mm);
                c_search2 = zeros (i mm); c_words = zeros (i w); c_header = zeros (i h) } in
      String.concat " " (List.map show (shapes (finish_trace (wm m) (iv = "1") c)))
  | ["F"; m; iv; h; v; p; mm; w] ->
      (* FinishFile's sync fails: the extracted failed_sync_trace on dummy contents of those sizes *)
      let i = int_of_string in
      let c = { c_H = nat_of_int (i h); c_vocab1 = zeros (i v); c_vocab2 = zeros (i v); c_pad = nat_of_int (i p); c_search1 = zeros (i mm);
                c_search2 = zeros (i mm); c_words = zeros (i w); c_header = zeros (i h) } in
      String.concat " " (List.map show (shapes (failed_sync_trace (wm m) (iv = "1") c)))
  | ["H"; o] -> string_of_int (int_of_nat (header_size (nat_of_int (int_of_string o))))
  | _ -> "BAD-CASE"

let () = each_line handle
