(* C19 model driver.  Cases (all numbers hex unless said otherwise):
     L <neg 0|1> <is_zero 0|1> <digits hex of ASCII> <point decimal>   -> text (hex) of ToShortest's layout with kenlm's parameters
     S <nan 0|1> <neg 0|1>                                             -> length of the special-value text
     U <value>  /  I <value, two's complement 64 bit> / P <value>      -> text (hex) of the decimal / pointer printing *)
open C19_model
(*INCLUDE zio*)

let n_of_int (i : int) : n = match z_of_int i with Z0 -> N0 | Zpos p -> Npos p | Zneg _ -> N0
let rec int_of_pos (p : positive) : int = match p with XH -> 1 | XO q -> 2 * int_of_pos q | XI q -> 2 * int_of_pos q + 1
let int_of_n (x : n) : int = match x with N0 -> 0 | Npos p -> int_of_pos p
let hexv c = match c with '0'..'9' -> Char.code c - 48 | 'a'..'f' -> Char.code c - 87 | 'A'..'F' -> Char.code c - 55 | _ -> failwith "hex"
let bytes_of_hex (s : string) : n list =
  if s = "-" then [] else List.init (String.length s / 2) (fun i -> n_of_int (hexv s.[2 * i] * 16 + hexv s.[2 * i + 1]))
let hex_of_bytes (l : n list) : string =
  if l = [] then "-" else String.concat "" (List.map (fun x -> Printf.sprintf "%02x" (int_of_n x)) l)
let z_of_dec (s : string) : z = z_of_int (int_of_string s)
let two64 = z_of_hex "10000000000000000"
let two63 = z_of_hex "8000000000000000"

let handle (line : string) : string =
  match split_ws line with
  | ["L"; neg; iz; digits; point] ->
      hex_of_bytes (shortest kenlm_params (neg = "1") (iz = "1") (bytes_of_hex digits) (z_of_dec point))
  | ["S"; nan; neg] -> hex_of_z (special_len kenlm_params (nan = "1") (neg = "1"))
  | ["U"; v] -> hex_of_bytes (print_unsigned (z_of_hex v))
  | ["I"; v] ->
      let z = z_of_hex v in
      let z = (match Z.compare z two63 with Lt -> z | _ -> Z.sub z two64) in
      hex_of_bytes (print_signed z)
  | ["P"; v] -> hex_of_bytes (print_pointer (z_of_hex v))
  | _ -> "BADCMD"

let () = each_line handle
