(* C18 model driver: same protocol as harness/drivers/c18_driver.cc, evaluated with the extracted model.
   C18_VARIANT = repaired (default) | original | spec  selects the model of the repaired code, of the code before
   the three fix: commits, or the extracted specification (whole-input functions). *)
open C18_model
(*INCLUDE zio*)

let n_of_int (i : int) : n = match z_of_int i with Z0 -> N0 | Zpos p -> Npos p | Zneg _ -> N0
let byte_tab : n array = Array.init 256 n_of_int
let rec int_of_pos (p : positive) : int = match p with XH -> 1 | XO q -> 2 * int_of_pos q | XI q -> 2 * int_of_pos q + 1
let int_of_n (x : n) : int = match x with N0 -> 0 | Npos p -> int_of_pos p
let big_nat (k : int) : nat = let rec go acc k = if k <= 0 then acc else go (S acc) (k - 1) in go O k
let int_of_big_nat (x : nat) : int = let rec go acc x = match x with O -> acc | S y -> go (acc + 1) y in go 0 x

let hexv c = match c with '0'..'9' -> Char.code c - 48 | 'a'..'f' -> Char.code c - 87 | 'A'..'F' -> Char.code c - 55 | _ -> failwith "hex"
let bytes_of_hex (s : string) : n list =
  if s = "-" then [] else begin
    let r = ref [] in
    let k = String.length s / 2 in
    for i = k - 1 downto 0 do r := byte_tab.(hexv s.[2 * i] * 16 + hexv s.[2 * i + 1]) :: !r done;
    !r end
let numlist (s : string) : nat list =
  if s = "-" then [] else List.map (fun x -> big_nat (int_of_string ("0x" ^ x))) (String.split_on_char ',' s)

(* outcomes of the dictated read() calls: a hex length, or i = interrupted (-1 / EINTR) *)
let oracle_of (s : string) : outcome list =
  if s = "-" then [] else List.map (fun x -> if x = "i" then Interrupted else Bytes (big_nat (int_of_string ("0x" ^ x)))) (String.split_on_char ',' s)

let put_bytes (b : Buffer.t) (l : n list) : unit =
  let a = Array.of_list (List.rev (List.rev_map int_of_n l)) in
  let n = Array.length a in
  if n <= 24 then begin
    Buffer.add_string b "b:"; Array.iter (fun x -> Buffer.add_string b (Printf.sprintf "%02x" x)) a end
  else begin
    let h = ref 7 in
    Array.iter (fun x -> h := (!h * 257 + x + 1) mod 2147483647) a;
    Buffer.add_string b (Printf.sprintf "B:%x:" n);
    for i = 0 to 7 do Buffer.add_string b (Printf.sprintf "%02x" a.(i)) done;
    Buffer.add_string b (Printf.sprintf ":%x" !h) end

let put_res (b : Buffer.t) (r : res) : unit =
  match r with
  | RBytes l -> put_bytes b l
  | RChar c -> Buffer.add_string b (Printf.sprintf "c:%x" (int_of_n c))
  | RInt z -> Buffer.add_string b ("n:" ^ hex_of_z z)
  | RFloat (k, span) ->
      Buffer.add_string b (match k with KNum -> "s:n:" | KInf -> "s:i:" | KNaN -> "s:N:");
      List.iter (fun x -> Buffer.add_string b (Printf.sprintf "%02x" (int_of_n x))) span
  | RUnit -> Buffer.add_string b "ok"
  | RFalse -> Buffer.add_string b "F"
  | REof -> Buffer.add_string b "EOF"
  | RParseErr -> Buffer.add_string b "PERR"
  | ROutOfFuel -> Buffer.add_string b "OUT-OF-FUEL"

let op_of_char c = match c with
  | 'L' | 'E' -> OLine (byte_tab.(10), true)
  | 'l' -> OLine (byte_tab.(10), false)
  | 'T' -> OLine (byte_tab.(9), true)
  | 'D' -> ODelim | 'W' -> OWord | 'F' | 'B' -> OFloat | 'U' -> OULong | 'I' -> OLong
  | 'G' -> OGet | 'P' -> OPeek | 'S' -> OSkip
  | _ -> failwith "op"

let variant = try Sys.getenv "C18_VARIANT" with Not_found -> "repaired"
let page = big_nat 4096

let handle (line : string) : string =
  match split_ws line with
  | "FP" :: backend :: minb :: plain :: _comp :: chunks :: rest ->
      let ops = match rest with o :: _ when o <> "-" -> o | _ -> "" in
      let ops = List.init (String.length ops) (fun i -> op_of_char ops.[i]) in
      let data = bytes_of_hex plain in
      let minb = big_nat (int_of_string ("0x" ^ minb)) in
      let k = if backend = "MO" || backend = "MOZ" then int_of_string ("0x" ^ chunks) else 0 in
      let base = if variant <> "spec" && k > 0 && _comp = "-" then k else 0 in
      let tr =
        if variant = "spec" then Some (spec_run (big_nat (List.length data)) ops data)
        else begin
          let v = if variant = "original" then original else repaired in
          (* MO / MOZ: a descriptor at offset k of a regular file: plain content -> the mmap backend started at k (the header's
             bytes are never looked at: zeros), compressed content -> the decompressor chain; offsets are printed relative to k *)
          let data = if (backend = "MO" || backend = "MOZ") && _comp = "-" then List.init k (fun _ -> byte_tab.(48)) @ data else data in
          let (be, ch) = match backend with
            | ("MO" | "MOZ") when _comp = "-" -> (BFileAt (big_nat k), [])
            | "M" -> (BFile, [])
            | "R" -> (BPipe, oracle_of chunks)
            | "MF" -> (BFileNoMmap, oracle_of chunks)
            | "PF" -> (BFileNoMmap, [])
            | "P" -> (BPipe, [])
            | "ZR" -> (BPipeStream, [])
            | _ -> (BStream, []) in
          transcript v be page minb data ch ops end in
      (match tr with
       | None -> "CTOR-EOF"
       | Some l ->
           let b = Buffer.create 256 in
           List.iteri (fun i (r, off) ->
               if i > 0 then Buffer.add_char b ' ';
               put_res b r;
               Buffer.add_string b (Printf.sprintf "@%x" (int_of_big_nat off - base))) l;
           Buffer.contents b)
  | "RC" :: _src :: comp :: chunks :: reqs :: plains :: complens :: [] ->
      (* the model of ReadCompressed: members = (compressed length, plaintext); the compressed bytes themselves only matter
         through their number; the decompressor oracle is derived from the request sizes (any oracle gives the same answer) *)
      let plains = List.map (fun h -> bytes_of_hex (if h = "" then "-" else h)) (String.split_on_char ',' plains) in
      let lens = List.map int_of_big_nat (numlist complens) in
      (* the members' real compressed bytes: the model examines the magic of every member after the first *)
      let call = Array.of_list (bytes_of_hex comp) in
      let off = ref 0 in
      let members = List.map2 (fun p l -> let c = Array.to_list (Array.sub call !off l) in off := !off + l;
                                { m_comp = c; m_plain = p }) plains lens in
      let reqs = numlist reqs in
      let k = ref 7 in
      let deco = List.init 400 (fun _ -> k := (!k * 1103515245 + 12345) land 0x3fffffff;
                                 (big_nat (!k mod 5000), big_nat ((!k / 5000) mod 3000))) in
      let total = List.fold_left (fun a p -> a + List.length p) 0 plains in
      (* ask as often as the driver does: cycle the request sizes until three empty answers *)
      let rec cycle acc n = if n = 0 then acc else cycle (acc @ reqs) (n - 1) in
      let per = max 1 (List.fold_left (fun a r -> a + int_of_big_nat r) 0 reqs) in
      let all = cycle [] (400 / max 1 (List.length reqs) + total / per + 4 * (List.length plains + 2)) in
      (match rc_read_all all (rc_open members (oracle_of chunks) deco) with
       | None -> "MODEL-ERROR"
       | Some chunks ->
           let h = ref 7 and tot = ref 0 and late = ref 0 and ended = ref false in
           List.iter2 (fun r c ->
               if c = [] then (if int_of_big_nat r > 0 then ended := true)
               else begin
                 if !ended then incr late;
                 List.iter (fun x -> h := (!h * 257 + int_of_n x + 1) mod 2147483647; incr tot) c end) all chunks;
           if not !ended then "MODEL-DID-NOT-REACH-END" else Printf.sprintf "%x %x %x" !tot !h !late)
  | ["LI"; src; bs; plain; _comp; chunks] ->
      (* the reader is ReadCompressed: plain bytes through ReadFactory's header (open_fd) with the dictated read() lengths, or a
         decompressor chain (open_stream); by C18_line_input_blocks the blocks do not depend on which *)
      let data = bytes_of_hex plain in
      let s = if _comp = "-" then open_fd data (if src = "R" then oracle_of chunks else []) else open_stream data [] in
      (match line_input (big_nat (int_of_string ("0x" ^ bs))) s with
       | LIOk blocks ->
           let h = ref 7 and tot = ref 0 in
           List.iter (List.iter (fun x -> h := (!h * 257 + int_of_n x + 1) mod 2147483647; incr tot)) blocks;
           (if blocks = [] then "-" else String.concat "," (List.map (fun b -> Printf.sprintf "%x" (List.length b)) blocks))
           ^ Printf.sprintf " %x %x" !tot !h
       | LINoNewline _ -> "NO-NEWLINE"
       | LIFuel -> "OUT-OF-FUEL")
  | ["TK"; mode; hex] ->
      let data = bytes_of_hex hex in
      let eqb c = fun (x : n) -> int_of_n x = c in
      let toks = match mode with
        | "B" -> tokens_skip_empty is_space data
        | "S" -> split_on (eqb 32) data
        | _ -> tokens_skip_empty (fun x -> int_of_n x = 32 || int_of_n x = 9) data in
      if toks = [] then "none" else begin
        let b = Buffer.create 64 in
        List.iteri (fun i t -> if i > 0 then Buffer.add_char b '|'; put_bytes b t) toks;
        Buffer.contents b end
  | _ -> "BADCMD"

let () = each_line handle
