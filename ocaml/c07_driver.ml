(* C07 model driver.  CC <order> <cap> w w / w w w / ...   (hex ids, "/" ends a sentence; every sentence is
   terminated by "/")  ->  the blocks CorpusCount passes down the chain:  w1.w2:count ... | w1.w2:count ... *)
open C07_model
(*INCLUDE zio*)

let n_of_hex s = Z.to_N (z_of_hex s)
let hex_of_n x = hex_of_z (Z.of_N x)

let sentences toks =
  let rec go cur acc = function
    | [] -> List.rev acc
    | "/" :: r -> go [] (List.rev cur :: acc) r
    | t :: r -> go (n_of_hex t :: cur) acc r in
  go [] [] toks

let show_block b =
  String.concat " " (List.map (fun (g, c) -> String.concat "." (List.map hex_of_n g) ^ ":" ^ hex_of_n c) b)

let handle line =
  match split_ws line with
  | "CC" :: order :: cap :: toks ->
      let blocks = count_corpus (nat_of_int (int_of_string ("0x" ^ order))) (nat_of_int (int_of_string ("0x" ^ cap))) (sentences toks) in
      String.concat " | " (List.map show_block blocks)
  | _ -> "?"

let () = each_line handle
