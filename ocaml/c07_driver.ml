(* C07 model driver.  CC <order> <cap> w w / w w w / ...   (hex ids, "/" ends a sentence; every sentence is
   terminated by "/")  ->  the blocks CorpusCount passes down the chain:  w1.w2:count ... | w1.w2:count ... *)
open C07_model
(*INCLUDE zio*)

let n_of_hex s = Z.to_N (z_of_hex s)
let hex_of_n x = hex_of_z (Z.of_N x)

let sentences toks =
  let rec go cur acc = function
    | [] -> List.rev acc
    | "/" :: r -> go [] (List.rev cur :: acc) r
    | t :: r -> go (n_of_hex t :: cur) acc r in
  go [] [] toks

let show_block b =
  String.concat " " (List.map (fun (g, c) -> String.concat "." (List.map hex_of_n g) ^ ":" ^ hex_of_n c) b)

let handle line =
  match split_ws line with
  | "CC" :: order :: cap :: toks ->
      let blocks = count_corpus (nat_of_int (int_of_string ("0x" ^ order))) (nat_of_int (int_of_string ("0x" ^ cap))) (sentences toks) in
      String.concat " | " (List.map show_block blocks)
  | "AC" :: thr :: pw :: toks ->
      (* AC <threshold> <pruned word ids, comma separated, or -> rec rec / rec ...   -> the highest-order blocks as they leave CollapseStream *)
      let pws = if pw = "-" then [] else List.map n_of_hex (String.split_on_char ',' pw) in
      let prune_word w = List.mem w pws in
      let parse t = match String.split_on_char ':' t with
        | [k; c] -> { e_words = List.map n_of_hex (String.split_on_char '.' k); e_count = n_of_hex c; e_marked = false }
        | _ -> failwith "rec" in
      let rec blocks cur acc = function
        | [] -> List.rev (List.rev cur :: acc)
        | "/" :: r -> blocks [] (List.rev cur :: acc) r
        | t :: r -> blocks (parse t :: cur) acc r in
      let show e = String.concat "." (List.map hex_of_n e.e_words) ^ ":" ^ hex_of_n e.e_count ^ (if e.e_marked then "*" else "") in
      String.concat " | " (List.map (fun b -> String.concat " " (List.map show (collapse_block (n_of_hex thr) prune_word b))) (blocks [] [] toks))
  | _ -> "?"

let () = each_line handle
