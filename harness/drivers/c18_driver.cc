// C18 implementation driver: runs the real util::FilePiece / util::ReadCompressed on the cases read from stdin
// (one per line, numbers and byte strings in hex) and prints one canonical transcript line per case.
// Protocol (shared with ocaml/c18_driver.ml):
//   FP <backend> <min_buffer> <plainhex|-> <comphex|-> <chunks|-> <ops>      chunks: hex lengths of the successive read() calls, 'i' = that call is interrupted (-1/EINTR)
//        backend  M  regular file through the constructor taking a name (mmap backend)
//                 R  pipe fd whose read() results are dictated by <chunks> (read backend, deterministic short reads)
//                 P  real pipe, a writer thread write()s the data in <chunks>-sized pieces (kernel decides the reads)
//                 MF regular file (descriptor handed to FilePiece) on which every mmap() fails with ENODEV, as on file systems
//                    that cannot be mapped: MMapShift's catch block -> TransitionToRead from offset 0; read() lengths by <chunks>
//                 MO regular file, descriptor positioned at offset <chunks field> behind a header; MOZ: the header starts with the gzip magic
//                 I  std::istream
//                 ZM compressed bytes <comphex> in a regular file (mmap, magic detection, transition to read)
//                 ZR compressed bytes through the chunk-dictated pipe
//        ops      one letter per call: L ReadLine() l ReadLine('\n',false) T ReadLine('\t') E ReadLineOrEOF()
//                 D ReadDelimited() W ReadWordSameLine() F ReadFloat() B ReadDouble() U ReadULong() I ReadLong()
//                 G get() P peek() S SkipSpaces();   after every call Offset() is recorded
//   answer: one token per op  <result>@<offset>
//   RC <src F|R> <comphex> <chunks|-> <request sizes>   ReadCompressed::Read with the given request sizes, then 3 more
//   answer: <total length> <hash of all bytes> <calls that returned 0 before the end> <nonzero after end>
// The driver defines read(): calls made by the statically linked kenlm code on the designated fd are answered from
// memory with the lengths of the chunk list (short reads without a shim); every other fd goes to the kernel.
// It also defines mmap()/mmap64(): file mappings fail with ENODEV while g_fail_mmap is set (anonymous maps are untouched).
#include "util/file_piece.hh"
#include "util/file.hh"
#include "util/read_compressed.hh"
#include "util/tokenize_piece.hh"
#include "util/stream/chain.hh"
#include "util/stream/line_input.hh"

#include <csignal>
#include <cstdio>
#include <cstdlib>
#include <cstring>
#include <iostream>
#include <sstream>
#include <string>
#include <vector>
#include <thread>
#include <stdint.h>
#include <unistd.h>
#include <fcntl.h>
#include <sys/syscall.h>
#include <sys/mman.h>
#include <cerrno>

// The library declares LineInput's constructor but does not define it (no kenlm program uses the class); weak, so that a
// definition added to the library later wins.
namespace util { namespace stream {
__attribute__((weak)) LineInput::LineInput(int fd) : fd_(fd) {}
}}

namespace {
const size_t kInterrupted = (size_t)-1;
int g_fd = -1;
std::string g_data;
size_t g_pos = 0;
std::vector<size_t> g_chunks;
size_t g_chunk_i = 0;
}

namespace { bool g_fail_mmap = false; }
extern "C" void *mmap(void *addr, size_t len, int prot, int flags, int fd, off_t off) {
  if (g_fail_mmap && fd >= 0) { errno = ENODEV; return MAP_FAILED; }
  return (void *)syscall(SYS_mmap, addr, len, prot, flags, fd, off);
}
extern "C" void *mmap64(void *addr, size_t len, int prot, int flags, int fd, off_t off) {
  return mmap(addr, len, prot, flags, fd, off);
}

extern "C" ssize_t read(int fd, void *buf, size_t count) {
  if (fd != g_fd || g_fd < 0) return syscall(SYS_read, fd, buf, count);
  size_t n = g_data.size() - g_pos;
  if (n > count) n = count;
  if (g_chunk_i < g_chunks.size()) {
    size_t c = g_chunks[g_chunk_i++];
    if (c == kInterrupted) { errno = EINTR; return -1; }   // a signal arrived before any byte: what a handler without SA_RESTART does
    if (c < 1) c = 1;
    if (n > c) n = c;
  }
  memcpy(buf, g_data.data() + g_pos, n);
  g_pos += n;
  return (ssize_t)n;
}

namespace {
int hexval(char c) { return c <= '9' ? c - '0' : (c | 32) - 'a' + 10; }
std::string unhex(const std::string &s) {
  std::string r;
  if (s == "-") return r;
  r.resize(s.size() / 2);
  for (size_t i = 0; i + 1 < s.size(); i += 2) r[i / 2] = (char)(hexval(s[i]) * 16 + hexval(s[i + 1]));
  return r;
}
std::vector<size_t> numlist(const std::string &s) {
  std::vector<size_t> r;
  if (s == "-") return r;
  size_t i = 0;
  while (i < s.size()) {
    size_t j = s.find(',', i);
    if (j == std::string::npos) j = s.size();
    if (s.compare(i, j - i, "i") == 0) r.push_back(kInterrupted);     // this read() call is interrupted: -1 / EINTR
    else r.push_back(strtoull(s.substr(i, j - i).c_str(), NULL, 16));
    i = j + 1;
  }
  return r;
}
// bytes: short ones in full, long ones as length + head + hash (same function in the model driver and the oracle)
void put_bytes(std::ostream &o, const char *p, size_t n) {
  static const char *d = "0123456789abcdef";
  if (n <= 24) {
    o << "b:";
    for (size_t i = 0; i < n; ++i) o << d[(unsigned char)p[i] >> 4] << d[(unsigned char)p[i] & 15];
    return;
  }
  uint64_t h = 7;
  for (size_t i = 0; i < n; ++i) h = (h * 257 + (unsigned char)p[i] + 1) % 2147483647ULL;
  o << "B:" << std::hex << n << ':';
  for (size_t i = 0; i < 8; ++i) o << d[(unsigned char)p[i] >> 4] << d[(unsigned char)p[i] & 15];
  o << ':' << std::hex << h;
}
std::string scratch() {
  const char *s = getenv("C18_SCRATCH");
  return s ? s : "/var/tmp";
}
std::string write_temp(const std::string &data) {
  std::string name = scratch() + "/c18_XXXXXX";
  std::vector<char> b(name.begin(), name.end());
  b.push_back(0);
  int fd = mkstemp(&b[0]);
  if (fd < 0) { perror("mkstemp"); exit(3); }
  size_t off = 0;
  while (off < data.size()) {
    ssize_t w = write(fd, data.data() + off, data.size() - off);
    if (w <= 0) { perror("write"); exit(3); }
    off += w;
  }
  close(fd);
  return std::string(&b[0]);
}
union F32 { float f; uint32_t i; };
union F64 { double f; uint64_t i; };

void writer_thread(int fd, std::string data, std::vector<size_t> chunks) {
  size_t off = 0, k = 0;
  while (off < data.size()) {
    size_t n = chunks.empty() ? 4096 : chunks[k++ % chunks.size()];
    if (n == kInterrupted) n = 1;
    if (n < 1) n = 1;
    if (n > data.size() - off) n = data.size() - off;
    ssize_t w = write(fd, data.data() + off, n);
    if (w <= 0) break;
    off += w;
    if ((k & 3) == 0) usleep(50);
  }
  close(fd);
}

void run_ops(util::FilePiece &f, const std::string &ops, std::ostream &o) {
  bool first = true;
  const uint64_t base = f.Offset();   // offsets are reported relative to where the input starts (0 except for a descriptor handed over at an offset)
  for (size_t k = 0; k < ops.size(); ++k) {
    if (!first) o << ' ';
    first = false;
    try {
      switch (ops[k]) {
        case 'L': { StringPiece s = f.ReadLine(); put_bytes(o, s.data(), s.size()); break; }
        case 'l': { StringPiece s = f.ReadLine('\n', false); put_bytes(o, s.data(), s.size()); break; }
        case 'T': { StringPiece s = f.ReadLine('\t'); put_bytes(o, s.data(), s.size()); break; }
        case 'E': { StringPiece s; if (f.ReadLineOrEOF(s)) put_bytes(o, s.data(), s.size()); else o << "EOF"; break; }
        case 'D': { StringPiece s = f.ReadDelimited(); put_bytes(o, s.data(), s.size()); break; }
        case 'W': { StringPiece s; if (f.ReadWordSameLine(s)) put_bytes(o, s.data(), s.size()); else o << "F"; break; }
        case 'F': { F32 v; v.f = f.ReadFloat(); o << "f:" << std::hex << v.i; break; }
        case 'B': { F64 v; v.f = f.ReadDouble(); o << "d:" << std::hex << v.i; break; }
        case 'U': { unsigned long v = f.ReadULong(); o << "n:" << std::hex << v; break; }
        case 'I': { long v = f.ReadLong(); if (v < 0) o << "n:-" << std::hex << (0UL - (unsigned long)v); else o << "n:" << std::hex << v; break; }
        case 'G': { char c = f.get(); o << "c:" << std::hex << (unsigned)(unsigned char)c; break; }
        case 'P': { char c = f.peek(); o << "c:" << std::hex << (unsigned)(unsigned char)c; break; }
        case 'S': { f.SkipSpaces(); o << "ok"; break; }
        default: o << "BADOP"; break;
      }
    } catch (const util::EndOfFileException &) {
      o << "EOF";
    } catch (const util::ParseNumberException &) {
      o << "PERR";
    } catch (const std::exception &e) {
      std::string w = e.what();
      for (size_t i = 0; i < w.size(); ++i) if (w[i] == ' ' || w[i] == '\n') w[i] = '_';
      o << "EXC:" << w.substr(0, 80);
      return;
    }
    o << '@' << std::hex << (f.Offset() - base);
  }
}

void case_fp(std::istringstream &in, std::ostream &o) {
  std::string backend, minb, plain, comp, chunks, ops;
  in >> backend >> minb >> plain >> comp >> chunks >> ops;
  if (ops == "-") ops = "";
  size_t min_buffer = strtoull(minb.c_str(), NULL, 16);
  std::string data = unhex(backend[0] == 'Z' ? comp : plain);
  std::vector<size_t> ch = numlist(chunks);
  g_fd = -1;
  try {
    if (backend == "M" || backend == "ZM") {
      std::string name = write_temp(data);
      {
        util::FilePiece f(name.c_str(), NULL, min_buffer);
        unlink(name.c_str());
        run_ops(f, ops, o);
      }
    } else if (backend == "MO" || backend == "MOZ") {
      // a regular file handed over as a descriptor positioned at <chunks field> = offset: a header the caller has already
      // consumed (text; MOZ: text that begins with the gzip magic), then the content -- plain bytes or compressed members
      size_t offset = ch.empty() ? 0 : ch[0];
      std::string header;
      while (header.size() < offset) header += "header line the caller consumed 0123456789\n";
      header.resize(offset);
      if (backend == "MOZ" && offset >= 2) { header[0] = (char)0x1f; header[1] = (char)0x8b; }
      std::string name = write_temp(header + unhex(comp == "-" ? plain : comp));
      int fd = open(name.c_str(), O_RDONLY);
      unlink(name.c_str());
      if (fd < 0 || lseek(fd, (off_t)offset, SEEK_SET) != (off_t)offset) { perror("open/lseek"); exit(3); }
      util::FilePiece f(fd, "c18-at-offset", NULL, min_buffer);
      run_ops(f, ops, o);
    } else if (backend == "PF") {
      // a procfs file opened by name: "regular file" of size 0 whose zero-length mmap fails although read() delivers data;
      // the name follows the ops field (the plaintext field is what the harness read from it just before)
      std::string name;
      in >> name;
      util::FilePiece f(name.c_str(), NULL, min_buffer);
      run_ops(f, ops, o);
    } else if (backend == "MF") {
      std::string name = write_temp(data);
      int fd = open(name.c_str(), O_RDONLY);
      unlink(name.c_str());
      if (fd < 0) { perror("open"); exit(3); }
      g_data = data; g_pos = 0; g_chunks = ch; g_chunk_i = 0; g_fd = fd;
      g_fail_mmap = true;
      try {
        util::FilePiece f(fd, "c18-nommap", NULL, min_buffer);
        run_ops(f, ops, o);
      } catch (...) { g_fail_mmap = false; g_fd = -1; throw; }
      g_fail_mmap = false;
      g_fd = -1;
    } else if (backend == "R" || backend == "ZR") {
      int p[2];
      if (pipe(p)) { perror("pipe"); exit(3); }
      g_data = data; g_pos = 0; g_chunks = ch; g_chunk_i = 0; g_fd = p[0];
      {
        util::FilePiece f(p[0], "c18-pipe", NULL, min_buffer);
        run_ops(f, ops, o);
      }
      g_fd = -1;
      close(p[1]);
    } else if (backend == "P") {
      int p[2];
      if (pipe(p)) { perror("pipe"); exit(3); }
      std::thread w(writer_thread, p[1], data, ch);
      {
        util::FilePiece f(p[0], "c18-pipe", NULL, min_buffer);
        run_ops(f, ops, o);
      }
      w.join();   // FilePiece closed the read end: a blocked writer gets EPIPE (SIGPIPE ignored in main)
    } else if (backend == "I") {
      std::istringstream is(data);
      util::FilePiece f(is, "c18-istream", min_buffer);
      run_ops(f, ops, o);
    } else {
      o << "BADBACKEND";
    }
  } catch (const std::exception &e) {
    std::string w = e.what();
    for (size_t i = 0; i < w.size(); ++i) if (w[i] == ' ' || w[i] == '\n') w[i] = '_';
    o << "CTOR-EXC:" << w.substr(0, 80);
  }
}

void case_rc(std::istringstream &in, std::ostream &o) {
  std::string src, comp, chunks, reqs;
  in >> src >> comp >> chunks >> reqs;
  std::string data = unhex(comp);
  std::vector<size_t> ch = numlist(chunks), rq = numlist(reqs);
  g_fd = -1;
  std::string name;
  int fd;
  int p[2] = {-1, -1};
  if (src == "F") {
    name = write_temp(data);
    fd = open(name.c_str(), O_RDONLY);
    unlink(name.c_str());
  } else {
    if (pipe(p)) { perror("pipe"); exit(3); }
    g_data = data; g_pos = 0; g_chunks = ch; g_chunk_i = 0; g_fd = p[0];
    fd = p[0];
  }
  try {
    util::ReadCompressed rc(fd);
    uint64_t h = 7, total = 0;
    size_t k = 0, early_zero = 0, late_nonzero = 0;
    bool ended = false;
    std::vector<char> buf(1 << 16);
    int after = 0;
    while (after < 3) {
      size_t want = rq.empty() ? 4096 : rq[k % rq.size()];
      ++k;
      if (want > buf.size()) buf.resize(want);
      size_t got = rc.Read(&buf[0], want);
      if (got > want) { o << "OVERRUN"; return; }
      if (got == 0) {
        if (want == 0) continue;
        ended = true;
        ++after;
      } else {
        if (ended) ++late_nonzero;
        for (size_t i = 0; i < got; ++i) h = (h * 257 + (unsigned char)buf[i] + 1) % 2147483647ULL;
        total += got;
      }
      if (k > 4000000) { o << "NO-END"; return; }
    }
    (void)early_zero;
    o << std::hex << total << ' ' << h << ' ' << late_nonzero;
  } catch (const std::exception &e) {
    std::string w = e.what();
    for (size_t i = 0; i < w.size(); ++i) if (w[i] == ' ' || w[i] == '\n') w[i] = '_';
    o << "EXC:" << w.substr(0, 80);
  }
  g_fd = -1;
  if (p[1] >= 0) close(p[1]);
}
// TK <B|S|A> <hex>: util::TokenIter over the bytes: B BoolCharacter(kSpaces) skipping empty tokens, S SingleCharacter(' ')
// keeping them, A AnyCharacter(" \t") skipping empty tokens; answer: the tokens, '|' separated, each as bytes
template <class It> void dump_tokens(It it, std::ostream &o) {
  bool first = true;
  for (; it; ++it) {
    if (!first) o << '|';
    first = false;
    put_bytes(o, it->data(), it->size());
  }
  if (first) o << "none";
}
void case_tk(std::istringstream &in, std::ostream &o) {
  std::string mode, hex;
  in >> mode >> hex;
  std::string data = unhex(hex);
  StringPiece sp(data.data(), data.size());     // data() is never NULL for std::string
  if (mode == "B") dump_tokens(util::TokenIter<util::BoolCharacter, true>(sp, util::kSpaces), o);
  else if (mode == "S") dump_tokens(util::TokenIter<util::SingleCharacter, false>(sp, ' '), o);
  else if (mode == "A") dump_tokens(util::TokenIter<util::AnyCharacter, true>(sp, " \t"), o);
  else o << "BADMODE";
}
// LI <src F|R> <block size> <plainhex> <comphex|-> <chunks>: util::stream::LineInput in a Chain (entry size 1, two blocks of the
// given size) over a regular file (F) or the chunk-dictated pipe (R), plain or compressed bytes; answer: the valid sizes of the
// blocks delivered downstream, then length and hash of their concatenation
struct LiCollected { std::string bytes; std::vector<size_t> sizes; };
class LiCollector {
  public:
    explicit LiCollector(LiCollected *to) : to_(to) {}
    void Run(const util::stream::ChainPosition &position) {
      for (util::stream::Link link(position); link; ++link) {
        to_->sizes.push_back(link->ValidSize());
        to_->bytes.append(static_cast<const char*>(link->Get()), link->ValidSize());
      }
    }
  private:
    LiCollected *to_;
};
void case_li(std::istringstream &in, std::ostream &o) {
  std::string src, bs, plain, comp, chunks;
  in >> src >> bs >> plain >> comp >> chunks;
  size_t block_size = strtoull(bs.c_str(), NULL, 16);
  std::string data = unhex(comp == "-" ? plain : comp);
  std::vector<size_t> ch = numlist(chunks);
  int fd;
  int p[2] = {-1, -1};
  g_fd = -1;
  if (src == "F") {
    std::string name = write_temp(data);
    fd = open(name.c_str(), O_RDONLY);
    unlink(name.c_str());
  } else {
    if (pipe(p)) { perror("pipe"); exit(3); }
    g_data = data; g_pos = 0; g_chunks = ch; g_chunk_i = 0; g_fd = p[0];
    fd = p[0];
  }
  LiCollected got;
  try {
    util::stream::ChainConfig config(1, 2, 2 * block_size);
    util::stream::Chain chain(config);
    chain >> util::stream::LineInput(fd) >> LiCollector(&got) >> util::stream::kRecycle;
    chain.Wait();
  } catch (const std::exception &e) {
    o << "EXC:" << e.what();
    g_fd = -1;
    if (p[1] >= 0) close(p[1]);
    return;
  }
  g_fd = -1;
  if (p[1] >= 0) close(p[1]);
  for (size_t i = 0; i < got.sizes.size(); ++i) o << (i ? "," : "") << std::hex << got.sizes[i];
  if (got.sizes.empty()) o << "-";
  uint64_t h = 7;
  for (size_t i = 0; i < got.bytes.size(); ++i) h = (h * 257 + (unsigned char)got.bytes[i] + 1) % 2147483647ULL;
  o << ' ' << std::hex << got.bytes.size() << ' ' << h;
}
} // namespace

int main() {
  signal(SIGPIPE, SIG_IGN);
  std::string line;
  while (std::getline(std::cin, line)) {
    std::istringstream in(line);
    std::ostringstream o;
    std::string cmd;
    in >> cmd;
    if (cmd == "FP") case_fp(in, o);
    else if (cmd == "RC") case_rc(in, o);
    else if (cmd == "TK") case_tk(in, o);
    else if (cmd == "LI") case_li(in, o);
    else o << "BADCMD";
    std::cout << o.str() << '\n';
    std::cout.flush();
  }
  return 0;
}
