// C05 component driver: runs the real lm::builder::AdjustCounts on a chain per order and prints what leaves it.
// One case per line (numbers hex):
//   ADJF <order> <thresholds t1,t2,..> <pruned word ids id,id,..|-> <vocab size> <fulls: w.w.w=count ...>
// fulls: the distinct order-N n-grams padded with <s>, NATURAL word order, already in suffix order (the input contract of
// AdjustCounts, see adjust_counts.hh), with their counts.
// Answer:  <stream 1> ; <stream 2> ; ... # <count,count_pruned> ... # <D1:D2:D3 as float bits> ...   |  THROW <what>
//   stream k: entries  w.w.w=adjusted=marked  in the order they leave the chain (highest order sorted here: its order is unspecified)
#include "lm/builder/adjust_counts.hh"
#include "lm/builder/payload.hh"
#include "lm/common/ngram_stream.hh"
#include "util/scoped.hh"
#include "util/stream/chain.hh"
#include "util/stream/multi_stream.hh"

#include <boost/ref.hpp>
#include <algorithm>
#include <cstdio>
#include <cstring>
#include <iostream>
#include <sstream>
#include <string>
#include <vector>

using namespace lm;
using namespace lm::builder;

namespace {
struct Full { std::vector<WordIndex> w; uint64_t count; };

class KeepCopy {
  public:
    KeepCopy() : size_(0) {}
    void Run(const util::stream::ChainPosition &position) {
      for (util::stream::Link link(position); link; ++link) {
        mem_.call_realloc(size_ + link->ValidSize() + 1);
        memcpy(static_cast<uint8_t*>(mem_.get()) + size_, link->Get(), link->ValidSize());
        size_ += link->ValidSize();
      }
    }
    uint8_t *Get() { return static_cast<uint8_t*>(mem_.get()); }
    std::size_t Size() const { return size_; }
  private:
    util::scoped_malloc mem_;
    std::size_t size_;
};

class WriteInput {
  public:
    explicit WriteInput(const std::vector<Full> *f) : f_(f) {}
    void Run(const util::stream::ChainPosition &position) {
      NGramStream<BuildingPayload> input(position);
      for (std::size_t i = 0; i < f_->size(); ++i, ++input) {
        std::copy((*f_)[i].w.begin(), (*f_)[i].w.end(), input->begin());
        input->Value().count = (*f_)[i].count;
      }
      input.Poison();
    }
  private:
    const std::vector<Full> *f_;
};

std::vector<std::string> Split(const std::string &s, char c) {
  std::vector<std::string> out; std::string cur; std::istringstream in(s);
  while (std::getline(in, cur, c)) out.push_back(cur);
  return out;
}
uint64_t Hex(const std::string &s) { return strtoull(s.c_str(), NULL, 16); }

std::string Handle(const std::string &line) {
  std::istringstream in(line);
  std::string tag, order_s, thr_s, pruned_s, vocab_s;
  in >> tag >> order_s >> thr_s >> pruned_s >> vocab_s;
  if (tag != "ADJF") return "BAD-CASE";
  const std::size_t order = Hex(order_s);
  std::vector<uint64_t> thresholds;
  { std::vector<std::string> t = Split(thr_s, ','); for (std::size_t i = 0; i < t.size(); ++i) thresholds.push_back(Hex(t[i])); }
  thresholds.resize(order, thresholds.empty() ? 0 : thresholds.back());
  std::vector<bool> prune_words;
  if (pruned_s != "-") {
    prune_words.resize(Hex(vocab_s), false);
    std::vector<std::string> t = Split(pruned_s, ',');
    for (std::size_t i = 0; i < t.size(); ++i) prune_words[Hex(t[i])] = true;
  }
  std::vector<Full> fulls;
  if (order == 1) {
    // corpus_count.cc Writer: "Add special words.  AdjustCounts is responsible if order != 1."
    Full unk; unk.w.push_back(0); unk.count = 0; fulls.push_back(unk);
    Full bos; bos.w.push_back(1); bos.count = 0; fulls.push_back(bos);
  }
  std::string item;
  while (in >> item) {
    std::size_t eq = item.find('=');
    Full f; f.count = Hex(item.substr(eq + 1));
    std::vector<std::string> w = Split(item.substr(0, eq), '.');
    for (std::size_t i = 0; i < w.size(); ++i) f.w.push_back(static_cast<WordIndex>(Hex(w[i])));
    if (f.w.size() != order) return "BAD-CASE";
    fulls.push_back(f);
  }
  std::vector<KeepCopy> outputs(order);
  std::vector<uint64_t> counts, counts_pruned;
  std::vector<Discount> discounts;
  std::string thrown;
  {
    util::stream::ChainConfig config;
    config.block_count = 2;
    util::stream::Chains chains(order);
    for (std::size_t i = 0; i < order; ++i) {
      config.entry_size = NGram<BuildingPayload>::TotalSize(i + 1);
      // small blocks on purpose: several blocks per stream, so that CollapseStream's and the streams' block handling is exercised
      config.total_memory = config.entry_size * 2 * 7;
      chains.push_back(config);
    }
    WriteInput writer(&fulls);
    chains[order - 1] >> boost::ref(writer);
    util::stream::ChainPositions for_adjust(chains);
    for (std::size_t i = 0; i < order; ++i) chains[i] >> boost::ref(outputs[i]);
    chains >> util::stream::kRecycle;
    DiscountConfig discount_config;
    discount_config.fallback.amount[0] = 0.0; discount_config.fallback.amount[1] = 0.5;
    discount_config.fallback.amount[2] = 1.0; discount_config.fallback.amount[3] = 1.5;
    discount_config.bad_action = SILENT;
    try {
      AdjustCounts(thresholds, counts, counts_pruned, prune_words, discount_config, discounts).Run(for_adjust);
    } catch (const std::exception &e) {
      thrown = e.what();
    }
  }
  if (!thrown.empty()) return "THROW " + thrown.substr(0, 200);
  std::ostringstream out;
  for (std::size_t k = 1; k <= order; ++k) {
    if (k > 1) out << " ; ";
    const std::size_t rec = NGram<BuildingPayload>::TotalSize(k);
    std::vector<std::string> lines;
    for (std::size_t off = 0; off + rec <= outputs[k - 1].Size(); off += rec) {
      NGram<BuildingPayload> g(outputs[k - 1].Get() + off, k);
      std::ostringstream e;
      for (const WordIndex *w = g.begin(); w != g.end(); ++w) { if (w != g.begin()) e << '.'; e << std::hex << *w; }
      e << '=' << std::hex << g.Value().UnmarkedCount() << '=' << (g.Value().IsMarked() ? 1 : 0);
      lines.push_back(e.str());
    }
    if (k == order && order > 1) std::sort(lines.begin(), lines.end());
    for (std::size_t i = 0; i < lines.size(); ++i) { if (i) out << ' '; out << lines[i]; }
  }
  out << " #";
  for (std::size_t i = 0; i < counts.size(); ++i) out << ' ' << std::hex << counts[i] << ',' << counts_pruned[i];
  out << " #";
  for (std::size_t i = 0; i < discounts.size(); ++i) {
    out << ' ';
    for (unsigned j = 1; j <= 3; ++j) { uint32_t bits; memcpy(&bits, &discounts[i].amount[j], 4); if (j > 1) out << ':'; out << std::hex << bits; }
  }
  return out.str();
}
} // namespace

int main() {
  std::string line;
  while (std::getline(std::cin, line)) std::cout << Handle(line) << std::endl;
  return 0;
}
