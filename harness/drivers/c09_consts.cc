// C09 translator step: prints, from the REAL lm/binary_format.cc (its anonymous namespace is visible because
// the file is included), the constants the Coq model of the header uses.  Output = the body of coq/Gen/BinaryFormatConsts.v.
#include "lm/binary_format.cc"

#include <cstddef>
#include <cstdio>
#include <cstring>
#include <vector>

namespace {
void List(const char *name, const unsigned char *p, std::size_t n) {
  std::printf("Definition %s : list nat :=\n  [", name);
  for (std::size_t i = 0; i < n; ++i) std::printf("%s%u", i ? (i % 24 == 0 ? ";\n   " : "; ") : "", (unsigned)p[i]);
  std::printf("].\n");
}
}  // namespace

int main() {
  using namespace lm::ngram;
  Sanity ref = Sanity();
  ref.SetToReference();
  std::printf("Definition sanity_size : nat := %zu.\n", sizeof(Sanity));
  List("ref_sanity", reinterpret_cast<const unsigned char *>(&ref), sizeof(Sanity));
  List("magic_incomplete", reinterpret_cast<const unsigned char *>(kMagicIncomplete), std::strlen(kMagicIncomplete));
  std::printf("Definition fixed_size : nat := %zu.\n", sizeof(FixedWidthParameters));
  std::printf("Definition off_order : nat := %zu.\n", offsetof(FixedWidthParameters, order));
  std::printf("Definition off_probing_multiplier : nat := %zu.\n", offsetof(FixedWidthParameters, probing_multiplier));
  std::printf("Definition off_model_type : nat := %zu.\n", offsetof(FixedWidthParameters, model_type));
  std::printf("Definition off_has_vocabulary : nat := %zu.\n", offsetof(FixedWidthParameters, has_vocabulary));
  std::printf("Definition off_search_version : nat := %zu.\n", offsetof(FixedWidthParameters, search_version));
  std::printf("Definition max_order : nat := %d.\n", KENLM_MAX_ORDER);
  // TotalHeaderSize for every order, so that the model's align8 formula is checked against the code's
  std::printf("Definition total_header_sizes : list nat := [");
  for (unsigned o = 0; o <= KENLM_MAX_ORDER; ++o) std::printf("%s%zu", o ? "; " : "", TotalHeaderSize(o));
  std::printf("].\n");
  // what strncpy(base, kMagicIncomplete, header_size) leaves in a zeroed header area, for the largest header
  std::vector<char> area(TotalHeaderSize(KENLM_MAX_ORDER), 0);
  strncpy(&area[0], kMagicIncomplete, area.size());
  std::size_t last = 0;
  for (std::size_t i = 0; i < area.size(); ++i) if (area[i]) last = i + 1;
  std::printf("Definition incomplete_image_nonzero_length : nat := %zu.\n", last);
  return 0;
}
