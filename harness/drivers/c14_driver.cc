// C14 implementation driver: the typed model classes and, next to them, the untyped virtual interface
// (lm::ngram::LoadVirtual -> lm::base::Model) on the same file.
//   c14_driver <model file> <type 0..5 | auto>
//   c14_driver --build <arpa> <type 0..5> <binary out> [novocab]   (typed constructor with config.write_mmap)
// stdin, one case per line:   <bos 0|1> <word hex>*        ("-" alone = no words, "e" = the empty word)
// stdout, one line per case:  <id>:<prob bits>:<ngram_length> ... (one per word, then one for </s>) | virt=<ok|MISMATCH ...>
// The typed chain is FullScore with the class selected by <type> (auto = the header's type for a binary
// file, PROBING for ARPA text).  The virtual chain is BaseFullScore/BaseScore/BaseVocabulary().Index and
// BaseFullScoreForgotState on the object LoadVirtual returns; every field must be bit-identical.
#include "lm/model.hh"
#include "lm/virtual_interface.hh"
#include "lm/binary_format.hh"
#include <cstdio>
#include <cstring>
#include <iostream>
#include <sstream>
#include <string>
#include <vector>
#include <stdint.h>

using namespace lm::ngram;

static uint32_t bits(float f) { uint32_t u; std::memcpy(&u, &f, 4); return u; }

static std::string unhex(const std::string &h) {
  std::string out;
  for (size_t i = 0; i + 1 < h.size(); i += 2) out.push_back((char)std::strtol(h.substr(i, 2).c_str(), 0, 16));
  return out;
}

// states are compared on their defined part: length, words[0,length), backoff bits[0,length)
static bool SameState(const void *raw, const State &b) {
  State a; std::memcpy(&a, raw, sizeof(State));
  if (a.length != b.length) return false;
  for (unsigned i = 0; i < a.length; ++i) if (a.words[i] != b.words[i] || bits(a.backoff[i]) != bits(b.backoff[i])) return false;
  return true;
}

template <class M> int Run(const char *file, ModelType type) {
  Config config;
  config.messages = NULL;
  config.arpa_complain = Config::NONE;
  M typed(file, config);
  lm::base::Model *virt = LoadVirtual(file, config, type);
  std::printf("READY order=%u virt_order=%u state_size=%zu typed_state_size=%zu\n", (unsigned)typed.Order(), (unsigned)virt->Order(),
              virt->StateSize(), sizeof(typename M::State));
  std::string line;
  while (std::getline(std::cin, line)) {
    std::istringstream in(line);
    int bos; in >> bos;
    std::vector<std::string> words; std::string w;
    while (in >> w) if (w != "-") words.push_back(w == "e" ? std::string() : unhex(w));   // "e" = the empty word
    typename M::State st = bos ? typed.BeginSentenceState() : typed.NullContextState(), out;
    // raw memory for the virtual interface, as a decoder would hold it
    std::vector<char> vs(virt->StateSize()), vo(virt->StateSize()), vf(virt->StateSize());
    if (bos) virt->BeginSentenceWrite(&vs[0]); else virt->NullContextWrite(&vs[0]);
    std::ostringstream o, mism;
    std::vector<lm::WordIndex> history;   // newest first
    if (bos) history.push_back(typed.GetVocabulary().BeginSentence());
    if (!SameState(&vs[0], st)) mism << " start-state";
    for (size_t i = 0; i <= words.size(); ++i) {
      lm::WordIndex id = i < words.size() ? typed.GetVocabulary().Index(words[i]) : typed.GetVocabulary().EndSentence();
      lm::WordIndex vid = i < words.size() ? virt->BaseVocabulary().Index(StringPiece(words[i])) : virt->BaseVocabulary().EndSentence();
      if (i < words.size() && virt->BaseVocabulary().Index(words[i]) != id) mism << " Index(std::string)@" << i;
      if (i < words.size() && virt->BaseVocabulary().Index(words[i].c_str()) != typed.GetVocabulary().Index(words[i].c_str())) mism << " Index(char*)@" << i;
      // the three overloads name the same word when it holds no NUL byte (the C-string overload is the Python module's)
      if (i < words.size() && words[i].find('\0') == std::string::npos &&
          (virt->BaseVocabulary().Index(words[i].c_str()) != id || typed.GetVocabulary().Index(words[i].c_str()) != id)) mism << " Index(char*)!=Index(StringPiece)@" << i;
      if (vid != id) mism << " Index@" << i;
      lm::FullScoreReturn r = typed.FullScore(st, id, out);
      lm::FullScoreReturn v = virt->BaseFullScore(&vs[0], vid, &vo[0]);
      float vscore = virt->BaseScore(&vs[0], vid, &vf[0]);
      float tscore = typed.Score(st, id, out);
      if (bits(r.prob) != bits(v.prob) || r.ngram_length != v.ngram_length || r.independent_left != v.independent_left ||
          r.extend_left != v.extend_left || bits(r.rest) != bits(v.rest)) mism << " BaseFullScore@" << i;
      if (bits(vscore) != bits(r.prob) || bits(tscore) != bits(r.prob)) mism << " BaseScore@" << i;
      if (!SameState(&vo[0], out) || !SameState(&vf[0], out)) mism << " out-state@" << i;
      // forgotten state
      typename M::State fo; std::vector<char> vfo(virt->StateSize());
      const lm::WordIndex *hb = history.empty() ? NULL : &history[0];
      lm::FullScoreReturn rf = typed.FullScoreForgotState(hb, hb + history.size(), id, fo);
      lm::FullScoreReturn vfr = virt->BaseFullScoreForgotState(hb, hb + history.size(), vid, &vfo[0]);
      if (bits(rf.prob) != bits(vfr.prob) || rf.ngram_length != vfr.ngram_length || !SameState(&vfo[0], fo)) mism << " ForgotState@" << i;
      o << (i ? " " : "") << id << ":" << std::hex << bits(r.prob) << std::dec << ":" << (unsigned)r.ngram_length;
      st = out; vs = vo;
      history.insert(history.begin(), id);
    }
    std::string m = mism.str();
    std::printf("%s | virt=%s\n", o.str().c_str(), m.empty() ? "ok" : ("MISMATCH" + m).c_str());
    std::fflush(stdout);
  }
  delete virt;
  return 0;
}

static bool g_include_vocab = true;
template <class M> int Build(const char *arpa, const char *out) {
  Config config;
  config.include_vocab = g_include_vocab;
  config.messages = NULL;
  config.arpa_complain = Config::NONE;
  config.write_mmap = out;
  config.rest_function = Config::REST_MAX;
  std::string tmp(out); tmp += ".tmp";
  config.temporary_directory_prefix = tmp;
  M m(arpa, config);
  return 0;
}

int main(int argc, char **argv) {
  if (argc < 3) return 2;
  try {
    if (!std::strcmp(argv[1], "--build") && (argc == 5 || argc == 6)) {   // --build <arpa> <type> <out> [novocab]
      if (argc == 6 && !std::strcmp(argv[5], "novocab")) g_include_vocab = false;   // Config::include_vocab = false: no strings after the image
      switch (std::atoi(argv[3])) {
        case 0: return Build<ProbingModel>(argv[2], argv[4]);
        case 1: return Build<RestProbingModel>(argv[2], argv[4]);
        case 2: return Build<TrieModel>(argv[2], argv[4]);
        case 3: return Build<QuantTrieModel>(argv[2], argv[4]);
        case 4: return Build<ArrayTrieModel>(argv[2], argv[4]);
        case 5: return Build<QuantArrayTrieModel>(argv[2], argv[4]);
      }
      return 2;
    }
    ModelType type = PROBING;
    if (!std::strcmp(argv[2], "auto")) {
      RecognizeBinary(argv[1], type);
    } else {
      type = (ModelType)std::atoi(argv[2]);
    }
    switch (type) {
      case PROBING: return Run<ProbingModel>(argv[1], type);
      case REST_PROBING: return Run<RestProbingModel>(argv[1], type);
      case TRIE: return Run<TrieModel>(argv[1], type);
      case QUANT_TRIE: return Run<QuantTrieModel>(argv[1], type);
      case ARRAY_TRIE: return Run<ArrayTrieModel>(argv[1], type);
      case QUANT_ARRAY_TRIE: return Run<QuantArrayTrieModel>(argv[1], type);
    }
  } catch (const std::exception &e) {
    std::printf("LOAD-EXCEPTION %s\n", e.what());
    return 3;
  }
  return 2;
}
