// One-off search (result committed as corpus/C19/double_rounding_hazards.txt, regenerate with
//   g++ -O2 -std=c++11 -I/repo harness/drivers/c19_hazards.cc -o /var/tmp/c19_hazards -L<build>/lib -lkenlm_util -lpthread && /var/tmp/c19_hazards 16 256 )
// for the floats on which "parse the decimal text as double, then narrow to float" is most likely to differ from one
// correctly rounded decimal->float conversion: all finite float bit patterns f whose shortest decimal text
// (util::ToString(float)), converted to the nearest double d (glibc strtod, correctly rounded), lies within K double-ulps of
// the midpoint between f and one of its neighbours.  Such a d rounds to float through a (near-)tie, so any second
// rounding, wrong tie rule or sloppy last-bit handling in a float reader shows here first.
// Texts that ARE the midpoint exactly (integers >= 2^25 such as 33556270: the shortest digits of a float can be a tie that
// round-half-even resolves back to it) are a different class -- there one rounding and two roundings agree; they are
// recognised with an 80-bit strtold and only every 20000th of the 4.6 million is kept (marked "tie").
// usage: c19_hazards <threads> <K>      prints "<float bits hex> <text> <distance in double ulps>" sorted by bits
#include "util/float_to_string.hh"
#include <algorithm>
#include <cmath>
#include <cstdio>
#include <cstdlib>
#include <cstring>
#include <string>
#include <thread>
#include <vector>
#include <stdint.h>

struct Hit { uint32_t bits; std::string text; double dist; };

static void scan(unsigned t, unsigned threads, double K, std::vector<Hit> *out) {
  char buf[64];
  for (uint64_t b = t; b < (1ULL << 31); b += threads) {          // positive patterns; the negative ones mirror them
    uint32_t bits = (uint32_t)b;
    if ((bits & 0x7f800000u) == 0x7f800000u) continue;             // inf / NaN
    float f; memcpy(&f, &bits, 4);
    char *e = util::ToString(f, buf); *e = 0;
    double d = strtod(buf, NULL);
    uint32_t upb = bits + 1, dnb = bits ? bits - 1 : bits;
    float up, dn; memcpy(&up, &upb, 4); memcpy(&dn, &dnb, 4);
    double ulp = std::nextafter(d, INFINITY) - d;
    double best = 1e300;
    if ((upb & 0x7f800000u) != 0x7f800000u) { double m = ((double)f + (double)up) / 2; best = std::min(best, std::fabs(d - m) / ulp); }
    if (bits) { double m = ((double)f + (double)dn) / 2; best = std::min(best, std::fabs(d - m) / ulp); }
    if (best <= K) {
      long double ld = strtold(buf, NULL);
      bool tie = (upb & 0x7f800000u) != 0x7f800000u && ld == ((long double)f + (long double)up) / 2;
      if (bits && ld == ((long double)f + (long double)dn) / 2) tie = true;
      if (tie && (bits % 20000) != 0) continue;
      Hit h; h.bits = bits; h.text = buf; h.dist = tie ? -1 : best; out->push_back(h);
    }
  }
}

int main(int argc, char **argv) {
  unsigned threads = argc > 1 ? atoi(argv[1]) : 8;
  double K = argc > 2 ? atof(argv[2]) : 8;
  std::vector<std::vector<Hit> > parts(threads);
  std::vector<std::thread> ts;
  for (unsigned t = 0; t < threads; ++t) ts.push_back(std::thread(scan, t, threads, K, &parts[t]));
  for (auto &t : ts) t.join();
  std::vector<Hit> all;
  for (auto &p : parts) all.insert(all.end(), p.begin(), p.end());
  std::sort(all.begin(), all.end(), [](const Hit &a, const Hit &b) { return a.bits < b.bits; });
  for (auto &h : all) { if (h.dist < 0) printf("%08x %s tie\n", h.bits, h.text.c_str()); else printf("%08x %s %.3f\n", h.bits, h.text.c_str(), h.dist); }
  return 0;
}
