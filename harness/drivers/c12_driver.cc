// C12 implementation driver: the real lm::Controller / ThreadBatch / FilterWorker / OutputWorker (lm/filter/thread.hh)
// and the real InputBuffer / MultipleOutputBuffer (lm/filter/format.hh), with real threads, driven with a table filter
// (what the filter does with a line is part of the case) and a recording output.  Seeded jitter at the PCQueue
// scheduling points perturbs the interleaving.  One case per line, one result line per case:
//   CTL <threads> <batch_size> <jitter_seed> <token>*      token = L<id>:<len>:<calls> | E | F
//     calls = A (output.AddNGram) | o1.o2... (output.SingleAddNGram(o, line) in this order) | - (nothing)
//     E = EndLength (filter.Flush(); then the reader writes a section mark), F = filter.Flush() only
//   -> "ok <events>"   events: A<id> | <o>:<id> | M       or  "HANG" (watchdog)
#include "sched/sched.hh"
#include "lm/filter/format.hh"
#include "lm/filter/thread.hh"
#include "lm/filter/wrapper.hh"

#include <cstring>
#include <iostream>
#include <sstream>
#include <thread>

namespace {
std::atomic<long> g_deadline_ms(0);
long now_ms() { return std::chrono::duration_cast<std::chrono::milliseconds>(std::chrono::steady_clock::now().time_since_epoch()).count(); }
// Progress-based: after the soft deadline a hang is reported only when every other thread has been asleep for 30 consecutive
// samples (3 s); on a loaded machine a slow run keeps a thread runnable and is waited for.
void watchdog() {
  pid_t self = procstate::ktid(), pid = getpid();
  int idle = 0;
  for (;;) {
    usleep(100000);
    long d = g_deadline_ms.load();
    if (!d) { idle = 0; continue; }
    long now = now_ms();
    if (now <= d) { idle = 0; continue; }
    idle = procstate::process_idle(pid, self) ? idle + 1 : 0;
    if (idle >= 30 || now > d + 900000) { std::cout << "HANG threads did not finish (deadlock)" << std::endl; _exit(3); }
  }
}

unsigned long line_id(const StringPiece &line) { return strtoul(std::string(line.data(), line.size()).c_str(), NULL, 10); }

struct Recorder {   // stands for MultipleARPAOutput / MultipleOutput<CountOutput>
  std::ostringstream o;
  void AddNGram(const StringPiece &line) { o << " A" << line_id(line); }
  void SingleAddNGram(size_t offset, const StringPiece &line) { o << ' ' << offset << ':' << line_id(line); }
  void Mark() { o << " M"; }
};

// A deterministic filter: like the real filters it decides from the *n-gram field* it is given (here: the leading number is the
// key into the table of calls) and passes the *line* to the output.
const std::vector<int> &lookup(const std::vector<std::vector<int> > &calls, const StringPiece &ngram) {
  static const std::vector<int> none;
  unsigned long id = line_id(ngram);
  return id < calls.size() ? calls[id] : none;
}
struct TableFilter {
  const std::vector<std::vector<int> > *calls;   // -1 = AddNGram (all)
  template <class Output> void AddNGram(const StringPiece &ngram, const StringPiece &line, Output &output) {
    const std::vector<int> &c = lookup(*calls, ngram);
    for (size_t i = 0; i < c.size(); ++i) { if (c[i] < 0) output.AddNGram(line); else output.SingleAddNGram(c[i], line); }
  }
  void Flush() const {}
};
// The same decisions, but computed through per-call scratch state held in the filter object, as vocab::Union::sets_,
// vocab::Multiple::sets_ and the phrase filters' hashes_ do.  Used as the backend of the real lm::ContextFilter (CTLC cases):
// every FilterWorker must work on its own copy.
struct ScratchTableFilter {
  const std::vector<std::vector<int> > *calls;
  std::vector<int> scratch_;
  template <class Output> void AddNGram(const StringPiece &ngram, const StringPiece &line, Output &output) {
    scratch_.clear();
    const std::vector<int> &c = lookup(*calls, ngram);
    for (size_t i = 0; i < c.size(); ++i) { scratch_.push_back(c[i]); for (volatile int spin = 0; spin < 40; ++spin) {} }
    for (size_t i = 0; i < scratch_.size(); ++i) { if (scratch_[i] < 0) output.AddNGram(line); else output.SingleAddNGram(scratch_[i], line); }
  }
  void Flush() const {}
};

struct Tok { char kind; unsigned long id; size_t len; };

// The reader: like util::FilePiece it hands out pointers into a window that it overwrites as it moves on, so anything the
// threaded path keeps must be its own copy.  Line text: "<id> n<TAB>xxx..." (n-gram field "<id> n": the context is "<id>").
template <class Ctl> void feed(Ctl &ctl, const std::vector<Tok> &toks, Recorder &out) {
  static char window[2][512];
  size_t turn = 0;
  for (size_t i = 0; i < toks.size(); ++i) {
    if (toks[i].kind == 'L') {
      char *w = window[turn ^= 1];
      int n = snprintf(w, 400, "%lu n", toks[i].id);
      size_t ngram_len = n, len = n;
      w[len++] = '\t';
      while (len < toks[i].len && len < 500) w[len++] = 'x';
      ctl.AddNGram(StringPiece(w, ngram_len), StringPiece(w, len), out);
      if (i % 2) memset(window[turn ^ 1], '9', 8);     // what lay in the other half of the window is gone
    } else if (toks[i].kind == 'E') { ctl.Flush(); out.Mark(); }
    else if (toks[i].kind == 'F') { ctl.Flush(); }
  }
}

std::string run_case(std::istringstream &in, bool context) {
  size_t threads, batch; uint64_t seed;
  in >> threads >> batch >> seed;
  std::vector<Tok> toks; std::vector<std::vector<int> > calls;
  std::string t;
  while (in >> t) {
    Tok k; k.kind = t[0]; k.id = 0; k.len = 0;
    if (t[0] == 'L') {
      size_t c1 = t.find(':'), c2 = t.find(':', c1 + 1);
      k.id = strtoul(t.substr(1, c1 - 1).c_str(), NULL, 10);
      k.len = strtoul(t.substr(c1 + 1, c2 - c1 - 1).c_str(), NULL, 10);
      std::string cs = t.substr(c2 + 1);
      std::vector<int> v;
      if (cs == "A") v.push_back(-1);
      else if (cs != "-") { std::istringstream s(cs); std::string p; while (std::getline(s, p, '.')) v.push_back(atoi(p.c_str())); }
      if (calls.size() <= k.id) calls.resize(k.id + 1);
      calls[k.id] = v;
    }
    toks.push_back(k);
  }
  ksched::Scheduler::Get().Reset(0);
  ksched::Scheduler::Get().SetJitter(seed);
  Recorder out;
  if (context) {
    ScratchTableFilter backend; backend.calls = &calls;
    lm::ContextFilter<ScratchTableFilter> filter(backend);
    lm::Controller<lm::ContextFilter<ScratchTableFilter>, lm::MultipleOutputBuffer, Recorder> ctl(batch, threads * 2, threads, filter, out);
    feed(ctl, toks, out);
  } else {
    TableFilter filter; filter.calls = &calls;
    lm::Controller<TableFilter, lm::MultipleOutputBuffer, Recorder> ctl(batch, threads * 2, threads, filter, out);
    feed(ctl, toks, out);
  }   // ~Controller: poisons and joins both pools
  ksched::Scheduler::Get().SetJitter(0);
  return "ok" + out.o.str();
}
}  // namespace

int main() {
  std::ios::sync_with_stdio(false);
  ksched::Scheduler::Get().Install();
  std::thread(watchdog).detach();
  std::string line;
  while (std::getline(std::cin, line)) {
    std::istringstream in(line); std::string kind; in >> kind;
    std::string res;
    g_deadline_ms = now_ms() + 4000;
    try { res = kind == "CTL" ? run_case(in, false) : kind == "CTLC" ? run_case(in, true) : "bad-case"; } catch (const std::exception &e) { res = std::string("exception ") + e.what(); }
    g_deadline_ms = 0;
    std::cout << res << std::endl;
  }
  return 0;
}
