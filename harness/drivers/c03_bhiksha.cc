// C03: drives the real trie::ArrayBhiksha (lm/bhiksha.hh/.cc) as BitPackedMiddle does.
//   BH <configured bits> <v0> <v1> ...   -> "<inline bits> <array count> b0:e0 b1:e1 ..."   (hex)
#include "lm/bhiksha.hh"
#include "lm/config.hh"
#include <cstdlib>
#include <cstring>
#include <iostream>
#include <sstream>
#include <vector>
int main() {
  std::string line;
  while (std::getline(std::cin, line)) {
    std::istringstream in(line); std::string cmd, x; in >> cmd;
    std::ostringstream o;
    if (cmd == "BH") {
      in >> x; lm::ngram::Config config; config.pointer_bhiksha_bits = strtoul(x.c_str(), NULL, 16);
      std::vector<uint64_t> vs; while (in >> x) vs.push_back(strtoull(x.c_str(), NULL, 16));
      uint64_t max_offset = vs.size(), max_next = vs.back();
      uint64_t size = lm::ngram::trie::ArrayBhiksha::Size(max_offset, max_next, config);
      const size_t guard = 32;
      std::vector<unsigned char> mem(size + guard, 0);
      for (size_t i = 0; i < guard; ++i) mem[size + i] = 0x5a;
      try {
        lm::ngram::trie::ArrayBhiksha bh(&mem[0], max_offset, max_next, config);
        uint8_t tb = bh.InlineBits();
        std::vector<unsigned char> rec((vs.size() * tb + 7) / 8 + 16, 0);
        for (size_t i = 0; i < vs.size(); ++i) bh.WriteNext(&rec[0], i * tb, i, vs[i]);
        bh.FinishedLoading(config);
        o << std::hex << (unsigned)tb << ' ' << ((size - 7) / 8 - 1);
        for (size_t i = 0; i + 1 < vs.size(); ++i) {
          lm::ngram::trie::NodeRange r;
          bh.ReadNext(&rec[0], i * tb, i, tb, r);
          o << ' ' << std::hex << r.begin << ':' << r.end;
        }
        for (size_t i = 0; i < guard; ++i) if (mem[size + i] != 0x5a) { o << " GUARD-OVERWRITTEN"; break; }
      } catch (const std::exception &e) { o << "exception"; }
    } else o << "?";
    std::cout << o.str() << '\n';
  }
}
