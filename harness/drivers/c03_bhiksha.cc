// C03: drives the real trie::ArrayBhiksha (lm/bhiksha.hh/.cc) as BitPackedMiddle does.
//   BH <configured bits> <v0> <v1> ...   -> "<inline bits> <array count> b0:e0 b1:e1 ..."   (hex)
#include "lm/bhiksha.hh"
#include "lm/config.hh"
#include "lm/quantize.hh"
#include "util/bit_packing.hh"
#include <cstdlib>
#include <cstring>
#include <iostream>
#include <sstream>
#include <vector>
int main() {
  std::string line;
  while (std::getline(std::cin, line)) {
    std::istringstream in(line); std::string cmd, x; in >> cmd;
    std::ostringstream o;
    if (cmd == "BH") {
      in >> x; lm::ngram::Config config; config.pointer_bhiksha_bits = strtoul(x.c_str(), NULL, 16);
      std::vector<uint64_t> vs; while (in >> x) vs.push_back(strtoull(x.c_str(), NULL, 16));
      uint64_t max_offset = vs.size(), max_next = vs.back();
      uint64_t size = lm::ngram::trie::ArrayBhiksha::Size(max_offset, max_next, config);
      const size_t guard = 32;
      std::vector<unsigned char> mem(size + guard, 0);
      for (size_t i = 0; i < guard; ++i) mem[size + i] = 0x5a;
      try {
        lm::ngram::trie::ArrayBhiksha bh(&mem[0], max_offset, max_next, config);
        uint8_t tb = bh.InlineBits();
        std::vector<unsigned char> rec((vs.size() * tb + 7) / 8 + 16, 0);
        for (size_t i = 0; i < vs.size(); ++i) bh.WriteNext(&rec[0], i * tb, i, vs[i]);
        bh.FinishedLoading(config);
        o << std::hex << (unsigned)tb << ' ' << ((size - 7) / 8 - 1);
        for (size_t i = 0; i + 1 < vs.size(); ++i) {
          lm::ngram::trie::NodeRange r;
          bh.ReadNext(&rec[0], i * tb, i, tb, r);
          o << ' ' << std::hex << r.begin << ':' << r.end;
        }
        for (size_t i = 0; i < guard; ++i) if (mem[size + i] != 0x5a) { o << " GUARD-OVERWRITTEN"; break; }
      } catch (const std::exception &e) { o << "exception"; }
    } else if (cmd == "QZ") {
      // lm/quantize.cc: QZ <prob bits> <backoff bits> ; <probs...> ; <non-zero backoffs...> ; <p:b test pairs...>   (values in units of 1/64, signed decimal)
      // -> the two tables after Train(2, ...) and, for each pair written through MiddlePointer, what reads back (float bit patterns)
      std::string pb, bb; in >> pb >> bb;
      lm::ngram::Config config; config.prob_bits = atoi(pb.c_str()); config.backoff_bits = atoi(bb.c_str());
      std::vector<float> probs, backoffs; std::vector<std::pair<float, float> > tests;
      int part = -1;
      while (in >> x) {
        if (x == ";") { ++part; continue; }
        if (part == 0) probs.push_back(atof(x.c_str()) / 64.0f);
        else if (part == 1) backoffs.push_back(atof(x.c_str()) / 64.0f);
        else { size_t c = x.find(':'); tests.push_back(std::make_pair((float)(atof(x.substr(0, c).c_str()) / 64.0), (float)(atof(x.substr(c + 1).c_str()) / 64.0))); }
      }
      std::vector<unsigned char> mem(lm::ngram::SeparatelyQuantize::Size(3, config) + 64, 0);
      lm::ngram::SeparatelyQuantize q; q.SetupMemory(&mem[0], 3, config);
      q.Train(2, probs, backoffs);
      union { float f; uint32_t i; } u;
      auto tabs = q.GetTables(0);
      o << "P";
      for (size_t i = 0; i < (1ULL << config.prob_bits); ++i) { u.f = tabs[0].Decode(i); o << ' ' << std::hex << u.i; }
      o << " B";
      for (size_t i = 0; i < (1ULL << config.backoff_bits); ++i) { u.f = tabs[1].Decode(i); o << ' ' << std::hex << u.i; }
      o << " R";
      for (size_t t = 0; t < tests.size(); ++t) {
        unsigned char rec[16]; memset(rec, 0, sizeof rec);
        lm::ngram::SeparatelyQuantize::MiddlePointer mp(q, 0, util::BitAddress(rec, 0));
        mp.Write(tests[t].first, tests[t].second);
        // the record is written through uint64_t* and read through uint32_t* (as over kenlm's mmap'd memory, in different phases);
        // inlined into one function that is a strict-aliasing hazard, so make the compiler forget what it knows about rec
        asm volatile("" : : "r"(rec) : "memory");
        u.f = mp.Prob(); o << ' ' << std::hex << u.i; u.f = mp.Backoff(); o << ':' << std::hex << u.i;
      }
    } else o << "?";
    std::cout << o.str() << '\n';
  }
}
