// Prints the 256-entry delimiter tables of the current sources (util::kSpaces from util/spaces.cc,
// lm::kARPASpaces from lm/read_arpa.cc) as two lines of 256 '0'/'1' characters.  Used by the
// regenerate() step of C14 and C10 to rewrite coq/Gen/Spaces.v on every run.
#include "util/spaces.hh"
#include "lm/read_arpa.hh"
#include <cstdio>
int main() {
  for (int i = 0; i < 256; ++i) std::putchar(util::kSpaces[i] ? '1' : '0');
  std::putchar('\n');
  for (int i = 0; i < 256; ++i) std::putchar(lm::kARPASpaces[i] ? '1' : '0');
  std::putchar('\n');
  return 0;
}
