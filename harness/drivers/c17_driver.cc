// C17 implementation driver: exercises the real util::PCQueue (serialised under a chosen schedule through the
// KPU_KENLM_VERIF scheduling points, or free-running with seeded jitter), util::stream::Chain and util::ThreadPool.
// One case per input line, one result line per case.  Protocol: see harness/py/props/c17.py.
#include "sched/sched.hh"
#include "util/pcqueue.hh"
#include "util/thread_pool.hh"
#include "util/stream/chain.hh"
#include "util/stream/stream.hh"
#include "util/stream/io.hh"
#include "util/file.hh"
#include "util/stream/config.hh"

#include <boost/thread/thread.hpp>
#include <algorithm>
#include <cstring>
#include <iostream>
#include <sstream>
#include <thread>
#include <stdexcept>
#include <signal.h>
#include <time.h>
#include <fcntl.h>
#include <sys/wait.h>

using ksched::Scheduler;

namespace {

std::atomic<long> g_deadline_ms(0);   // 0 = no case running
std::atomic<long> g_cpu0_ms(0);       // process CPU time when the deadline was armed
long cpu_ms() { struct timespec ts; clock_gettime(CLOCK_PROCESS_CPUTIME_ID, &ts); return ts.tv_sec * 1000L + ts.tv_nsec / 1000000L; }
std::string g_case;
long now_ms() { return std::chrono::duration_cast<std::chrono::milliseconds>(std::chrono::steady_clock::now().time_since_epoch()).count(); }
// Progress-based watchdog: after the (soft) deadline a hang is reported only when every other thread of the process has been
// asleep for 30 consecutive samples (3 s); a run that is merely slow on a loaded machine keeps a thread runnable.
void watchdog() {
  pid_t self = procstate::ktid(), pid = getpid();
  int idle = 0;
  for (;;) {
    usleep(100000);
    long d = g_deadline_ms.load();
    if (!d) { idle = 0; continue; }
    long now = now_ms();
    if (cpu_ms() - g_cpu0_ms.load() > 60000) {   // load-independent: a minute of CPU inside one case / one run = threads spin without finishing
      std::cout << "HANG watchdog: livelock: 60 s of CPU time consumed without finishing" << std::endl; _exit(3);
    }
    if (now <= d) { idle = 0; continue; }
    idle = procstate::process_idle(pid, self) ? idle + 1 : 0;
    if (idle >= 30 || now > d + 900000) {
      std::cout << "HANG watchdog: " << (idle >= 30 ? "every thread asleep for 3 s after the deadline" : "still running 15 min after the deadline") << ": threads did not finish" << std::endl;
      _exit(3);
    }
  }
}
// Signals: a no-op handler installed WITHOUT SA_RESTART, so a thread parked in sem_wait gets EINTR.  The storm thread sends
// process-directed SIGUSR1 (main and watchdog block it, so it lands on a worker thread) every ~150 us while enabled.
void noop_handler(int) {}
std::atomic<bool> g_storm(false);
void storm() {
  sigset_t m; sigemptyset(&m); sigaddset(&m, SIGUSR1); pthread_sigmask(SIG_BLOCK, &m, NULL);
  for (;;) { if (g_storm.load()) { kill(getpid(), SIGUSR1); usleep(150); } else usleep(2000); }
}
struct Storm { explicit Storm(bool on) { g_storm = on; } ~Storm() { g_storm = false; } };
struct Deadline { explicit Deadline(long s) { g_cpu0_ms = cpu_ms(); g_deadline_ms = now_ms() + s * 1000; } ~Deadline() { g_deadline_ms = 0; } };

std::vector<std::string> split(const std::string &s, char c) {
  std::vector<std::string> r; std::string cur;
  for (size_t i = 0; i < s.size(); ++i) { if (s[i] == c) { r.push_back(cur); cur.clear(); } else cur += s[i]; }
  r.push_back(cur); return r;
}
std::vector<int> ints(const std::string &s) {
  std::vector<int> r; if (s.empty() || s == "-") return r;
  std::vector<std::string> f = split(s, ',');
  for (size_t i = 0; i < f.size(); ++i) r.push_back(atoi(f[i].c_str()));
  return r;
}

// ------------------------------------------------------------------------------------------------
struct PcqConfig { int k; std::vector<std::vector<int> > items; std::vector<int> counts; };
struct RunResult {
  std::string status;                 // "" = completed
  std::vector<ksched::Step> trace;
  std::vector<std::vector<int> > got; // per consumer
  // snapshot for explicit schedules
  bool snapped; size_t snap_steps; std::vector<std::vector<int> > snap_got; std::string snap_status; bool snap_fin;
  RunResult() : snapped(false), snap_steps(0), snap_fin(false) {}
};

std::string tidname(const PcqConfig &c, int t) {
  char b[32]; if (t < (int)c.items.size()) snprintf(b, sizeof b, "p%d", t); else snprintf(b, sizeof b, "c%d", t - (int)c.items.size()); return b;
}

struct DefaultPolicy : Scheduler::Policy {   // non-preemptive: keep running the same thread while it is enabled, else the lowest
  int Choose(const std::vector<int> &en, int prev, size_t) { return std::find(en.begin(), en.end(), prev) != en.end() ? prev : en[0]; }
};
struct PrefixPolicy : Scheduler::Policy {    // forced prefix, then default
  std::vector<int> prefix; DefaultPolicy d;
  int Choose(const std::vector<int> &en, int prev, size_t step) {
    if (step < prefix.size() && std::find(en.begin(), en.end(), prefix[step]) != en.end()) return prefix[step];
    return d.Choose(en, prev, step);
  }
};
struct RandPolicy : Scheduler::Policy {
  uint64_t s; explicit RandPolicy(uint64_t seed) : s(seed) {}
  int Choose(const std::vector<int> &en, int prev, size_t) {
    s = ksched::mix(s);
    if ((s & 1) && std::find(en.begin(), en.end(), prev) != en.end()) return prev;
    return en[(s >> 8) % en.size()];
  }
};
struct PctPolicy : Scheduler::Policy {       // PCT: random priorities, d priority change points
  std::vector<long> prio; std::vector<size_t> change; uint64_t s; long low;
  PctPolicy(uint64_t seed, int nthreads, int d, size_t maxsteps) : s(seed), low(-1) {
    for (int i = 0; i < nthreads; ++i) { s = ksched::mix(s); prio.push_back(1000 + (long)(s % 1000000)); }
    for (int i = 0; i < d; ++i) { s = ksched::mix(s); change.push_back(s % (maxsteps ? maxsteps : 1)); }
  }
  int Choose(const std::vector<int> &en, int, size_t step) {
    int best = en[0];
    for (size_t i = 0; i < en.size(); ++i) if (prio[en[i]] > prio[best]) best = en[i];
    for (size_t i = 0; i < change.size(); ++i) if (change[i] == step) prio[best] = low--;
    best = en[0];
    for (size_t i = 0; i < en.size(); ++i) if (prio[en[i]] > prio[best]) best = en[i];
    return best;
  }
};

RunResult *g_cur = 0;
struct ExplicitPolicy : Scheduler::Policy {  // follow the list exactly; on a non-enabled choice or at its end: snapshot, then default
  std::vector<int> sched; DefaultPolicy d; const PcqConfig *cfg;
  int Choose(const std::vector<int> &en, int prev, size_t step) {
    RunResult &r = *g_cur;
    if (!r.snapped) {
      if (step >= sched.size()) { r.snapped = true; r.snap_steps = step; r.snap_got = r.got; r.snap_status = "ok"; }
      else if (std::find(en.begin(), en.end(), sched[step]) == en.end()) {
        r.snapped = true; r.snap_steps = step + 1; r.snap_got = r.got;
        char b[64]; snprintf(b, sizeof b, "notenabled@%zu:%s", step, tidname(*cfg, sched[step]).c_str()); r.snap_status = b;
      } else return sched[step];
    }
    return d.Choose(en, prev, step);
  }
};

void run_pcq(const PcqConfig &cfg, Scheduler::Policy &policy, RunResult &res) {
  int P = cfg.items.size(), C = cfg.counts.size();
  Scheduler &S = Scheduler::Get();
  g_cpu0_ms = cpu_ms(); g_deadline_ms = now_ms() + 30000;   // per run (a DFS case performs many runs)
  S.Reset(P + C);
  res.got.assign(C, std::vector<int>());
  g_cur = &res;
  {
    util::PCQueue<int> *qp = new util::PCQueue<int>(cfg.k);
    util::PCQueue<int> &q = *qp;
    std::vector<std::thread> th;
    for (int i = 0; i < P; ++i) th.push_back(std::thread([&, i] {
      S.ThreadBegin(i);
      for (size_t n = 0; n < cfg.items[i].size(); ++n) q.Produce(cfg.items[i][n]);
      S.ThreadEnd(); }));
    for (int j = 0; j < C; ++j) th.push_back(std::thread([&, j] {
      S.ThreadBegin(P + j);
      for (int n = 0; n < cfg.counts[j]; ++n) { int v = -1; q.Consume(v); res.got[j].push_back(v); }
      S.ThreadEnd(); }));
    res.status = S.Control(policy, 5.0);
    res.trace = S.Trace();
    if (!res.status.empty()) {
      // threads are parked for ever (deadlock) or blocked in a primitive: leak them and the queue; the caller prints
      // the result line and ends this process
      for (size_t i = 0; i < th.size(); ++i) th[i].detach();
      return;
    }
    for (size_t i = 0; i < th.size(); ++i) th[i].join();
    delete qp;
  }
  S.Deactivate();
}

// specification oracle, applied inside the driver to every run (needed for DFS where runs are not printed)
std::string spec_check(const PcqConfig &cfg, const RunResult &r) {
  if (!r.status.empty()) return r.status;
  std::vector<int> all_items, all_got;
  for (size_t i = 0; i < cfg.items.size(); ++i) all_items.insert(all_items.end(), cfg.items[i].begin(), cfg.items[i].end());
  for (size_t j = 0; j < r.got.size(); ++j) all_got.insert(all_got.end(), r.got[j].begin(), r.got[j].end());
  std::sort(all_items.begin(), all_items.end()); std::sort(all_got.begin(), all_got.end());
  long planned = 0; for (size_t j = 0; j < cfg.counts.size(); ++j) planned += cfg.counts[j];
  if ((long)all_items.size() == planned) {
    if (all_items != all_got) return "spec:multiset-of-consumed-values-differs-from-produced";
  } else if (!std::includes(all_items.begin(), all_items.end(), all_got.begin(), all_got.end())) {
    return "spec:consumed-value-never-produced-or-consumed-twice";   // fewer Consume than Produce calls: sub-multiset
  }
  // per-producer order as seen by each consumer (items of one producer are distinct and listed in production order)
  for (size_t j = 0; j < r.got.size(); ++j)
    for (size_t i = 0; i < cfg.items.size(); ++i) {
      size_t pos = 0;
      for (size_t n = 0; n < r.got[j].size(); ++n) {
        std::vector<int>::const_iterator f = std::find(cfg.items[i].begin(), cfg.items[i].end(), r.got[j][n]);
        if (f == cfg.items[i].end()) continue;
        size_t idx = f - cfg.items[i].begin();
        if (idx < pos) return "spec:consumer-saw-one-producers-values-out-of-order";
        pos = idx;
      }
    }
  // capacity, from the trace: stores minus loads never exceeds k, loads never overtake stores
  long st = 0, ld = 0;
  for (size_t n = 0; n < r.trace.size(); ++n) {
    if (r.trace[n].op == util::verif::kStore) ++st;
    if (r.trace[n].op == util::verif::kLoad) ++ld;
    if (ld > st) return "spec:load-before-store";
    if (st - ld > cfg.k) return "spec:more-than-capacity-values-stored-and-untaken";
  }
  return "";
}

std::string fmt_run(const PcqConfig &cfg, const RunResult &r, bool use_snapshot) {
  std::ostringstream o;
  size_t steps = r.trace.size();
  const std::vector<std::vector<int> > *got = &r.got;
  std::string status = r.status.empty() ? "ok" : r.status;
  bool fin = r.status.empty();
  if (use_snapshot && r.snapped) { steps = std::min(steps, r.snap_steps); got = &r.snap_got; status = r.snap_status; fin = (r.snap_steps >= r.trace.size()) && r.status.empty() && r.snap_status == "ok"; }
  o << status << " sched=";
  bool notenabled = status.compare(0, 10, "notenabled") == 0;
  size_t shown = notenabled ? steps - 1 : steps;
  for (size_t n = 0; n < shown; ++n) o << (n ? "," : "") << tidname(cfg, r.trace[n].tid);
  o << " en=";
  for (size_t n = 0; n < steps && n < r.trace.size(); ++n) {
    if (n) o << "|";
    for (size_t e = 0; e < r.trace[n].enabled.size(); ++e) o << tidname(cfg, r.trace[n].enabled[e]);
  }
  o << " got=";
  for (size_t j = 0; j < got->size(); ++j) {
    if (j) o << ";";
    for (size_t n = 0; n < (*got)[j].size(); ++n) o << (n ? "," : "") << (*got)[j][n];
    if ((*got)[j].empty()) o << "-";
  }
  o << " fin=" << (fin ? 1 : 0);
  return o.str();
}

int parse_tid(const PcqConfig &cfg, const std::string &s) {
  int n = atoi(s.c_str() + 1);
  return s[0] == 'p' ? n : (int)cfg.items.size() + n;
}

void fatal_if_failed(const RunResult &r, const std::string &line) {
  if (!r.status.empty()) { std::cout << line << std::endl; _exit(4); }   // parked threads cannot be recovered
}

std::string do_pcq(std::istringstream &in) {
  PcqConfig cfg; std::string items, counts, pol;
  in >> cfg.k >> items >> counts >> pol;
  if (items != "-") { std::vector<std::string> f = split(items, ';'); for (size_t i = 0; i < f.size(); ++i) cfg.items.push_back(ints(f[i])); }
  cfg.counts = ints(counts);
  std::vector<std::string> pf = split(pol, ':');
  size_t total_steps = 0;
  for (size_t i = 0; i < cfg.items.size(); ++i) total_steps += 6 * cfg.items[i].size();
  for (size_t j = 0; j < cfg.counts.size(); ++j) total_steps += 6 * cfg.counts[j];
  if (pf[0] == "s") {
    ExplicitPolicy p; p.cfg = &cfg;
    if (pf.size() > 1 && !pf[1].empty()) { std::vector<std::string> f = split(pf[1], ','); for (size_t i = 0; i < f.size(); ++i) p.sched.push_back(parse_tid(cfg, f[i])); }
    RunResult r; run_pcq(cfg, p, r);
    std::string line = fmt_run(cfg, r, true);
    fatal_if_failed(r, line);
    std::string sc = spec_check(cfg, r);
    if (!sc.empty()) line = sc + " " + line;
    return line;
  }
  if (pf[0] == "rand" || pf[0] == "pct") {
    uint64_t seed = strtoull(pf[1].c_str(), 0, 10);
    RunResult r;
    if (pf[0] == "rand") { RandPolicy p(seed); run_pcq(cfg, p, r); }
    else { PctPolicy p(seed, cfg.items.size() + cfg.counts.size(), atoi(pf[2].c_str()), total_steps); run_pcq(cfg, p, r); }
    std::string line = fmt_run(cfg, r, false);
    fatal_if_failed(r, line);
    std::string sc = spec_check(cfg, r);
    if (!sc.empty()) line = sc + " " + line;
    return line;
  }
  if (pf[0] == "dfs") {
    int pbound = atoi(pf[1].c_str()); long maxruns = atol(pf[2].c_str()); long nsamples = atol(pf[3].c_str());
    uint64_t seed = strtoull(pf[4].c_str(), 0, 10);
    std::vector<int> prefix; long runs = 0, viol = 0; bool exhausted = false; std::string first; std::vector<std::string> samples;
    for (;;) {
      PrefixPolicy p; p.prefix = prefix;
      RunResult r; run_pcq(cfg, p, r);
      ++runs;
      std::string line = fmt_run(cfg, r, false);
      fatal_if_failed(r, "dfs-failed runs=" + std::to_string(runs) + " first=" + line);
      std::string sc = spec_check(cfg, r);
      if (!sc.empty()) { ++viol; if (first.empty()) first = sc + " " + line; }
      seed = ksched::mix(seed);
      if ((long)samples.size() < nsamples && (runs <= nsamples / 2 || seed % 16 == 0)) samples.push_back(line);
      if (runs >= maxruns) break;
      // next prefix: deepest step with an untried alternative within the preemption bound
      const std::vector<ksched::Step> &tr = r.trace;
      std::vector<int> pre(tr.size() + 1, 0);   // preemptions used before step n
      for (size_t n = 0; n < tr.size(); ++n) {
        int prev = n ? tr[n - 1].tid : -1;
        bool prev_enabled = std::find(tr[n].enabled.begin(), tr[n].enabled.end(), prev) != tr[n].enabled.end();
        pre[n + 1] = pre[n] + ((prev_enabled && tr[n].tid != prev) ? 1 : 0);
      }
      bool found = false;
      for (size_t n = tr.size(); n-- > 0 && !found;) {
        int prev = n ? tr[n - 1].tid : -1;
        const std::vector<int> &en = tr[n].enabled;
        bool prev_enabled = std::find(en.begin(), en.end(), prev) != en.end();
        // exploration order at this step: default choice first, then the others ascending
        std::vector<int> order; int dflt = prev_enabled ? prev : en[0];
        order.push_back(dflt);
        for (size_t e = 0; e < en.size(); ++e) if (en[e] != dflt) order.push_back(en[e]);
        size_t at = std::find(order.begin(), order.end(), tr[n].tid) - order.begin();
        for (size_t a = at + 1; a < order.size(); ++a) {
          int cost = (prev_enabled && order[a] != prev) ? 1 : 0;
          if (pre[n] + cost <= pbound) {
            prefix.clear();
            for (size_t m = 0; m < n; ++m) prefix.push_back(tr[m].tid);
            prefix.push_back(order[a]);
            found = true; break;
          }
        }
      }
      if (!found) { exhausted = true; break; }
    }
    std::ostringstream o;
    o << "dfs runs=" << runs << " exhausted=" << (exhausted ? 1 : 0) << " viol=" << viol;
    if (!first.empty()) o << " first=[" << first << "]";
    for (size_t i = 0; i < samples.size(); ++i) o << " ## " << samples[i];
    return o.str();
  }
  if (pf[0] == "free") {
    // real concurrency, seeded jitter at the scheduling points; repeated; spec oracle only
    uint64_t seed = strtoull(pf[1].c_str(), 0, 10); int reps = atoi(pf[2].c_str());
    Scheduler::Get().Reset(0);
    Storm storm_on(true);
    for (int rep = 0; rep < reps; ++rep) {
      Scheduler::Get().SetJitter(ksched::mix(seed + rep) | 1);
      RunResult r; r.got.assign(cfg.counts.size(), std::vector<int>());
      {
        util::PCQueue<int> q(cfg.k);
        std::vector<std::thread> th;
        for (size_t i = 0; i < cfg.items.size(); ++i) th.push_back(std::thread([&, i] { for (size_t n = 0; n < cfg.items[i].size(); ++n) q.Produce(cfg.items[i][n]); }));
        for (size_t j = 0; j < cfg.counts.size(); ++j) th.push_back(std::thread([&, j] { for (int n = 0; n < cfg.counts[j]; ++n) { int v = -1; q.Consume(v); r.got[j].push_back(v); } }));
        for (size_t i = 0; i < th.size(); ++i) th[i].join();
      }
      std::string sc = spec_check(cfg, r);
      if (!sc.empty()) { Scheduler::Get().SetJitter(0); return sc + " rep=" + std::to_string(rep) + " " + fmt_run(cfg, r, false); }
    }
    Scheduler::Get().SetJitter(0);
    return "ok free reps=" + std::to_string(reps);
  }
  return "bad-policy";
}

// ------------------------------------------------------------------------------------------------
// Chain: source -> stages -> sink.  Entries are uint32.  Stages work on blocks through util::stream::Link:
//   "aN": add N to every entry; "fN": drop multiples of N; "dA-B": drop the values in [A,B); "p": pass through
//   (dropping compacts the block in place, possibly to zero valid bytes -- whole runs of empty blocks with dA-B / f1);
// or on records through util::stream::Stream (the record-level view, which must skip every empty block):
//   "sN": add N to every record in place.
// CHAIN: Link-based source and sink;  CHAINS: Stream-based source (Stream::Poison ends it) and Stream-based sink.
struct Source {
  uint32_t n;
  void Run(const util::stream::ChainPosition &pos) {
    util::stream::Link l(pos);
    uint32_t next = 1;
    std::size_t per = pos.GetChain().BlockSize() / sizeof(uint32_t);
    while (next <= n) {
      uint32_t *b = static_cast<uint32_t*>(l->Get()); std::size_t i = 0;
      for (; i < per && next <= n; ++i) b[i] = next++;
      l->SetValidSize(i * sizeof(uint32_t));
      ++l;
    }
    l.Poison();
  }
};
struct StreamSource {
  uint32_t n;
  void Run(const util::stream::ChainPosition &pos) {
    util::stream::Stream s(pos);
    for (uint32_t next = 1; next <= n; ++next, ++s) *static_cast<uint32_t*>(s.Get()) = next;
    s.Poison();
  }
};
struct Stage {
  char kind; uint32_t arg, arg2;
  void Run(const util::stream::ChainPosition &pos) {
    if (kind == 's') {
      for (util::stream::Stream s(pos); s; ++s) *static_cast<uint32_t*>(s.Get()) += arg;
      return;
    }
    for (util::stream::Link l(pos); l; ++l) {
      uint32_t *b = static_cast<uint32_t*>(l->Get()); std::size_t cnt = l->ValidSize() / sizeof(uint32_t), w = 0;
      for (std::size_t i = 0; i < cnt; ++i) {
        if (kind == 'a') b[w++] = b[i] + arg;
        else if (kind == 'f') { if (b[i] % arg) b[w++] = b[i]; }
        else if (kind == 'd') { if (b[i] < arg || b[i] >= arg2) b[w++] = b[i]; }
        else b[w++] = b[i];
      }
      l->SetValidSize(w * sizeof(uint32_t));
    }
  }
};
struct Sink {
  std::vector<uint32_t> *out; std::vector<const void*> *blocks;
  void Run(const util::stream::ChainPosition &pos) {
    for (util::stream::Link l(pos); l; ++l) {
      const uint32_t *b = static_cast<const uint32_t*>(l->Get());
      out->insert(out->end(), b, b + l->ValidSize() / sizeof(uint32_t));
      blocks->push_back(l->Get());
    }
  }
};
struct StreamSink {
  std::vector<uint32_t> *out; std::size_t limit;
  void Run(const util::stream::ChainPosition &pos) {
    for (util::stream::Stream s(pos); s; ++s) {
      out->push_back(*static_cast<const uint32_t*>(s.Get()));
      if (out->size() > limit) {   // the stream hands out more records than were ever written: it has left its blocks
        std::cout << "spec:stream-delivers-more-records-than-produced count>" << limit << std::endl; _exit(4);
      }
    }
  }
};

std::string do_chain(std::istringstream &in, bool streams, bool fill_first = false, bool io = false) {
  std::size_t blocks, per; std::string stages; uint32_t n; uint64_t seed;
  in >> blocks >> per >> stages >> n >> seed;
  // CHAINIO: the real file workers of util/stream/io.hh as first / last stage: src in {read, pread, link, stream}, sink in {war
  // (WriteAndRecycle), write (Write >> kRecycle), pwrite (PWrite >> kRecycle), link, stream}; data goes through temporary files
  std::string src_kind = streams ? "stream" : "link", sink_kind = streams ? "stream" : "link";
  if (io) in >> src_kind >> sink_kind;
  util::scoped_fd in_file, out_file;
  if (src_kind == "read" || src_kind == "pread") {
    in_file.reset(util::MakeTemp("/var/tmp/c17io"));
    std::vector<uint32_t> data(n); for (uint32_t i = 0; i < n; ++i) data[i] = i + 1;
    if (n) util::WriteOrThrow(in_file.get(), &data[0], n * sizeof(uint32_t));
    util::SeekOrThrow(in_file.get(), 0);
  }
  if (sink_kind == "war" || sink_kind == "write" || sink_kind == "pwrite") out_file.reset(util::MakeTemp("/var/tmp/c17io"));
  Scheduler::Get().Reset(0);
  Scheduler::Get().SetJitter(seed);
  Storm storm_on(seed % 3 != 0);
  Scheduler::Get().TakeInitLog();
  std::vector<uint32_t> out; std::vector<const void*> seen;
  std::string src_state = "-";
  {
    util::stream::ChainConfig cc(sizeof(uint32_t), blocks, blocks * per * sizeof(uint32_t));
    util::stream::Chain chain(cc);
    std::thread filler; std::atomic<int> filled(0); std::atomic<long> filler_tid(0);
    if (fill_first) {
      // "fill, then drain": the source runs to completion (data and poison) before any consumer is attached.  Whether it finishes
      // or parks (blocked in Produce / Consume) is observed from its thread state, not from a time limit.
      util::stream::ChainPosition pos = chain.Add();
      filler = std::thread([&, pos] {
        filler_tid = procstate::ktid();
        if (streams) { StreamSource src; src.n = n; src.Run(pos); } else { Source src; src.n = n; src.Run(pos); }
        filled = 1; });
      for (int parked = 0; !filled.load() && parked < 12;) {
        usleep(3000);
        parked = (filler_tid.load() && procstate::thread_parked((pid_t)filler_tid.load())) ? parked + 1 : 0;
      }
      src_state = filled.load() ? "done" : "parked";
    } else if (src_kind == "read") chain >> util::stream::Read(in_file.get());
    else if (src_kind == "pread") chain >> util::stream::PRead(in_file.get());
    else if (src_kind == "stream") { StreamSource src; src.n = n; chain >> src; } else { Source src; src.n = n; chain >> src; }
    if (stages != "-") {
      std::vector<std::string> f = split(stages, ',');
      for (size_t i = 0; i < f.size(); ++i) {
        Stage s; s.kind = f[i][0]; s.arg = f[i].size() > 1 ? atoi(f[i].c_str() + 1) : 0; s.arg2 = 0;
        size_t dash = f[i].find('-');
        if (dash != std::string::npos) s.arg2 = atoi(f[i].c_str() + dash + 1);
        chain >> s;
      }
    }
    if (sink_kind == "war") chain >> util::stream::WriteAndRecycle(out_file.get());
    else if (sink_kind == "write") chain >> util::stream::Write(out_file.get()) >> util::stream::kRecycle;
    else if (sink_kind == "pwrite") chain >> util::stream::PWrite(out_file.get()) >> util::stream::kRecycle;
    else if (sink_kind == "stream") { StreamSink sink; sink.out = &out; sink.limit = (std::size_t)n + 16; chain >> sink >> util::stream::kRecycle; }
    else { Sink sink; sink.out = &out; sink.blocks = &seen; chain >> sink >> util::stream::kRecycle; }
    chain.Wait(true);
    if (filler.joinable()) filler.join();
  }
  if (out_file.get() != -1) {
    uint64_t size = util::SizeOrThrow(out_file.get());
    out.resize(size / sizeof(uint32_t));
    util::SeekOrThrow(out_file.get(), 0);
    if (size) util::ReadOrThrow(out_file.get(), &out[0], out.size() * sizeof(uint32_t));
    if (size % sizeof(uint32_t)) out.push_back(0xffffffffu);     // a torn entry shows up as an extra record
  }
  Scheduler::Get().SetJitter(0);
  std::sort(seen.begin(), seen.end()); seen.erase(std::unique(seen.begin(), seen.end()), seen.end());
  std::ostringstream o;
  uint64_t h = 1469598103934665603ull;
  for (size_t i = 0; i < out.size(); ++i) { h ^= out[i]; h *= 1099511628211ull; }
  o << "ok count=" << out.size() << " hash=" << std::hex << h << std::dec << " distinct_blocks=" << seen.size() << " head=";
  for (size_t i = 0; i < out.size() && i < 8; ++i) o << (i ? "," : "") << out[i];
  if (out.empty()) o << "-";
  // white-box, reported separately: the capacities the chain passed to its PCQueue constructors (lead queue first)
  std::vector<std::size_t> il = Scheduler::Get().TakeInitLog();
  o << " src=" << src_state << " caps=";
  for (size_t i = 0; i < il.size(); i += 2) o << (i ? "," : "") << il[i];
  return o.str();
}

// ------------------------------------------------------------------------------------------------
// Signals delivered to threads parked in Produce / Consume.  Script: c = a new thread calls Consume once; p<v> = a new thread
// calls Produce(v); i<n> = SIGUSR1 (no-op handler, no SA_RESTART) to the n-th thread started, three times.  After every action the
// driver waits until every unfinished thread is parked in futex (progress-based) and reports: producers finished, consumers
// finished, values returned so far (sorted).  Runs in a child process (threads left parked at the end are abandoned).
std::string do_sig(std::istringstream &in) {
  int k; in >> k;
  std::vector<std::string> script; std::string tok;
  while (in >> tok) script.push_back(tok);
  int fds[2]; if (pipe(fds)) return "pipe-failed";
  std::cout.flush();
  pid_t pid = fork();
  if (pid == 0) {
    close(fds[0]);
    Scheduler::Get().Reset(0);
    util::PCQueue<int> *q = new util::PCQueue<int>(k);
    struct T { std::thread th; std::atomic<long> tid; std::atomic<int> done; bool producer; int value; T() : tid(0), done(0), producer(false), value(0) {} };
    std::vector<T*> ts;
    std::mutex mu; std::vector<int> returned;
    std::ostringstream o;
    for (size_t a = 0; a < script.size(); ++a) {
      const std::string &s = script[a];
      if (s[0] == 'c' || s[0] == 'p') {
        T *t = new T(); t->producer = s[0] == 'p'; t->value = t->producer ? atoi(s.c_str() + 1) : 0;
        ts.push_back(t);
        t->th = std::thread([t, q, &mu, &returned] {
          sigset_t m; sigemptyset(&m); sigaddset(&m, SIGUSR1); pthread_sigmask(SIG_UNBLOCK, &m, NULL);
          t->tid = procstate::ktid();
          if (t->producer) q->Produce(t->value);
          else { int v = -1; q->Consume(v); std::lock_guard<std::mutex> l(mu); returned.push_back(v); }
          t->done = 1; });
      } else if (s[0] == 'i') {
        size_t n = atoi(s.c_str() + 1);
        if (n < ts.size() && !ts[n]->done.load() && ts[n]->tid.load())
          for (int r = 0; r < 3; ++r) { pthread_kill(ts[n]->th.native_handle(), SIGUSR1); usleep(2000); }
      }
      // quiescence: every thread finished, or parked in futex for 10 consecutive samples
      for (int calm = 0, spins = 0; calm < 10 && spins < 200000; ++spins) {
        usleep(1500);
        bool all = true;
        for (size_t i = 0; i < ts.size(); ++i)
          if (!ts[i]->done.load() && !(ts[i]->tid.load() && procstate::thread_parked((pid_t)ts[i]->tid.load()))) all = false;
        calm = all ? calm + 1 : 0;
      }
      int fp = 0, fc = 0;
      for (size_t i = 0; i < ts.size(); ++i) if (ts[i]->done.load()) { if (ts[i]->producer) ++fp; else ++fc; }
      std::vector<int> r; { std::lock_guard<std::mutex> l(mu); r = returned; } std::sort(r.begin(), r.end());
      o << (a ? "|" : "") << "P" << fp << "C" << fc << ":";
      for (size_t i = 0; i < r.size(); ++i) o << (i ? "," : "") << r[i];
    }
    std::string res = "ok " + o.str() + "\n";
    ssize_t w = write(fds[1], res.data(), res.size()); (void)w;
    _exit(0);
  }
  close(fds[1]);
  std::string res; char buf[4096]; ssize_t n;
  while ((n = read(fds[0], buf, sizeof buf)) > 0 || (n < 0 && errno == EINTR)) if (n > 0) res.append(buf, n);
  close(fds[0]);
  int status = 0; while (waitpid(pid, &status, 0) < 0 && errno == EINTR) {}
  if (!res.empty() && res[res.size() - 1] == '\n') res.erase(res.size() - 1);
  if (res.empty()) return std::string("child-died status=") + std::to_string(status);
  return res;
}

// ------------------------------------------------------------------------------------------------
// Life cycle and configuration of a Chain: LIFE <entry_size> <block_count> <total_memory> <seed> <op>*
//   T<n>  chain >> Source(n entries) >> Sink >> kRecycle        (all threads owned by the chain)
//   U<n>  chain >> Source(n entries) >> Sink                    (no recycler: Wait / Start must close the loop)
//   M<n>  { Stream s; chain >> s; write n entries; s.Poison(); } (driven by the calling thread only: the chain owns no thread)
//   W / w Wait(true) / Wait(false);   S  Start() ("waits for the current chain to complete (if any) then starts again")
// Result: "config-exception", or "bs=<block size>" followed, for every W / w / S, by
//   <op>:run=<Running()>:made=<capacities of the PCQueues constructed since the last report>:r<k>=<entries>.<hash of the bytes>;...
// for every round with a sink started so far (what its sink has received when the op returned).
struct LifeRec { std::atomic<uint64_t> bytes; uint64_t hash; LifeRec() : bytes(0), hash(1469598103934665603ull) {} };
inline unsigned char life_byte(uint64_t i, std::size_t j, int round) { return (unsigned char)((i * 31 + j * 7 + round * 13 + 1) & 0xff); }
struct LifeSource {
  uint64_t n; int round;
  void Run(const util::stream::ChainPosition &pos) {
    std::size_t es = pos.GetChain().EntrySize(), per = pos.GetChain().BlockSize() / es;
    util::stream::Link l(pos);
    for (uint64_t i = 0; i < n;) {
      unsigned char *b = static_cast<unsigned char*>(l->Get()); std::size_t k = 0;
      for (; k < per && i < n; ++k, ++i) for (std::size_t j = 0; j < es; ++j) b[k * es + j] = life_byte(i, j, round);
      l->SetValidSize(k * es);
      ++l;
    }
    l.Poison();
  }
};
struct LifeSink {
  LifeRec *rec;
  void Run(const util::stream::ChainPosition &pos) {
    for (util::stream::Link l(pos); l; ++l) {
      const unsigned char *b = static_cast<const unsigned char*>(l->Get());
      for (std::size_t i = 0; i < l->ValidSize(); ++i) { rec->hash ^= b[i]; rec->hash *= 1099511628211ull; }
      rec->bytes += l->ValidSize();
    }
  }
};
std::string do_life(std::istringstream &in) {
  std::size_t es, bc, total; uint64_t seed;
  in >> es >> bc >> total >> seed;
  std::vector<std::string> ops; std::string tok; while (in >> tok) ops.push_back(tok);
  Scheduler::Get().Reset(0);
  Scheduler::Get().SetJitter(seed);
  Scheduler::Get().TakeInitLog();
  std::ostringstream o;
  std::vector<LifeRec*> recs;
  try {
    util::stream::Chain chain(util::stream::ChainConfig(es, bc, total));
    o << "bs=" << chain.BlockSize();
    if (chain.BlockSize() == 0) return o.str();      // nothing can be written into such a chain
    int round = 0;
    for (size_t a = 0; a < ops.size(); ++a) {
      char k = ops[a][0]; uint64_t n = ops[a].size() > 1 ? strtoull(ops[a].c_str() + 1, NULL, 10) : 0;
      if (k == 'T' || k == 'U') {
        LifeSource src; src.n = n; src.round = round;
        LifeSink sink; sink.rec = new LifeRec(); recs.push_back(sink.rec);
        chain >> src >> sink;
        if (k == 'T') chain >> util::stream::kRecycle;
        ++round;
      } else if (k == 'M') {
        util::stream::Stream s; chain >> s;
        for (uint64_t i = 0; i < n; ++i, ++s) { unsigned char *b = static_cast<unsigned char*>(s.Get()); for (std::size_t j = 0; j < es; ++j) b[j] = life_byte(i, j, round); }
        s.Poison();
        recs.push_back(NULL);
        ++round;
      } else {
        if (k == 'W') chain.Wait(true); else if (k == 'w') chain.Wait(false); else if (k == 'S') chain.Start();
        std::vector<std::size_t> il = Scheduler::Get().TakeInitLog();
        o << ' ' << k << ":run=" << (chain.Running() ? 1 : 0) << ":made=";
        for (size_t i = 0; i < il.size(); i += 2) o << (i ? "." : "") << il[i];
        o << ':';
        bool first = true;
        for (size_t r = 0; r < recs.size(); ++r) if (recs[r]) {
          o << (first ? "" : ";") << 'r' << r << '=' << recs[r]->bytes.load() / es << '.' << std::hex << recs[r]->hash << std::dec; first = false;
        }
      }
    }
  } catch (const util::stream::ChainConfigException &) {
    Scheduler::Get().SetJitter(0);
    return "config-exception";
  }
  Scheduler::Get().SetJitter(0);
  return o.str();
}

// ------------------------------------------------------------------------------------------------
struct PoolLog { std::mutex mu; std::vector<int> handled; };
struct PoolHandler {
  typedef int Request;
  explicit PoolHandler(PoolLog *log) : log_(log) {}
  void operator()(int r) { std::lock_guard<std::mutex> l(log_->mu); log_->handled.push_back(r); }
  PoolLog *log_;
};

std::string do_pool(std::istringstream &in) {
  std::size_t workers, queue; int n; uint64_t seed;
  in >> workers >> queue >> n >> seed;
  Scheduler::Get().Reset(0);
  Scheduler::Get().SetJitter(seed);
  Storm storm_on(seed % 3 != 0);
  PoolLog log;
  {
    util::ThreadPool<PoolHandler> pool(queue, workers, &log, -1);
    for (int i = 0; i < n; ++i) pool.Produce(i);
  }   // destructor: one poison per worker, join
  Scheduler::Get().SetJitter(0);
  std::vector<int> h = log.handled; std::sort(h.begin(), h.end());
  long dup = 0, miss = 0; size_t at = 0;
  for (int i = 0; i < n; ++i) {
    size_t c = 0; while (at < h.size() && h[at] == i) { ++c; ++at; }
    if (c == 0) ++miss; else dup += c - 1;
  }
  std::ostringstream o;
  o << "ok handled=" << h.size() << " dup=" << dup << " miss=" << miss << " stray=" << (h.size() - at);
  return o.str();
}

// A handler that throws on one request.  util::Worker reports and abort()s: the consumed request is handled or the process ends.
// Run in a child process; the parent reports how the child ended (aborted / finished with k requests handled / hung).
struct FailingHandler {
  typedef int Request;
  struct Setup { std::atomic<int> *handled; int fail_at; };
  explicit FailingHandler(Setup s) : s_(s) {}
  void operator()(int r) { if (r == s_.fail_at) throw std::runtime_error("request refused"); s_.handled->fetch_add(1); }
  Setup s_;
};
std::string do_poolf(std::istringstream &in) {
  std::size_t workers, queue; int n, fail_at; uint64_t seed;
  in >> workers >> queue >> n >> fail_at >> seed;
  std::cout.flush();
  pid_t pid = fork();
  if (pid == 0) {
    int devnull = open("/dev/null", O_WRONLY); if (devnull >= 0) dup2(devnull, 2);
    Scheduler::Get().Reset(0);
    Scheduler::Get().SetJitter(seed);
    std::atomic<int> handled(0);
    {
      FailingHandler::Setup s; s.handled = &handled; s.fail_at = fail_at;
      util::ThreadPool<FailingHandler> pool(queue, workers, s, -1);
      for (int i = 0; i < n; ++i) pool.Produce(i);
    }
    _exit(handled.load() == n ? 0 : 10 + std::min(handled.load(), 100));
  }
  for (int waited = 0; waited < 60; ++waited) {     // 6 s
    int status = 0;
    pid_t r = waitpid(pid, &status, WNOHANG);
    if (r == pid) {
      if (WIFSIGNALED(status)) return std::string("ok aborted signal=") + std::to_string(WTERMSIG(status));
      if (WEXITSTATUS(status) == 0) return "ok finished handled=" + std::to_string(n);
      return "dropped finished-with-handled=" + std::to_string(WEXITSTATUS(status) - 10) + " of " + std::to_string(n);
    }
    usleep(100000);
  }
  kill(pid, SIGKILL); waitpid(pid, NULL, 0);
  return "HANG the pool did not end after a handler threw";
}

}  // namespace

int main() {
  std::ios::sync_with_stdio(false);
  Scheduler::Get().Install();
  { struct sigaction sa; memset(&sa, 0, sizeof sa); sa.sa_handler = noop_handler; sa.sa_flags = 0; sigemptyset(&sa.sa_mask); sigaction(SIGUSR1, &sa, NULL); }
  std::thread([] { sigset_t m; sigemptyset(&m); sigaddset(&m, SIGUSR1); pthread_sigmask(SIG_BLOCK, &m, NULL); watchdog(); }).detach();
  std::thread(storm).detach();
  { sigset_t m; sigemptyset(&m); sigaddset(&m, SIGUSR1); pthread_sigmask(SIG_BLOCK, &m, NULL); }   // inherited by every thread; workers unblock at their first scheduling point
  std::string line;
  while (std::getline(std::cin, line)) {
    std::istringstream in(line); std::string kind; in >> kind;
    std::string res;
    {
      Deadline d(kind == "PCQ" ? 60 : kind == "SIG" ? 600 : 10);
      try {
        if (kind == "PCQ") res = do_pcq(in);
        else if (kind == "CHAIN") res = do_chain(in, false);
        else if (kind == "CHAINS") res = do_chain(in, true);
        else if (kind == "CHAINIO") res = do_chain(in, false, false, true);
        else if (kind == "CHAINF") res = do_chain(in, false, true);
        else if (kind == "CHAINFS") res = do_chain(in, true, true);
        else if (kind == "SIG") res = do_sig(in);
        else if (kind == "LIFE") res = do_life(in);
        else if (kind == "POOL") res = do_pool(in);
        else if (kind == "POOLF") res = do_poolf(in);
        else res = "bad-case";
      } catch (const std::exception &e) { res = std::string("exception ") + e.what(); }
    }
    std::cout << res << std::endl;
  }
  return 0;
}
