// lmq: implementation driver for the language-model properties (C01-C04, C08).
//   lmq <model file (ARPA or binary)> <probing|rest|trie|qtrie|atrie|qatrie> <vocab file> [key=value ...]
// vocab file: line i = spelling of harness word id i (id 0 = <unk>).  Queries on stdin, one answer line each:
//   S <bos 0|1> <harness ids, hex, oldest first>  -> per word "probbits len indep words/backoffbits ; <same for
//        FullScoreForgotState> ; <GetState words/backoffbits>", words joined by " | "
// Floats are printed as bit patterns; words are mapped back to harness ids, so different structures are comparable.
#include "lm/model.hh"
#include "lm/binary_format.hh"
#include "lm/enumerate_vocab.hh"
#include "lm/left.hh"
#include "lm/partial.hh"
#include "util/file_piece.hh"

#include <cstdio>
#include <cstring>
#include <fstream>
#include <iostream>
#include <map>
#include <sstream>
#include <string>
#include <vector>

using namespace lm::ngram;

static uint32_t bits(float f) { uint32_t i; memcpy(&i, &f, 4); return i; }

struct Opts { std::map<std::string, std::string> kv; };

// EnumerateVocab callback: records (index, spelling) in call order
class Collect : public lm::EnumerateVocab {
  public:
    void Add(lm::WordIndex index, const StringPiece &str) {
      std::ostringstream o;
      o << std::hex << index << ':';
      for (size_t i = 0; i < (size_t)str.size(); ++i) { char b[4]; snprintf(b, sizeof b, "%02x", (unsigned char)str.data()[i]); o << b; }
      items.push_back(o.str());
    }
    std::vector<std::string> items;
};

template <class M> struct Runner {
  const M &m;
  std::vector<lm::WordIndex> to_model;            // harness id -> WordIndex
  std::map<lm::WordIndex, unsigned> to_harness;   // WordIndex -> first harness id with that index
  Runner(const M &model, const std::vector<std::string> &vocab) : m(model) {
    for (unsigned i = 0; i < vocab.size(); ++i) {
      lm::WordIndex w = m.GetVocabulary().Index(vocab[i]);
      to_model.push_back(w);
      if (!to_harness.count(w)) to_harness[w] = i;
    }
  }
  void print_state(std::ostream &o, const State &s) {
    for (unsigned i = 0; i < s.length; ++i) { if (i) o << ','; o << std::hex << to_harness[s.words[i]]; }
    o << '/';
    for (unsigned i = 0; i < s.length; ++i) { if (i) o << ','; o << std::hex << bits(s.backoff[i]); }
  }
  void print_ret(std::ostream &o, const lm::FullScoreReturn &r) {
    o << std::hex << bits(r.prob) << ' ' << std::dec << (unsigned)r.ngram_length << ' ' << (r.independent_left ? 1 : 0) << ' ';
  }
  // derivation tree: ( [B] [^] item* ), item = hex harness id | tree.  Child scores are passed as prob (inclusive).
  float eval(const std::vector<std::string> &t, size_t &pos, ChartState &out) {
    ++pos;   // "("
    bool bos = false, fast = false;
    if (t.at(pos) == "B") { bos = true; ++pos; }
    if (t.at(pos) == "^") { fast = true; ++pos; }
    // reuse = 1 / 2: the scorer has already scored another rule (left state complete, a score accumulated) and is handed
    // the new rule through Reset(ChartState&) / Reset(); the API promises a scorer as good as new
    ChartState scratch;
    RuleScore<M> rs(m, reuse ? scratch : out);
    if (reuse) {
      rs.BeginSentence();
      rs.Terminal(m.GetVocabulary().EndSentence());
      rs.Finish();
      if (reuse == 1) rs.Reset(out); else rs.Reset();
    }
    if (bos) rs.BeginSentence();
    bool first = true;
    while (t.at(pos) != ")") {
      if (t[pos] == "(") {
        ChartState sub;
        float p = eval(t, pos, sub);
        if (first && fast && !bos) rs.BeginNonTerminal(sub, p); else rs.NonTerminal(sub, p);
      } else {
        rs.Terminal(to_model.at(strtoul(t[pos].c_str(), NULL, 16)));
        ++pos;
      }
      first = false;
    }
    ++pos;   // ")"
    float ret = rs.Finish();
    if (reuse == 2) out = scratch;
    return ret;
  }
  int reuse = 0;
  float fragment(const std::vector<lm::WordIndex> &ws, ChartState &out) {
    RuleScore<M> rs(m, out);
    for (size_t i = 0; i < ws.size(); ++i) rs.Terminal(ws[i]);
    return rs.Finish();
  }
  std::string partial(const std::vector<lm::WordIndex> &before, const std::vector<lm::WordIndex> &between, const std::vector<lm::WordIndex> &after) {
    std::vector<lm::WordIndex> all(before); all.insert(all.end(), between.begin(), between.end()); all.insert(all.end(), after.begin(), after.end());
    ChartState cf, cb, cm, ca;
    float pf = fragment(all, cf), pb = fragment(before, cb), pm = fragment(between, cm), pa = fragment(after, ca);
    Right bef(cb.right); Left aft(ca.left); aft.full = false;
    float got = 0.0;
    for (unsigned i = 1; i < KENLM_MAX_ORDER; ++i) {
      if (cb.right.length >= i) { bef.length = i; got += RevealBefore(m, bef, i - 1, false, cm.left, cm.right); }
      if (ca.left.length >= i) { aft.length = i; got += RevealAfter(m, cm.left, cm.right, aft, i - 1); }
    }
    if (ca.left.full) { aft.full = true; got += RevealAfter(m, cm.left, cm.right, aft, aft.length); }
    if (cb.left.full) { got += RevealBefore(m, bef, bef.length, true, cm.left, cm.right); }
    std::ostringstream o;
    o << std::hex << bits(got) << ' ' << bits(pf) << ' ' << bits(pb) << ' ' << bits(pm) << ' ' << bits(pa) << ' '
      << std::dec << (unsigned)cm.left.length << ' ' << (cm.left.full ? 1 : 0) << ' ';
    print_state(o, cm.right);
    return o.str();
  }
  // scripted instalments (see the PX command): b<c>/B<c>, a<c>/A<c>, bF, aF
  std::string partial_script(const std::vector<lm::WordIndex> &before, const std::vector<lm::WordIndex> &between, const std::vector<lm::WordIndex> &after,
                             const std::vector<std::string> &script) {
    std::vector<lm::WordIndex> all(before); all.insert(all.end(), between.begin(), between.end()); all.insert(all.end(), after.begin(), after.end());
    ChartState cf, cb, cm, ca;
    float pf = fragment(all, cf), pb = fragment(before, cb), pm = fragment(between, cm), pa = fragment(after, ca);
    Right bef(cb.right); Left aft(ca.left); aft.full = false;
    float got = 0.0;
    unsigned sb = 0, sa = 0;
    for (size_t i = 0; i < script.size(); ++i) {
      const std::string &tok = script[i];
      char k = tok[0];
      if (tok.substr(1) == "F") {
        if (k == 'b') { bef.length = cb.right.length; got += RevealBefore(m, bef, bef.length, true, cm.left, cm.right); }
        else { aft.length = ca.left.length; aft.full = true; got += RevealAfter(m, cm.left, cm.right, aft, aft.length); }
      } else {
        unsigned c = atoi(tok.c_str() + 1);
        if (k == 'b' || k == 'B') { bef.length = c; got += RevealBefore(m, bef, sb, k == 'B', cm.left, cm.right); sb = c; }
        else { aft.length = c; aft.full = (k == 'A'); got += RevealAfter(m, cm.left, cm.right, aft, sa); sa = c; }
      }
    }
    std::ostringstream o;
    o << std::hex << bits(got) << ' ' << bits(pf) << ' ' << bits(pb) << ' ' << bits(pm) << ' ' << bits(pa) << ' '
      << std::dec << (unsigned)cm.left.length << ' ' << (cm.left.full ? 1 : 0) << ' ';
    print_state(o, cm.right);
    return o.str();
  }
  std::string subsume(const std::vector<lm::WordIndex> &a, const std::vector<lm::WordIndex> &b) {
    std::vector<lm::WordIndex> all(a); all.insert(all.end(), b.begin(), b.end());
    ChartState cf, ca, cb;
    float pf = fragment(all, cf), pa = fragment(a, ca), pb = fragment(b, cb);
    float adj = Subsume(m, ca.left, ca.right, cb.left, cb.right, 0);
    std::ostringstream o;
    o << std::hex << bits(adj) << ' ' << bits(pf) << ' ' << bits(pa) << ' ' << bits(pb) << ' '
      << std::dec << (unsigned)ca.left.length << ' ' << (ca.left.full ? 1 : 0) << ' ';
    print_state(o, cb.right);
    return o.str();
  }
  std::string score(bool bos, const std::vector<unsigned> &ids) {
    std::ostringstream o;
    State st = bos ? m.BeginSentenceState() : m.NullContextState();
    std::vector<lm::WordIndex> hist;   // newest first
    if (bos) hist.push_back(m.GetVocabulary().BeginSentence());
    for (size_t i = 0; i < ids.size(); ++i) {
      if (i) o << " | ";
      lm::WordIndex w = to_model.at(ids[i]);
      State out, outf, gs;
      lm::FullScoreReturn r = m.FullScore(st, w, out);
      print_ret(o, r); print_state(o, out);
      o << " ; ";
      const lm::WordIndex *hb = hist.empty() ? NULL : &hist[0];
      lm::FullScoreReturn rf = m.FullScoreForgotState(hb, hb + hist.size(), w, outf);
      print_ret(o, rf); print_state(o, outf);
      o << " ; ";
      hist.insert(hist.begin(), w);
      m.GetState(&hist[0], &hist[0] + hist.size(), gs);
      print_state(o, gs);
      st = out;
    }
    return o.str();
  }
};

template <class M> int run(const char *file, const std::vector<std::string> &vocab, Opts &opt) {
  Config config;
  config.messages = NULL;
  config.show_progress = false;
  config.arpa_complain = Config::NONE;
  config.unknown_missing = lm::SILENT;
  config.sentence_marker_missing = lm::SILENT;
  config.positive_log_probability = lm::SILENT;
  if (opt.kv.count("mult")) config.probing_multiplier = atof(opt.kv["mult"].c_str());
  if (opt.kv.count("bhiksha")) config.pointer_bhiksha_bits = atoi(opt.kv["bhiksha"].c_str());
  if (opt.kv.count("probbits")) config.prob_bits = atoi(opt.kv["probbits"].c_str());
  if (opt.kv.count("backoffbits")) config.backoff_bits = atoi(opt.kv["backoffbits"].c_str());
  if (opt.kv.count("building_memory")) config.building_memory = atol(opt.kv["building_memory"].c_str());
  if (opt.kv.count("unk_prob")) config.unknown_missing_logprob = atof(opt.kv["unk_prob"].c_str());
  if (opt.kv.count("tmp")) config.temporary_directory_prefix = opt.kv["tmp"];
  if (opt.kv.count("rest_lower")) {
    // Config::REST_LOWER: rest costs from lower-order models (orders 1 .. N-1), comma-separated files
    config.rest_function = Config::REST_LOWER;
    std::istringstream fs(opt.kv["rest_lower"]); std::string f;
    while (std::getline(fs, f, ',')) config.rest_lower_files.push_back(f);
  }
  if (opt.kv.count("write_mmap")) config.write_mmap = opt.kv["write_mmap"].c_str();
  if (opt.kv.count("write_method")) config.write_method = opt.kv["write_method"] == "after" ? Config::WRITE_AFTER : Config::WRITE_MMAP;
  if (opt.kv.count("include_vocab")) config.include_vocab = opt.kv["include_vocab"] == "1";
  if (opt.kv.count("load_method")) {
    const std::string &l = opt.kv["load_method"];
    config.load_method = l == "lazy" ? util::LAZY : l == "populate" ? util::POPULATE_OR_LAZY : l == "populate_read" ? util::POPULATE_OR_READ : util::READ;
  }
  Collect collect;
  if (opt.kv.count("enumerate")) config.enumerate_vocab = &collect;
  try {
    M model(file, config);
    std::cout << "loaded order=" << (unsigned)model.Order() << " bound=" << model.GetVocabulary().Bound();
    {
      ModelType mt; bool bin = RecognizeBinary(file, mt);
      std::cout << " binary=" << (bin ? (int)mt : -1);
    }
    if (opt.kv.count("enumerate")) {
      std::cout << " enum=";
      for (size_t i = 0; i < collect.items.size(); ++i) std::cout << (i ? "," : "") << collect.items[i];
    }
    std::cout << std::endl;
    Runner<M> r(model, vocab);
    std::string line;
    while (std::getline(std::cin, line)) {
      std::istringstream in(line);
      std::string cmd; in >> cmd;
      if (cmd == "S") {
        int bos; in >> bos;
        std::vector<unsigned> ids; std::string x;
        while (in >> x) ids.push_back(strtoul(x.c_str(), NULL, 16));
        std::cout << r.score(bos, ids) << '\n';
      } else if (cmd == "IDS") {
        // the model's WordIndex of every harness word id (hex), in harness id order
        std::ostringstream o;
        for (size_t i = 0; i < r.to_model.size(); ++i) o << (i ? " " : "") << std::hex << r.to_model[i];
        std::cout << o.str() << '\n';
      } else if (cmd == "P") {
        // partial.hh: P before.. ; between.. ; after..  -> CheckAdjustment of lm/partial_test.cc
        std::vector<std::vector<lm::WordIndex> > parts(1); std::string x;
        while (in >> x) { if (x == ";") parts.push_back(std::vector<lm::WordIndex>()); else parts.back().push_back(r.to_model.at(strtoul(x.c_str(), NULL, 16))); }
        if (parts.size() != 3) { std::cout << "?\n"; continue; }
        std::cout << r.partial(parts[0], parts[1], parts[2]) << '\n';
      } else if (cmd == "PX") {
        // PX before.. ; between.. ; after.. ; script..
        std::vector<std::vector<std::string> > raw(1); std::string x;
        while (in >> x) { if (x == ";") raw.push_back(std::vector<std::string>()); else raw.back().push_back(x); }
        if (raw.size() != 4) { std::cout << "?\n"; continue; }
        std::vector<std::vector<lm::WordIndex> > parts(3);
        for (int i = 0; i < 3; ++i) for (size_t j = 0; j < raw[i].size(); ++j) parts[i].push_back(r.to_model.at(strtoul(raw[i][j].c_str(), NULL, 16)));
        std::cout << r.partial_script(parts[0], parts[1], parts[2], raw[3]) << '\n';
      } else if (cmd == "SUB") {
        std::vector<std::vector<lm::WordIndex> > parts(1); std::string x;
        while (in >> x) { if (x == ";") parts.push_back(std::vector<lm::WordIndex>()); else parts.back().push_back(r.to_model.at(strtoul(x.c_str(), NULL, 16))); }
        if (parts.size() != 2) { std::cout << "?\n"; continue; }
        std::cout << r.subsume(parts[0], parts[1]) << '\n';
      } else if (cmd == "K") {
        // State comparison operators on raw states (words are arbitrary uint32, hex)
        State a, b; a.length = 0; b.length = 0; State *cur = &a; std::string x;
        memset(a.words, 0xcd, sizeof a.words); memset(b.words, 0x3a, sizeof b.words);   // garbage beyond length must not matter
        while (in >> x) { if (x == ";") { cur = &b; continue; } cur->words[cur->length++] = strtoul(x.c_str(), NULL, 16); }
        int c = a.Compare(b);
        std::cout << (a == b ? 1 : 0) << ' ' << (c < 0 ? '-' : c > 0 ? '+' : '0') << ' ' << (a < b ? 1 : 0)
                  << ' ' << (hash_value(a) == hash_value(b) ? 1 : 0) << '\n';
      } else if (cmd == "L") {
        Left a, b; unsigned l1, f1, l2, f2; std::string p1, p2;
        in >> l1 >> p1 >> f1 >> l2 >> p2 >> f2;
        memset(a.pointers, 0x11, sizeof a.pointers); memset(b.pointers, 0x22, sizeof b.pointers);
        a.length = l1; a.full = f1; b.length = l2; b.full = f2;
        if (l1) a.pointers[l1 - 1] = strtoull(p1.c_str(), NULL, 16);
        if (l2) b.pointers[l2 - 1] = strtoull(p2.c_str(), NULL, 16);
        int c = a.Compare(b);
        std::cout << (a == b ? 1 : 0) << ' ' << (c < 0 ? '-' : c > 0 ? '+' : '0') << ' ' << (a < b ? 1 : 0)
                  << ' ' << (hash_value(a) == hash_value(b) ? 1 : 0) << '\n';
      } else if (cmd == "C" || cmd == "C1" || cmd == "C2") {
        r.reuse = cmd == "C" ? 0 : cmd == "C1" ? 1 : 2;
        std::vector<std::string> toks; std::string x;
        while (in >> x) toks.push_back(x);
        size_t pos = 0;
        ChartState cs;
        float p = r.eval(toks, pos, cs);
        std::ostringstream o;
        o << std::hex << bits(p) << ' ' << std::dec << (unsigned)cs.left.length << ' ' << (cs.left.full ? 1 : 0) << ' ';
        r.print_state(o, cs.right);
        std::cout << o.str() << '\n';
      } else std::cout << "?\n";
    }
  } catch (const util::ProbingSizeException &e) {
    std::cout << "load-exception table-full" << std::endl;
  } catch (const lm::FormatLoadException &e) {
    std::cout << "load-exception format " << std::endl;
    std::cerr << e.what() << std::endl;
  } catch (const std::exception &e) {
    std::cout << "load-exception other" << std::endl;
    std::cerr << e.what() << std::endl;
  }
  return 0;
}

// lmq <file> virtual <vocab> [load_method=..] [enumerate=1]: the type-erased loader lm::ngram::LoadVirtual (what the Python module and
// type-agnostic programs use) -- same head line as the typed run; "S" lines answer "probbits len indep | ..." through BaseFullScore
static int run_virtual(const char *file, const std::vector<std::string> &vocab, Opts &opt) {
  Config config;
  config.messages = NULL; config.show_progress = false; config.arpa_complain = Config::NONE;
  if (opt.kv.count("load_method")) {
    const std::string &l = opt.kv["load_method"];
    config.load_method = l == "lazy" ? util::LAZY : l == "populate" ? util::POPULATE_OR_LAZY : l == "populate_read" ? util::POPULATE_OR_READ : util::READ;
  }
  Collect collect;
  if (opt.kv.count("enumerate")) config.enumerate_vocab = &collect;
  try {
    lm::base::Model *m = lm::ngram::LoadVirtual(file, config);
    std::cout << "loaded order=" << (unsigned)m->Order() << " eos=" << m->BaseVocabulary().EndSentence();
    { ModelType mt; bool bin = RecognizeBinary(file, mt); std::cout << " binary=" << (bin ? (int)mt : -1); }
    if (opt.kv.count("enumerate")) {
      std::cout << " enum=";
      for (size_t i = 0; i < collect.items.size(); ++i) std::cout << (i ? "," : "") << collect.items[i];
    }
    std::cout << std::endl;
    std::vector<lm::WordIndex> to_model;
    for (size_t i = 0; i < vocab.size(); ++i) to_model.push_back(m->BaseVocabulary().Index(vocab[i]));
    std::vector<char> a(m->StateSize()), b(m->StateSize());
    std::string line;
    while (std::getline(std::cin, line)) {
      std::istringstream in(line); std::string cmd; in >> cmd;
      if (cmd != "S") { std::cout << "?\n"; continue; }
      int bos; in >> bos;
      if (bos) m->BeginSentenceWrite(&a[0]); else m->NullContextWrite(&a[0]);
      std::ostringstream o; std::string x; bool first = true;
      while (in >> x) {
        lm::FullScoreReturn r = m->BaseFullScore(&a[0], to_model.at(strtoul(x.c_str(), NULL, 16)), &b[0]);
        if (!first) o << " | ";
        first = false;
        o << std::hex << bits(r.prob) << ' ' << std::dec << (unsigned)r.ngram_length << ' ' << (r.independent_left ? 1 : 0);
        a.swap(b);
      }
      std::cout << o.str() << '\n';
    }
    delete m;
  } catch (const std::exception &e) {
    std::string w(e.what()); for (size_t i = 0; i < w.size(); ++i) if (w[i] == '\n') w[i] = ' ';
    std::cout << "load-exception " << w << std::endl;
  }
  return 0;
}

// lmq --sizes : one request per line  "TSZ <array 0|1> <pointer_bhiksha_bits> <counts,>"  ->  "<SortedVocabulary::Size> <TrieSearch::Size>"
static int sizes_mode() {
  std::string line;
  while (std::getline(std::cin, line)) {
    std::istringstream in(line); std::string cmd, a, b, c; in >> cmd >> a >> b >> c;
    if (cmd != "TSZ") { std::cout << "?\n"; continue; }
    std::vector<uint64_t> counts; std::istringstream cs(c); std::string x;
    while (std::getline(cs, x, ',')) counts.push_back(strtoull(x.c_str(), NULL, 10));
    lm::ngram::Config config; config.pointer_bhiksha_bits = (uint8_t)atoi(b.c_str());
    uint64_t v = lm::ngram::SortedVocabulary::Size(counts[0], config);
    uint64_t s = (a == "1") ? lm::ngram::trie::TrieSearch<lm::ngram::DontQuantize, lm::ngram::trie::ArrayBhiksha>::Size(counts, config)
                            : lm::ngram::trie::TrieSearch<lm::ngram::DontQuantize, lm::ngram::trie::DontBhiksha>::Size(counts, config);
    std::cout << v << ' ' << s << '\n';
  }
  return 0;
}

int main(int argc, char **argv) {
  if (argc == 2 && std::string(argv[1]) == "--sizes") return sizes_mode();
  if (argc < 4) { std::cerr << "usage\n"; return 2; }
  std::vector<std::string> vocab;
  {
    std::ifstream v(argv[3], std::ios::binary); std::string l;
    while (std::getline(v, l)) vocab.push_back(l);
  }
  Opts opt;
  for (int i = 4; i < argc; ++i) {
    std::string a(argv[i]); size_t e = a.find('=');
    if (e != std::string::npos) opt.kv[a.substr(0, e)] = a.substr(e + 1);
  }
  std::string t(argv[2]);
  if (t == "virtual") return run_virtual(argv[1], vocab, opt);
  if (t == "probing") return run<ProbingModel>(argv[1], vocab, opt);
  if (t == "rest") return run<RestProbingModel>(argv[1], vocab, opt);
  if (t == "trie") return run<TrieModel>(argv[1], vocab, opt);
  if (t == "qtrie") return run<QuantTrieModel>(argv[1], vocab, opt);
  if (t == "atrie") return run<ArrayTrieModel>(argv[1], vocab, opt);
  if (t == "qatrie") return run<QuantArrayTrieModel>(argv[1], vocab, opt);
  return 2;
}
