// C15 implementation driver: calls the REAL util functions (util/file.cc, util/file_stream.hh) on a scratch
// file whose system calls are answered by the LD_PRELOAD shim (harness/shim/io_shim.c) from the outcome
// list given on the case line -- the same list the extracted Coq model receives.
//
// One case per input line, one answer line per case; every case runs in a forked child so that a
// std::terminate (throwing destructor) or a crash is an observation, not the end of the driver.
//
//   W  <data> <oracle>                 util::WriteOrThrow(fd, data, size)      -> <status> <bytes in file> <calls>
//   R  <e> <src> <amount> <oracle>     e=1 util::ReadOrThrow, e=0 util::ReadOrEOF -> <status> <bytes delivered> <calls>
//   P  <src> <amount> <oracle>         util::PartialRead                        -> <status> <bytes delivered> <calls>
//   PR <file> <size> <off> <oracle>    util::ErsatzPRead                        -> <status> <bytes delivered> <calls>
//   PW <file> <data> <off> <oracle>    util::ErsatzPWrite                       -> <status> <file afterwards> <bytes transferred> <calls>
//   S  <f|t> <n> <oracle>              util::FSyncOrThrow / util::ResizeOrThrow(n) -> <status> - <calls>
//   FS <bufsize> <oracle> <op,op,..>   util::FileStream: w<hex> write, a<dec> uint16, b<dec> uint32, c<dec> uint64, p<hex byte> put, f flush;
//                                      then the destructor                      -> <status> <bytes in file> <calls>
//   SN <file> <oracle>                 util::ReadCompressed(fd), then ONE Read(buf, 64): for uncompressed input that returns exactly the
//                                      header bytes ReadFactory sniffed for DetectMagic              -> <status> <header bytes> <calls>
//   RC <file> <oracle>                 util::ReadCompressed(fd), Read() until 0 (gz / bz2 / xz / plain) -> <status> <decompressed bytes> <calls>
//   K                                  constants: kToStringMaxBytes and the kBytes of uint16/32/64
// bytes are hex ("-" = empty); oracle = comma separated d<N> | i | f<errno> ("-" = empty).
// status: ok | fd:<errno> | eof | nooracle | abort | died:<signal>
#include "util/exception.hh"
#include "util/file.hh"
#include "util/file_stream.hh"
#include "util/read_compressed.hh"

#include <cerrno>
#include <cstdio>
#include <cstdlib>
#include <cstring>
#include <exception>
#include <iostream>
#include <sstream>
#include <string>
#include <vector>

#include <dlfcn.h>
#include <stdint.h>
#include <sys/wait.h>
#include <unistd.h>

namespace {

typedef void (*arm_t)(int, const char *);
typedef int (*disarm_t)(void);
typedef long (*transferred_t)(void);
arm_t shim_arm;
disarm_t shim_disarm;
transferred_t shim_transferred;

std::string scratch_dir = "/var/tmp";

std::string Unhex(const std::string &h) {
  std::string out;
  if (h == "-") return out;
  for (std::size_t i = 0; i + 1 < h.size(); i += 2) out.push_back(static_cast<char>(strtol(h.substr(i, 2).c_str(), NULL, 16)));
  return out;
}
std::string Hex(const std::string &s) {
  if (s.empty()) return "-";
  static const char *d = "0123456789abcdef";
  std::string out;
  for (std::size_t i = 0; i < s.size(); ++i) { out.push_back(d[(unsigned char)s[i] >> 4]); out.push_back(d[(unsigned char)s[i] & 15]); }
  return out;
}
std::string Script(std::string o) {
  if (o == "-") return "";
  for (std::size_t i = 0; i < o.size(); ++i) if (o[i] == ',') o[i] = ' ';
  return o;
}

int MakeFile(const std::string &content) {
  std::string name = scratch_dir + "/c15drvXXXXXX";
  std::vector<char> buf(name.begin(), name.end());
  buf.push_back(0);
  int fd = mkstemp(&buf[0]);
  if (fd < 0) { perror("mkstemp"); _exit(3); }
  unlink(&buf[0]);
  std::size_t done = 0;
  while (done < content.size()) {
    ssize_t w = ::pwrite(fd, content.data() + done, content.size() - done, done);
    if (w <= 0) { perror("prefill"); _exit(3); }
    done += w;
  }
  lseek(fd, 0, SEEK_SET);
  return fd;
}

std::string Slurp(int fd) {
  std::string out;
  char buf[65536];
  off_t off = 0;
  for (;;) {
    ssize_t g = ::pread(fd, buf, sizeof buf, off);
    if (g <= 0) break;
    out.append(buf, g);
    off += g;
  }
  return out;
}

// state the terminate handler needs
int g_fd = -1;
bool g_report_file = false;

void Answer(const std::string &line) {
  std::string l = line + "\n";
  std::size_t done = 0;
  while (done < l.size()) {
    ssize_t w = ::write(1, l.data() + done, l.size() - done);
    if (w <= 0) break;
    done += w;
  }
}

std::string Calls(int consumed) {
  std::ostringstream s;
  s << (consumed & ((1 << 30) - 1));
  return s.str();
}

void OnTerminate() {
  int consumed = shim_disarm();
  std::string st = (consumed & (1 << 30)) ? "nooracle" : "abort";
  Answer(st + " " + (g_report_file ? Hex(Slurp(g_fd)) : std::string("-")) + " " + Calls(consumed));
  _exit(0);
}

template <class F> std::string Status(F f, int &consumed) {
  std::string st = "ok";
  try {
    f();
  } catch (const util::EndOfFileException &) {
    st = "eof";
  } catch (const util::ErrnoException &e) {
    std::ostringstream s;
    s << "fd:" << e.Error();
    st = s.str();
  } catch (const util::Exception &) {
    st = "exc";                        // e.g. a decompressor complaining about the data
  } catch (const std::exception &e) {
    st = std::string("other:") + typeid(e).name();
  }
  consumed = shim_disarm();
  if (consumed & (1 << 30)) st = "nooracle";
  return st;
}

struct WriteCase {
  int fd; const std::string &data;
  void operator()() const { util::WriteOrThrow(fd, data.data(), data.size()); }
};
struct ReadCase {
  int fd; bool exact; std::string &buf; std::size_t amount; std::size_t &returned;
  void operator()() const {
    if (exact) { util::ReadOrThrow(fd, &buf[0], amount); returned = amount; }
    else returned = util::ReadOrEOF(fd, &buf[0], amount);
  }
};
struct PartialCase {
  int fd; std::string &buf; std::size_t amount;
  void operator()() const { util::PartialRead(fd, &buf[0], amount); }
};
struct PReadCase {
  int fd; std::string &buf; std::size_t size; uint64_t off;
  void operator()() const { util::ErsatzPRead(fd, &buf[0], size, off); }
};
struct PWriteCase {
  int fd; const std::string &data; uint64_t off;
  void operator()() const { util::ErsatzPWrite(fd, data.data(), data.size(), off); }
};
struct SingleCase {
  int fd; char kind; uint64_t n;
  void operator()() const { if (kind == 'f') util::FSyncOrThrow(fd); else util::ResizeOrThrow(fd, n); }
};
struct CompressedCase {
  int fd; bool all; std::string &out;
  void operator()() const {
    util::ReadCompressed rc(fd);      // takes ownership of fd
    char buf[4096];
    if (!all) { out.assign(buf, rc.Read(buf, 64)); return; }
    std::size_t got;
    while ((got = rc.Read(buf, sizeof buf))) out.append(buf, got);
  }
};
struct StreamCase {
  int fd; std::size_t bufsize; const std::vector<std::string> &ops;
  void operator()() const {
    util::FileStream s(fd, bufsize);
    for (std::size_t i = 0; i < ops.size(); ++i) {
      const std::string &op = ops[i];
      switch (op[0]) {
        case 'w': { std::string d = Unhex(op.substr(1)); s.write(d.data(), d.size()); break; }
        case 'a': s << static_cast<uint16_t>(strtoul(op.c_str() + 1, NULL, 10)); break;
        case 'b': s << static_cast<uint32_t>(strtoul(op.c_str() + 1, NULL, 10)); break;
        case 'c': s << static_cast<uint64_t>(strtoull(op.c_str() + 1, NULL, 10)); break;
        case 'p': s << Unhex(op.substr(1))[0]; break;
        case 'f': s.flush(); break;
      }
    }
  }  // ~FileStream flushes
};

void RunCase(const std::string &line) {
  std::istringstream in(line);
  std::string kind;
  in >> kind;
  int consumed = 0;
  std::ostringstream out;
  if (kind == "K") {
    out << "K " << (int)util::kToStringMaxBytes << " " << (int)util::ToStringBuf<uint16_t>::kBytes << " "
        << (int)util::ToStringBuf<uint32_t>::kBytes << " " << (int)util::ToStringBuf<uint64_t>::kBytes;
  } else if (kind == "W") {
    std::string data, oracle;
    in >> data >> oracle;
    std::string d = Unhex(data);
    g_fd = MakeFile(""); g_report_file = true;
    shim_arm(g_fd, Script(oracle).c_str());
    WriteCase c = {g_fd, d};
    std::string st = Status(c, consumed);
    out << st << " " << Hex(Slurp(g_fd)) << " " << Calls(consumed);
  } else if (kind == "R" || kind == "P") {
    int e = 1;
    std::string src, oracle; std::size_t amount;
    if (kind == "R") in >> e;
    in >> src >> amount >> oracle;
    g_fd = MakeFile(Unhex(src));
    std::string buf(amount + 1, '\0');
    std::size_t returned = 0;
    shim_arm(g_fd, Script(oracle).c_str());
    std::string st;
    if (kind == "R") { ReadCase c = {g_fd, e != 0, buf, amount, returned}; st = Status(c, consumed); }
    else { PartialCase c = {g_fd, buf, amount}; st = Status(c, consumed); }
    long t = shim_transferred();
    out << st << " " << Hex(buf.substr(0, t)) << " " << Calls(consumed);
    if (kind == "R" && st == "ok" && (long)returned != t) out << " RETURNED-COUNT-MISMATCH:" << returned;
  } else if (kind == "PR") {
    std::string file, oracle; std::size_t size; uint64_t off;
    in >> file >> size >> off >> oracle;
    g_fd = MakeFile(Unhex(file));
    std::string buf(size + 1, '\0');
    shim_arm(g_fd, Script(oracle).c_str());
    PReadCase c = {g_fd, buf, size, off};
    std::string st = Status(c, consumed);
    out << st << " " << Hex(buf.substr(0, shim_transferred())) << " " << Calls(consumed);
  } else if (kind == "PW") {
    std::string file, data, oracle; uint64_t off;
    in >> file >> data >> off >> oracle;
    std::string d = Unhex(data);
    g_fd = MakeFile(Unhex(file));
    shim_arm(g_fd, Script(oracle).c_str());
    PWriteCase c = {g_fd, d, off};
    std::string st = Status(c, consumed);
    out << st << " " << Hex(Slurp(g_fd)) << " " << shim_transferred() << " " << Calls(consumed);
  } else if (kind == "SN" || kind == "RC") {
    std::string file, oracle;
    in >> file >> oracle;
    g_fd = MakeFile(Unhex(file));
    std::string got;
    shim_arm(g_fd, Script(oracle).c_str());
    CompressedCase c = {g_fd, kind == "RC", got};
    std::string st = Status(c, consumed);
    out << st << " " << Hex(got) << " " << Calls(consumed);
  } else if (kind == "S") {
    std::string k, oracle; uint64_t n;
    in >> k >> n >> oracle;
    g_fd = MakeFile("");
    shim_arm(g_fd, Script(oracle).c_str());
    SingleCase c = {g_fd, k[0], n};
    std::string st = Status(c, consumed);
    out << st << " - " << Calls(consumed);
  } else if (kind == "FS") {
    std::size_t bufsize; std::string oracle, opstr;
    in >> bufsize >> oracle >> opstr;
    std::vector<std::string> ops;
    if (opstr != "-") {
      std::istringstream o(opstr);
      std::string tok;
      while (std::getline(o, tok, ',')) if (!tok.empty()) ops.push_back(tok);
    }
    g_fd = MakeFile(""); g_report_file = true;
    shim_arm(g_fd, Script(oracle).c_str());
    StreamCase c = {g_fd, bufsize, ops};
    std::string st = Status(c, consumed);
    out << st << " " << Hex(Slurp(g_fd)) << " " << Calls(consumed);
  } else {
    out << "BAD-CASE";
  }
  Answer(out.str());
}

}  // namespace

int main(int argc, char **argv) {
  if (argc > 1) scratch_dir = argv[1];
  shim_arm = (arm_t)dlsym(RTLD_DEFAULT, "io_shim_arm");
  shim_disarm = (disarm_t)dlsym(RTLD_DEFAULT, "io_shim_disarm");
  shim_transferred = (transferred_t)dlsym(RTLD_DEFAULT, "io_shim_transferred");
  if (!shim_arm || !shim_disarm || !shim_transferred) {
    std::cerr << "c15_driver: io_shim.so is not preloaded" << std::endl;
    return 3;
  }
  std::set_terminate(OnTerminate);
  std::string line;
  while (std::getline(std::cin, line)) {
    pid_t pid = fork();
    if (pid == 0) {
      RunCase(line);
      _exit(0);
    }
    int status = 0;
    waitpid(pid, &status, 0);
    if (WIFSIGNALED(status)) {
      std::ostringstream s;
      s << "died:" << WTERMSIG(status);
      Answer(s.str());
    } else if (WEXITSTATUS(status) != 0) {
      Answer("died:exit");
    }
  }
  return 0;
}
