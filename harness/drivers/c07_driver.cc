// C07 component driver: the real lm::builder::CorpusCount on a chain with a chosen block size; dumps the records of
// every block it passes down the chain (same protocol as ocaml/c07_driver.ml).
//   CC <order> <block_count> <chain_mem> <vocab_estimate> <corpus_file>
//   -> cap=<entries per block> types=<n> tokens=<n> # w1.w2:count ... | w1.w2:count ...
#include "lm/builder/corpus_count.hh"
#include "lm/builder/payload.hh"
#include "lm/common/ngram.hh"
#include "lm/lm_exception.hh"
#include "util/file.hh"
#include "util/file_piece.hh"
#include "util/stream/chain.hh"

#include <boost/ref.hpp>
#include <cstdio>
#include <cstdlib>
#include <cstring>
#include <iostream>
#include <sstream>
#include <string>
#include <vector>
#include <signal.h>
#include <sys/wait.h>
#include <unistd.h>

namespace {
std::string g_tmp;
uint64_t hx(const std::string &s) { return strtoull(s.c_str(), NULL, 16); }

std::string Handle(const std::string &line) {
  std::istringstream in(line);
  std::string cmd, order_s, bc_s, mem_s, ve_s, file;
  in >> cmd >> order_s >> bc_s >> mem_s >> ve_s >> file;
  if (cmd != "CC") return "?";
  const std::size_t order = hx(order_s);
  try {
    util::stream::ChainConfig cc(lm::NGram<lm::builder::BuildingPayload>::TotalSize(order), hx(bc_s), hx(mem_s));
    util::stream::Chain chain(cc);
    util::scoped_fd vocab(util::MakeTemp(g_tmp));
    util::FilePiece text(file.c_str());
    uint64_t token_count = 0;
    lm::WordIndex type_count = hx(ve_s);
    std::vector<bool> prune_words;
    const std::size_t cap = chain.BlockSize() / chain.EntrySize();
    lm::builder::CorpusCount counter(text, vocab.get(), true, token_count, type_count, prune_words, "", cap, lm::SILENT);
    chain >> boost::ref(counter);
    std::vector<std::string> blocks;
    {
      util::stream::Link l(chain.Add());
      chain >> util::stream::kRecycle;
      for (; l; ++l) {
        std::ostringstream o;
        const uint8_t *p = static_cast<const uint8_t*>(l->Get());
        const std::size_t n = l->ValidSize() / chain.EntrySize();
        if (l->ValidSize() % chain.EntrySize()) o << "RAGGED ";
        for (std::size_t i = 0; i < n; ++i, p += chain.EntrySize()) {
          if (i) o << ' ';
          const lm::WordIndex *w = reinterpret_cast<const lm::WordIndex*>(p);
          for (std::size_t j = 0; j < order; ++j) o << (j ? "." : "") << std::hex << w[j];
          uint64_t count; memcpy(&count, p + 4 * order, 8);
          o << ':' << std::hex << count;
        }
        blocks.push_back(o.str());
      }
    }
    chain.Wait(true);
    std::ostringstream head;
    head << "cap=" << std::hex << cap << " types=" << type_count << " tokens=" << token_count << " # ";
    std::string body;
    for (std::size_t i = 0; i < blocks.size(); ++i) { if (i) body += " | "; body += blocks[i]; }
    return head.str() + body;
  } catch (const std::exception &e) {
    std::string w = e.what(); for (size_t i = 0; i < w.size(); ++i) if (w[i] == '\n') w[i] = ' ';
    return "EXCEPTION " + w;
  }
}
} // namespace

int main() {
  const char *t = getenv("VERIF_TMP");
  g_tmp = t ? t : "/var/tmp/c07-driver-";
  std::string line;
  while (std::getline(std::cin, line)) {
    fflush(stdout);
    pid_t pid = fork();
    if (pid == 0) {
      alarm(120);
      std::string r = Handle(line) + "\n";
      size_t done = 0;
      while (done < r.size()) { ssize_t w = write(1, r.data() + done, r.size() - done); if (w <= 0) break; done += w; }
      _exit(0);
    }
    int status = 0;
    waitpid(pid, &status, 0);
    if (WIFSIGNALED(status)) { printf("DIED signal=%d\n", WTERMSIG(status)); fflush(stdout); }
    else if (WIFEXITED(status) && WEXITSTATUS(status) != 0) { printf("DIED exit=%d\n", WEXITSTATUS(status)); fflush(stdout); }
  }
  return 0;
}
