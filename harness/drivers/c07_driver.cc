// C07 component driver: the real lm::builder::CorpusCount on a chain with a chosen block size; dumps the records of
// every block it passes down the chain (same protocol as ocaml/c07_driver.ml).
//   CC <order> <block_count> <chain_mem> <vocab_estimate> <corpus_file>
//   -> cap=<entries per block> types=<n> tokens=<n> # w1.w2:count ... | w1.w2:count ...
//   AC <order> <thr_1,...,thr_order> <pruned word ids|-> <types> <block_count> rec rec / rec ...
//      the real lm::builder::AdjustCounts (with its CollapseStream) fed with the sorted highest-order counts in the given
//      blocks; -> O1 rec ... # O2 ... # On blocks of the highest order as passed on (rec = words:count, * = marked)
//                 # counts=.. pruned=.. discounts=..
#include "lm/builder/corpus_count.hh"
#include "lm/builder/adjust_counts.hh"
#include "util/stream/multi_stream.hh"
#include "lm/builder/payload.hh"
#include "lm/common/ngram.hh"
#include "lm/lm_exception.hh"
#include "util/file.hh"
#include "util/file_piece.hh"
#include "util/stream/chain.hh"

#include <boost/ref.hpp>
#include <cstdio>
#include <cstdlib>
#include <cstring>
#include <iostream>
#include <sstream>
#include <string>
#include <vector>
#include <signal.h>
#include <sys/wait.h>
#include <unistd.h>

namespace {
std::string g_tmp;
uint64_t hx(const std::string &s) { return strtoull(s.c_str(), NULL, 16); }

struct BlockProducer {
  BlockProducer(const std::vector<std::vector<uint8_t> > *blocks) : blocks_(blocks) {}
  void Run(const util::stream::ChainPosition &position) {
    util::stream::Link l(position);
    for (std::size_t b = 0; b < blocks_->size(); ++b, ++l) {
      if (!(*blocks_)[b].empty()) memcpy(l->Get(), &(*blocks_)[b][0], (*blocks_)[b].size());
      l->SetValidSize((*blocks_)[b].size());
    }
    l.Poison();
  }
  const std::vector<std::vector<uint8_t> > *blocks_;
};

struct Collector {
  Collector(std::vector<std::string> *out, std::size_t order) : out_(out), order_(order) {}
  void Run(const util::stream::ChainPosition &position) {
    const std::size_t es = position.GetChain().EntrySize();
    for (util::stream::Link l(position); l; ++l) {
      std::ostringstream o;
      const uint8_t *p = static_cast<const uint8_t*>(l->Get());
      if (l->ValidSize() % es) o << "RAGGED ";
      for (std::size_t i = 0; i < l->ValidSize() / es; ++i, p += es) {
        if (i) o << ' ';
        for (std::size_t j = 0; j < order_; ++j) { uint32_t w; memcpy(&w, p + 4 * j, 4); o << (j ? "." : "") << std::hex << w; }
        uint64_t count; memcpy(&count, p + 4 * order_, 8);
        o << ':' << std::hex << (count & ~(1ULL << 63));
        if (count >> 63) o << '*';
      }
      out_->push_back(o.str());
    }
  }
  std::vector<std::string> *out_; std::size_t order_;
};

std::string HandleAdjust(std::istringstream &in) {
  std::string order_s, thr_s, pw_s, types_s, bc_s;
  in >> order_s >> thr_s >> pw_s >> types_s >> bc_s;
  const std::size_t order = hx(order_s), types = hx(types_s), block_count = hx(bc_s);
  std::vector<uint64_t> thresholds;
  { std::istringstream t(thr_s); std::string x; while (std::getline(t, x, ',')) thresholds.push_back(hx(x)); }
  std::vector<bool> prune_words;
  if (pw_s != "-") { prune_words.resize(types, false); std::istringstream t(pw_s); std::string x; while (std::getline(t, x, ',')) prune_words[hx(x)] = true; }
  const std::size_t es = lm::NGram<lm::builder::BuildingPayload>::TotalSize(order);
  std::vector<std::vector<uint8_t> > blocks(1);
  std::string tok; std::size_t biggest = 1;
  while (in >> tok) {
    if (tok == "/") { blocks.push_back(std::vector<uint8_t>()); continue; }
    std::vector<uint8_t> &b = blocks.back();
    std::size_t at = b.size(); b.resize(at + es);
    std::size_t colon = tok.find(':'), start = 0;
    for (std::size_t i = 0; i < order; ++i) {
      std::size_t dot = tok.find('.', start);
      if (dot == std::string::npos || dot > colon) dot = colon;
      uint32_t w = (uint32_t)hx(tok.substr(start, dot - start)); memcpy(&b[at + 4 * i], &w, 4); start = dot + 1;
    }
    uint64_t c = hx(tok.substr(colon + 1)); memcpy(&b[at + 4 * order], &c, 8);
    biggest = std::max(biggest, b.size() / es);
  }
  std::vector<uint64_t> counts, counts_pruned;
  std::vector<lm::builder::Discount> discounts;
  lm::builder::DiscountConfig dc;
  dc.fallback.amount[0] = 0.0; dc.fallback.amount[1] = 0.5; dc.fallback.amount[2] = 1.0; dc.fallback.amount[3] = 1.5;
  dc.bad_action = lm::SILENT;
  std::vector<std::vector<std::string> > out(order);
  {
    util::stream::Chains chains(order);
    for (std::size_t i = 0; i < order; ++i) {
      const std::size_t e = lm::NGram<lm::builder::BuildingPayload>::TotalSize(i + 1);
      // lower orders: small blocks (7 records) so that their block boundaries are exercised as well
      chains.push_back(util::stream::ChainConfig(e, i + 1 == order ? block_count : 2, i + 1 == order ? biggest * e * block_count : 7 * e * 2));
    }
    chains.back() >> BlockProducer(&blocks);
    chains >> lm::builder::AdjustCounts(thresholds, counts, counts_pruned, prune_words, dc, discounts);
    for (std::size_t i = 0; i < order; ++i) chains[i] >> Collector(&out[i], i + 1) >> util::stream::kRecycle;
    chains.Wait(true);
  }
  std::ostringstream o;
  for (std::size_t i = 0; i < order; ++i) {
    o << (i ? " # " : "") << "O" << (i + 1);
    if (i + 1 == order) { for (std::size_t b = 0; b < out[i].size(); ++b) o << (b ? " | " : " ") << out[i][b]; }
    else { for (std::size_t b = 0; b < out[i].size(); ++b) if (!out[i][b].empty()) o << ' ' << out[i][b]; }
  }
  o << " # counts=";
  for (std::size_t i = 0; i < counts.size(); ++i) o << (i ? "," : "") << std::hex << counts[i];
  o << " pruned=";
  for (std::size_t i = 0; i < counts_pruned.size(); ++i) o << (i ? "," : "") << std::hex << counts_pruned[i];
  o << " discounts=";
  for (std::size_t i = 0; i < discounts.size(); ++i) for (int k = 0; k < 4; ++k) { uint32_t bits; memcpy(&bits, &discounts[i].amount[k], 4); o << (i || k ? "," : "") << std::hex << bits; }
  return o.str();
}

std::string Handle(const std::string &line) {
  std::istringstream in(line);
  std::string cmd, order_s, bc_s, mem_s, ve_s, file;
  in >> cmd >> order_s >> bc_s >> mem_s >> ve_s >> file;
  if (cmd == "AC") {
    std::istringstream in2(line); std::string c; in2 >> c;
    try { return HandleAdjust(in2); }
    catch (const std::exception &e) { std::string w = e.what(); for (size_t i = 0; i < w.size(); ++i) if (w[i] == '\n') w[i] = ' '; return "EXCEPTION " + w; }
  }
  if (cmd != "CC") return "?";
  const std::size_t order = hx(order_s);
  try {
    util::stream::ChainConfig cc(lm::NGram<lm::builder::BuildingPayload>::TotalSize(order), hx(bc_s), hx(mem_s));
    util::stream::Chain chain(cc);
    util::scoped_fd vocab(util::MakeTemp(g_tmp));
    util::FilePiece text(file.c_str());
    uint64_t token_count = 0;
    lm::WordIndex type_count = hx(ve_s);
    std::vector<bool> prune_words;
    const std::size_t cap = chain.BlockSize() / chain.EntrySize();
    lm::builder::CorpusCount counter(text, vocab.get(), true, token_count, type_count, prune_words, "", cap, lm::SILENT);
    chain >> boost::ref(counter);
    std::vector<std::string> blocks;
    {
      util::stream::Link l(chain.Add());
      chain >> util::stream::kRecycle;
      for (; l; ++l) {
        std::ostringstream o;
        const uint8_t *p = static_cast<const uint8_t*>(l->Get());
        const std::size_t n = l->ValidSize() / chain.EntrySize();
        if (l->ValidSize() % chain.EntrySize()) o << "RAGGED ";
        for (std::size_t i = 0; i < n; ++i, p += chain.EntrySize()) {
          if (i) o << ' ';
          const lm::WordIndex *w = reinterpret_cast<const lm::WordIndex*>(p);
          for (std::size_t j = 0; j < order; ++j) o << (j ? "." : "") << std::hex << w[j];
          uint64_t count; memcpy(&count, p + 4 * order, 8);
          o << ':' << std::hex << count;
        }
        blocks.push_back(o.str());
      }
    }
    chain.Wait(true);
    std::ostringstream head;
    head << "cap=" << std::hex << cap << " types=" << type_count << " tokens=" << token_count << " # ";
    std::string body;
    for (std::size_t i = 0; i < blocks.size(); ++i) { if (i) body += " | "; body += blocks[i]; }
    return head.str() + body;
  } catch (const std::exception &e) {
    std::string w = e.what(); for (size_t i = 0; i < w.size(); ++i) if (w[i] == '\n') w[i] = ' ';
    return "EXCEPTION " + w;
  }
}
} // namespace

int main() {
  const char *t = getenv("VERIF_TMP");
  g_tmp = t ? t : "/var/tmp/c07-driver-";
  std::string line;
  while (std::getline(std::cin, line)) {
    fflush(stdout);
    pid_t pid = fork();
    if (pid == 0) {
      alarm(120);
      std::string r = Handle(line) + "\n";
      size_t done = 0;
      while (done < r.size()) { ssize_t w = write(1, r.data() + done, r.size() - done); if (w <= 0) break; done += w; }
      _exit(0);
    }
    int status = 0;
    waitpid(pid, &status, 0);
    if (WIFSIGNALED(status)) { printf("DIED signal=%d\n", WTERMSIG(status)); fflush(stdout); }
    else if (WIFEXITED(status) && WEXITSTATUS(status) != 0) { printf("DIED exit=%d\n", WEXITSTATUS(status)); fflush(stdout); }
  }
  return 0;
}
