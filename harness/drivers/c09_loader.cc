// C09 specification-oracle driver: offers an image file to the real loader and reports what happens.
//
//   c09_loader <query file>      then one image path per line on stdin
// answer per line:   <noenum> <enum>
//   each of which is  EXC:<exception class>                       the loader rejected the file with an exception
//                     SIG:<n>                                     the loader died (signal)
//                     HANG:<n>                                    the loader used 10 s of CPU time (or 300 s) without finishing
//                     OK:<digest of all query answers>[:<digest of the enumerated vocabulary>:<number of words>]
// The load goes through lm::ngram::LoadVirtual (which recognises all binary model types), once without and once
// with Config::enumerate_vocab; every case runs in a forked child.
#include "lm/config.hh"
#include "lm/enumerate_vocab.hh"
#include "lm/model.hh"
#include "lm/virtual_interface.hh"
#include "util/exception.hh"

#include <cstdio>
#include <cstring>
#include <fstream>
#include <iostream>
#include <sstream>
#include <string>
#include <typeinfo>
#include <vector>

#include <signal.h>
#include <stdint.h>
#include <sys/resource.h>
#include <sys/wait.h>
#include <unistd.h>

namespace {

std::vector<std::vector<std::string> > sentences;

uint64_t Mix(uint64_t h, uint64_t v) {
  h ^= v + 0x9e3779b97f4a7c15ULL + (h << 6) + (h >> 2);
  return h * 0x100000001b3ULL;
}

class Collect : public lm::EnumerateVocab {
  public:
    Collect() : hash_(1469598103934665603ULL), count_(0) {}
    void Add(lm::WordIndex index, const StringPiece &str) {
      hash_ = Mix(hash_, index);
      for (std::size_t i = 0; i < str.size(); ++i) hash_ = Mix(hash_, (unsigned char)str.data()[i]);
      hash_ = Mix(hash_, 0x100);
      ++count_;
    }
    uint64_t hash_;
    uint64_t count_;
};

std::string Attempt(const char *path, bool enumerate) {
  std::ostringstream out;
  try {
    lm::ngram::Config config;
    config.messages = NULL;
    Collect collect;
    if (enumerate) config.enumerate_vocab = &collect;
    lm::base::Model *model = lm::ngram::LoadVirtual(path, config);
    std::vector<char> a(model->StateSize()), b(model->StateSize());
    uint64_t h = 1469598103934665603ULL;
    const lm::base::Vocabulary &vocab = model->BaseVocabulary();
    for (std::size_t s = 0; s < sentences.size(); ++s) {
      model->BeginSentenceWrite(&a[0]);
      for (std::size_t w = 0; w <= sentences[s].size(); ++w) {
        lm::WordIndex id = w < sentences[s].size() ? vocab.Index(sentences[s][w]) : vocab.EndSentence();
        lm::FullScoreReturn r = model->BaseFullScore(&a[0], id, &b[0]);
        uint32_t bits;
        std::memcpy(&bits, &r.prob, 4);
        h = Mix(h, bits);
        h = Mix(h, r.ngram_length);
        h = Mix(h, id);
        a.swap(b);
      }
    }
    out << "OK:" << std::hex << h;
    if (enumerate) out << ":" << collect.hash_ << ":" << std::dec << collect.count_;
    delete model;
  } catch (const std::exception &e) {
    std::string n = typeid(e).name();
    // keep the class name short and stable
    std::size_t p = n.find("Exception");
    out << "EXC:" << (p == std::string::npos ? n : n.substr(0, p + 9));
  }
  return out.str();
}

std::string InChild(const char *path, bool enumerate) {
  int fds[2];
  if (pipe(fds)) return "PIPE-FAILED";
  pid_t pid = fork();
  if (pid == 0) {
    close(fds[0]);
    // a loader that neither throws nor returns is a verdict too: 10 s of CPU time (independent of how busy the machine is) for a
    // spinning one, 300 s of wall time as a back-stop for a blocked one
    struct rlimit lim = {10, 12};
    setrlimit(RLIMIT_CPU, &lim);
    alarm(300);
    std::string r = Attempt(path, enumerate);
    if (write(fds[1], r.data(), r.size()) < 0) _exit(2);
    _exit(0);
  }
  close(fds[1]);
  std::string got;
  char buf[512];
  ssize_t n;
  while ((n = read(fds[0], buf, sizeof buf)) > 0) got.append(buf, n);
  close(fds[0]);
  int status = 0;
  waitpid(pid, &status, 0);
  if (WIFSIGNALED(status)) {
    std::ostringstream s;
    if (WTERMSIG(status) == SIGXCPU || WTERMSIG(status) == SIGALRM || WTERMSIG(status) == SIGKILL) s << "HANG:" << WTERMSIG(status);
    else s << "SIG:" << WTERMSIG(status);
    return s.str();
  }
  if (got.empty()) return "EXIT:nonzero";
  return got;
}

}  // namespace

int main(int argc, char **argv) {
  if (argc < 2) { std::cerr << "usage: c09_loader queries < paths" << std::endl; return 2; }
  std::ifstream q(argv[1]);
  std::string line;
  while (std::getline(q, line)) {
    std::istringstream s(line);
    std::vector<std::string> words;
    std::string w;
    while (s >> w) words.push_back(w);
    sentences.push_back(words);
  }
  while (std::getline(std::cin, line)) {
    std::string a = InChild(line.c_str(), false), b = InChild(line.c_str(), true);
    std::cout << a << " " << b << std::endl;
  }
  return 0;
}
