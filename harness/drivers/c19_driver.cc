// C19 implementation driver: util::ToString / StringStream / FileStream for floats, doubles, integers and pointers,
// and the round trip through util::FilePiece's number readers.  One case per line on stdin, one answer line per case.
//   F <bits32>      float:  "<text hex> <len> <neg> <is_zero> <digits hex> <point> <readback bits> <reserved ok> <stream text hex>"
//   D <bits64>      double: same
//                   digits/point/neg come from DoubleToStringConverter::DoubleToAscii (public API): the model lays them out
//   U16|I16|U32|I32|U64|I64 <hex value (two's complement)>   "<text hex> <readback hex> <reserved ok>"
//   P <hex>         pointer: "<text hex> <reserved ok>"
//   RF <text hex>   FilePiece::ReadFloat on the given text (followed by a newline): "<bits>" or PERR
//   RD <text hex>   FilePiece::ReadDouble likewise
//   IRT <U|I> <M|S|Z> <min_buffer> <target bytes or 0> <seed> <count>   integer round trip through the streams: <count> (or as
//                   many as fill <target bytes> exactly) uint64 / int64 values are written with util::FileStream <<, one per
//                   line, NOTHING after the last one; read back with ReadULong / ReadLong from the file by name (M: mmap),
//                   through std::istream (S) or from a gzip copy (Z); then one more read must report end of input.
//                   Answer: "ok <values> <bytes>" or "MISMATCH #<index> wrote <v> read <v|exception>"
//   FS <buffer size> <item> ...   util::FileStream(fd, buffer size) << items; item = d:<bits64> f:<bits32> u:<hex uint64>
//                   i:<hex int64> p:<hex pointer> s:<length of a string>.  The driver is linked with -Wl,--wrap=malloc: the
//                   allocation FileStream's constructor makes is followed by 64 canary bytes.  Answer:
//                   "<ok|OVERRUN:n> <bytes allocated> <file content equals the StringStream text: 1|0>" (n = bytes written past
//                   the end of the allocation)
//   SWEEPF <start> <count> <stride> <threads>   float bit patterns start, start+stride, ...: checks, for every pattern,
//                   length <= ToStringBuf<float>::kBytes, no byte written beyond the reserved bytes, ReadFloat(text) bit-identical
//                   (NaN: NaN); answer "<n checked> <max length> <first failing bits or ->"
//   SWEEPD <seed> <count> <threads>             doubles: boundary classes x random mantissas (seeded), same checks
//   SWEEPI <type> <start> <count> <stride> <threads>   integers of the given type: text == snprintf, readback, length
#include "util/double-conversion/double-conversion.h"
#include "util/fake_ostream.hh"
#include "util/file_piece.hh"
#include "util/file_stream.hh"
#include "util/float_to_string.hh"
#include "util/integer_to_string.hh"
#include "util/string_stream.hh"

#include <cmath>
#include <cstdio>
#include <cstdlib>
#include <cstring>
#include <iostream>
#include <sstream>
#include <string>
#include <thread>
#include <vector>
#include <inttypes.h>
#include <unistd.h>
#include <fstream>
#include <zlib.h>
#include <stdint.h>

// --wrap=malloc: while armed, remember the first allocation and put canary bytes after it
extern "C" void *__real_malloc(size_t);
namespace { bool g_arm = false; unsigned char *g_block = NULL; size_t g_block_size = 0; const size_t kTail = 64; }
extern "C" void *__wrap_malloc(size_t n) {
  if (g_arm && !g_block) {
    unsigned char *p = (unsigned char *)__real_malloc(n + kTail);
    if (p) { memset(p + n, 0xC3, kTail); g_block = p; g_block_size = n; }
    return p;
  }
  return __real_malloc(n);
}

namespace {
const unsigned char kCanary = 0xA5;
const size_t kRoom = 96;

union F32 { float f; uint32_t i; };
union F64 { double f; uint64_t i; };

std::string hexs(const char *p, size_t n) {
  static const char *d = "0123456789abcdef";
  std::string r;
  for (size_t i = 0; i < n; ++i) { r += d[(unsigned char)p[i] >> 4]; r += d[(unsigned char)p[i] & 15]; }
  return r.empty() ? "-" : r;
}

// ToString into a buffer whose first `reserved` bytes are what the stream reserved; returns length, sets ok=false when a
// byte beyond them was written or the returned length exceeds them
template <class T> size_t guarded(T v, char *buf, bool &ok) {
  memset(buf, kCanary, kRoom);
  char *end = util::ToString(v, buf);
  size_t len = end - buf;
  size_t reserved = util::ToStringBuf<T>::kBytes;
  ok = len <= reserved;
  for (size_t i = reserved; i < kRoom; ++i) if ((unsigned char)buf[i] != kCanary) ok = false;
  return len;
}

template <class T> std::string stream_text(T v) {
  util::StringStream s;
  s << v;
  return s.str();
}

template <class T> struct Reader;
template <> struct Reader<float> { static float Read(util::FilePiece &f) { return f.ReadFloat(); } };
template <> struct Reader<double> { static double Read(util::FilePiece &f) { return f.ReadDouble(); } };

// read numbers back through FilePiece: many per stream (separated by '\n')
template <class T> bool read_back(const std::string &text, std::vector<T> &out, size_t n) {
  std::istringstream is(text);
  util::FilePiece f(is, "c19", 1 << 16);
  try {
    for (size_t i = 0; i < n; ++i) out.push_back(Reader<T>::Read(f));
  } catch (const std::exception &) { return false; }
  return true;
}

void case_float(const std::string &arg, std::ostream &o, bool dbl) {
  char buf[kRoom];
  bool ok;
  size_t len;
  bool sign; int length, point;
  char digits[32];
  std::string st;
  uint64_t bits = strtoull(arg.c_str(), NULL, 16), back = 0;
  bool special, is_zero;
  if (dbl) {
    F64 v; v.i = bits;
    len = guarded(v.f, buf, ok);
    special = std::isnan(v.f) || std::isinf(v.f);
    is_zero = v.f == 0.0;
    if (!special) double_conversion::DoubleToStringConverter::DoubleToAscii(v.f, double_conversion::DoubleToStringConverter::SHORTEST, 0, digits, sizeof digits, &sign, &length, &point);
    if (ok) st = stream_text(v.f);     // a stream would overrun its reservation as well: do not provoke it
    std::vector<double> r;
    if (read_back(std::string(buf, len) + "\n", r, 1)) { F64 b; b.f = r[0]; back = b.i; } else back = 1;
  } else {
    F32 v; v.i = (uint32_t)bits;
    len = guarded(v.f, buf, ok);
    special = std::isnan(v.f) || std::isinf(v.f);
    is_zero = v.f == 0.0f;
    if (!special) double_conversion::DoubleToStringConverter::DoubleToAscii(v.f, double_conversion::DoubleToStringConverter::SHORTEST_SINGLE, 0, digits, sizeof digits, &sign, &length, &point);
    if (ok) st = stream_text(v.f);
    std::vector<float> r;
    if (read_back(std::string(buf, len) + "\n", r, 1)) { F32 b; b.f = r[0]; back = b.i; } else back = 1;
  }
  o << hexs(buf, len) << ' ' << std::hex << len << ' ';
  if (special) o << "S - - -";
  else o << (sign ? 1 : 0) << ' ' << (is_zero ? 1 : 0) << ' ' << hexs(digits, length) << ' ' << std::dec << point;
  o << ' ' << std::hex << back << ' ' << (ok ? "ok" : "OVERRUN") << ' ' << hexs(st.data(), st.size());
}

template <class T> void case_int(const std::string &arg, std::ostream &o) {
  char buf[kRoom];
  bool ok;
  T v = (T)strtoull(arg.c_str(), NULL, 16);
  size_t len = guarded(v, buf, ok);
  std::string st = stream_text(v);
  if (st != std::string(buf, len)) ok = false;
  // read back with the input layer
  std::istringstream is(std::string(buf, len) + " ");
  util::FilePiece f(is, "c19", 4096);
  uint64_t back;
  try {
    if (std::numeric_limits<T>::is_signed) back = (uint64_t)(T)f.ReadLong(); else back = (uint64_t)(T)f.ReadULong();
  } catch (const std::exception &) { back = 0xdeadbeefdeadbeefULL; ok = false; }
  o << hexs(buf, len) << ' ' << std::hex << (uint64_t)(typename std::make_unsigned<T>::type)back << ' ' << (ok ? "ok" : "BAD");
}

std::string unhex(const std::string &s) {
  std::string r(s.size() / 2, 0);
  for (size_t i = 0; i + 1 < s.size(); i += 2) r[i / 2] = (char)strtoul(s.substr(i, 2).c_str(), NULL, 16);
  return r;
}
void case_read(const std::string &arg, std::ostream &o, bool dbl) {
  std::istringstream is(unhex(arg) + "\n");
  util::FilePiece f(is, "c19", 4096);
  try {
    if (dbl) { F64 v; v.f = f.ReadDouble(); o << std::hex << v.i; }
    else { F32 v; v.f = f.ReadFloat(); o << std::hex << v.i; }
  } catch (const util::ParseNumberException &) { o << "PERR"; }
}

template <class S> void fs_item(S &s, const std::string &item) {
  uint64_t v = strtoull(item.c_str() + 2, NULL, 16);
  switch (item[0]) {
    case 'd': { F64 x; x.i = v; s << x.f; break; }
    case 'f': { F32 x; x.i = (uint32_t)v; s << x.f; break; }
    case 'u': s << (uint64_t)v; break;
    case 'i': s << (int64_t)v; break;
    case 'p': s << reinterpret_cast<const void *>((uintptr_t)v); break;
    case 's': s << std::string((size_t)v, 'x'); break;
    default: break;
  }
  s << ' ';
}
void case_fs(std::istringstream &in, std::ostream &o, const std::string &size_arg) {
  size_t size = strtoull(size_arg.c_str(), NULL, 16);
  std::vector<std::string> items;
  std::string it;
  while (in >> it) items.push_back(it);
  char name[] = "/var/tmp/c19_fs_XXXXXX";
  int fd = mkstemp(name);
  if (fd < 0) { o << "EXC:mkstemp"; return; }
  unlink(name);
  g_block = NULL; g_block_size = 0;
  {
    g_arm = true;
    util::FileStream s(fd, size);
    g_arm = false;
    for (size_t i = 0; i < items.size(); ++i) fs_item(s, items[i]);
  }   // destructor flushes
  size_t past = 0;
  if (g_block) for (size_t i = 0; i < kTail; ++i) if (g_block[g_block_size + i] != 0xC3) past = i + 1;
  util::StringStream ref;
  for (size_t i = 0; i < items.size(); ++i) fs_item(ref, items[i]);
  std::string content(ref.str().size() + 8, 0);
  ssize_t got = pread(fd, &content[0], content.size(), 0);
  close(fd);
  content.resize(got < 0 ? 0 : got);
  if (past) o << "OVERRUN:" << std::dec << past; else o << "ok";
  o << ' ' << std::dec << g_block_size << ' ' << (content == ref.str() ? 1 : 0);
}

uint64_t splitmix(uint64_t &s);
uint64_t irt_value(uint64_t &s, bool is_signed, unsigned max_digits) {
  uint64_t r = splitmix(s), v;
  switch (r % 5) {
    case 0: { uint64_t p = 1; unsigned k = (r >> 8) % 20; for (unsigned i = 0; i < k; ++i) p *= 10; v = p + ((r >> 16) % 3) - 1; break; }
    case 1: v = (1ULL << ((r >> 8) % 64)) + ((r >> 16) % 3) - 1; break;
    case 2: v = (r >> 8) % 100000; break;
    default: v = splitmix(s) >> ((r >> 8) % 64); break;
  }
  if (max_digits < 20) { uint64_t lim = 1; for (unsigned i = 0; i < max_digits; ++i) lim *= 10; v %= lim; }
  if (is_signed && max_digits < 20 && (int64_t)v < 0) v >>= 1;
  return v;
}
template <class T> std::string irt_text(T v) { util::StringStream s; s << v; return s.str(); }

void case_irt(std::istringstream &in, std::ostream &o, const std::string &kind) {
  std::string backend; size_t min_buffer, target, count; uint64_t seed;
  in >> backend >> std::hex >> min_buffer >> target >> seed >> count;
  bool is_signed = kind == "I";
  uint64_t s = seed * 7919 + 13;
  std::vector<uint64_t> vals;
  std::string text;
  if (target) {
    // fill exactly `target` bytes: lines, then a last value with exactly the number of characters that are left
    while (true) {
      size_t left = target - text.size();
      if (left <= 19) break;
      uint64_t v = irt_value(s, is_signed, left > 24 ? 20 : (unsigned)(left - 3));
      std::string tx = is_signed ? irt_text((int64_t)v) : irt_text(v);
      if (tx.size() + 1 + 1 > left) continue;
      vals.push_back(v); text += tx; text += '\n';
    }
    size_t left = target - text.size();         // 1..19 characters
    bool neg = is_signed && left >= 2 && (splitmix(s) & 1);
    size_t nd = left - (neg ? 1 : 0);
    uint64_t v = 1 + splitmix(s) % 8;            // leading digit 1..8 keeps 19 digits inside int64
    for (size_t i = 1; i < nd; ++i) v = v * 10 + splitmix(s) % 10;
    if (neg) v = (uint64_t)(-(int64_t)v);
    vals.push_back(v);
    text += is_signed ? irt_text((int64_t)v) : irt_text(v);
  } else {
    for (size_t i = 0; i < count; ++i) {
      uint64_t v = irt_value(s, is_signed, 20);
      vals.push_back(v);
      text += is_signed ? irt_text((int64_t)v) : irt_text(v);
      if (i + 1 < count) text += '\n';
    }
  }
  // the file is written by the stream under test as well
  char name[] = "/var/tmp/c19_irt_XXXXXX";
  int fd = mkstemp(name);
  if (fd < 0) { o << "EXC:mkstemp"; return; }
  {
    util::FileStream out(fd, 200);
    for (size_t i = 0; i < vals.size(); ++i) {
      if (is_signed) out << (int64_t)vals[i]; else out << vals[i];
      if (i + 1 < vals.size()) out << '\n';
    }
  }
  close(fd);
  std::string gzname = std::string(name) + ".gz";
  {
    std::ifstream chk(name, std::ios::binary);
    std::string content((std::istreambuf_iterator<char>(chk)), std::istreambuf_iterator<char>());
    if (content != text) { o << "MISMATCH file-content FileStream wrote " << content.size() << " bytes, StringStream " << text.size(); unlink(name); return; }
  }
  std::ifstream is;
  util::FilePiece *f = NULL;
  try {
    if (backend == "M") f = new util::FilePiece(name, NULL, min_buffer);
    else if (backend == "S") { is.open(name, std::ios::binary); f = new util::FilePiece(is, "c19-irt", min_buffer); }
    else {
      gzFile g = gzopen(gzname.c_str(), "wb6");
      gzwrite(g, text.data(), (unsigned)text.size());
      gzclose(g);
      f = new util::FilePiece(gzname.c_str(), NULL, min_buffer);
    }
    for (size_t i = 0; i < vals.size(); ++i) {
      uint64_t got;
      try { got = is_signed ? (uint64_t)f->ReadLong() : (uint64_t)f->ReadULong(); }
      catch (const std::exception &e) { o << "MISMATCH #" << std::dec << i << " wrote " << std::hex << vals[i] << " read exception"; delete f; unlink(name); unlink(gzname.c_str()); return; }
      if (got != vals[i]) { o << "MISMATCH #" << std::dec << i << " of " << vals.size() << " wrote " << std::hex << vals[i] << " read " << got; delete f; unlink(name); unlink(gzname.c_str()); return; }
    }
    bool ended = false;
    try { if (is_signed) f->ReadLong(); else f->ReadULong(); } catch (const std::exception &) { ended = true; }
    if (!ended) o << "MISMATCH data after the last value";
    else o << "ok " << std::dec << vals.size() << ' ' << text.size();
  } catch (const std::exception &e) { o << "EXC:" << e.what(); }
  delete f;
  unlink(name);
  unlink(gzname.c_str());
}

void case_ptr(const std::string &arg, std::ostream &o) {
  char buf[kRoom];
  bool ok;
  const void *v = reinterpret_cast<const void *>((uintptr_t)strtoull(arg.c_str(), NULL, 16));
  size_t len = guarded(v, buf, ok);
  std::string st = stream_text(v);
  if (st != std::string(buf, len)) ok = false;
  o << hexs(buf, len) << ' ' << (ok ? "ok" : "BAD");
}

// ---- sweeps ----
struct SweepResult { uint64_t n; size_t maxlen; bool failed; uint64_t first_fail; std::string why; };

template <class T, class Bits> void check_batch(const std::vector<Bits> &pats, SweepResult &res) {
  std::string text;
  char buf[kRoom];
  for (size_t i = 0; i < pats.size(); ++i) {
    union { T f; Bits b; } v; v.b = pats[i];
    bool ok;
    size_t len = guarded(v.f, buf, ok);
    if (len > res.maxlen) res.maxlen = len;
    if (!ok && !res.failed) { res.failed = true; res.first_fail = pats[i]; res.why = "reserved"; }
    text.append(buf, len);
    text += '\n';
  }
  std::vector<T> back;
  bool good = read_back<T>(text, back, pats.size());
  for (size_t i = 0; i < pats.size(); ++i) {
    union { T f; Bits b; } v, r; v.b = pats[i];
    bool same;
    if (i >= back.size()) same = false;
    else { r.f = back[i]; same = std::isnan(v.f) ? std::isnan(r.f) : (r.b == v.b); }
    if (!same && !res.failed) { res.failed = true; res.first_fail = pats[i]; res.why = good ? "roundtrip" : "parse"; }
  }
  res.n += pats.size();
}

void sweep_float(uint64_t start, uint64_t count, uint64_t stride, unsigned threads, std::ostream &o) {
  std::vector<SweepResult> rs(threads);
  std::vector<std::thread> ts;
  for (unsigned t = 0; t < threads; ++t) {
    rs[t].n = 0; rs[t].maxlen = 0; rs[t].failed = false; rs[t].first_fail = 0;
    ts.push_back(std::thread([=, &rs]() {
      std::vector<uint32_t> pats;
      for (uint64_t k = t; k < count; k += threads) {
        pats.push_back((uint32_t)(start + k * stride));
        if (pats.size() == 65536) { check_batch<float, uint32_t>(pats, rs[t]); pats.clear(); }
      }
      if (!pats.empty()) check_batch<float, uint32_t>(pats, rs[t]);
    }));
  }
  for (auto &t : ts) t.join();
  uint64_t n = 0; size_t ml = 0; bool failed = false; uint64_t ff = 0; std::string why;
  for (auto &r : rs) { n += r.n; if (r.maxlen > ml) ml = r.maxlen; if (r.failed && (!failed || r.first_fail < ff)) { failed = true; ff = r.first_fail; why = r.why; } }
  o << std::hex << n << ' ' << ml << ' ';
  if (failed) o << ff << ':' << why; else o << '-';
}

uint64_t splitmix(uint64_t &s) {
  s += 0x9E3779B97F4A7C15ULL;
  uint64_t z = s;
  z = (z ^ (z >> 30)) * 0xBF58476D1CE4E5B9ULL;
  z = (z ^ (z >> 27)) * 0x94D049BB133111EBULL;
  return z ^ (z >> 31);
}

void sweep_double(uint64_t seed, uint64_t count, unsigned threads, std::ostream &o) {
  std::vector<SweepResult> rs(threads);
  std::vector<std::thread> ts;
  for (unsigned t = 0; t < threads; ++t) {
    rs[t].n = 0; rs[t].maxlen = 0; rs[t].failed = false; rs[t].first_fail = 0;
    ts.push_back(std::thread([=, &rs]() {
      uint64_t s = seed * 1000003ULL + t;
      std::vector<uint64_t> pats;
      for (uint64_t k = t; k < count; k += threads) {
        uint64_t r = splitmix(s), m = splitmix(s);
        uint64_t sign = (r & 1) << 63;
        uint64_t e;
        switch ((r >> 1) % 6) {          // exponent classes: all, subnormal, around 1e-6, around 1e20, top, bottom normal
          case 0: e = (r >> 8) % 2047; break;
          case 1: e = 0; break;
          case 2: e = 1023 - 20 + (r >> 8) % 4 - 2; break;
          case 3: e = 1023 + 66 + (r >> 8) % 8 - 4; break;
          case 4: e = 2046 - (r >> 8) % 3; break;
          default: e = 1 + (r >> 8) % 3; break;
        }
        uint64_t mant;
        switch ((r >> 24) % 5) {         // mantissa classes: random, 0, all ones, single bit, few low bits
          case 0: case 1: mant = m & 0xfffffffffffffULL; break;
          case 2: mant = (m & 1) ? 0 : 0xfffffffffffffULL; break;
          case 3: mant = 1ULL << (m % 52); break;
          default: mant = m & 0xff; break;
        }
        pats.push_back(sign | (e << 52) | mant);
        if (pats.size() == 65536) { check_batch<double, uint64_t>(pats, rs[t]); pats.clear(); }
      }
      if (!pats.empty()) check_batch<double, uint64_t>(pats, rs[t]);
    }));
  }
  for (auto &t : ts) t.join();
  uint64_t n = 0; size_t ml = 0; bool failed = false; uint64_t ff = 0; std::string why;
  for (auto &r : rs) { n += r.n; if (r.maxlen > ml) ml = r.maxlen; if (r.failed && !failed) { failed = true; ff = r.first_fail; why = r.why; } }
  o << std::hex << n << ' ' << ml << ' ';
  if (failed) o << ff << ':' << why; else o << '-';
}

template <class T> void sweep_int_t(uint64_t start, uint64_t count, uint64_t stride, unsigned threads, std::ostream &o) {
  std::vector<SweepResult> rs(threads);
  std::vector<std::thread> ts;
  for (unsigned t = 0; t < threads; ++t) {
    rs[t].n = 0; rs[t].maxlen = 0; rs[t].failed = false; rs[t].first_fail = 0;
    ts.push_back(std::thread([=, &rs]() {
      char buf[kRoom], ref[64];
      for (uint64_t k = t; k < count; k += threads) {
        T v = (T)(start + k * stride);
        bool ok;
        size_t len = guarded(v, buf, ok);
        int rl;
        if (std::numeric_limits<T>::is_signed) rl = snprintf(ref, sizeof ref, "%" PRId64, (int64_t)v);
        else rl = snprintf(ref, sizeof ref, "%" PRIu64, (uint64_t)v);
        if ((size_t)rl != len || memcmp(ref, buf, len)) ok = false;
        buf[len] = 0;
        // the strtol / strtoul grammar of the input layer (FilePiece::ReadLong / ReadULong call exactly these)
        char *e;
        if (std::numeric_limits<T>::is_signed) { long b = strtol(buf, &e, 10); if ((T)b != v || (int64_t)b != (int64_t)v) ok = false; }
        else { unsigned long b = strtoul(buf, &e, 10); if ((uint64_t)b != (uint64_t)v) ok = false; }
        if (e != buf + len) ok = false;
        if (len > rs[t].maxlen) rs[t].maxlen = len;
        if (!ok && !rs[t].failed) { rs[t].failed = true; rs[t].first_fail = (uint64_t)v; }
        ++rs[t].n;
      }
    }));
  }
  for (auto &t : ts) t.join();
  uint64_t n = 0; size_t ml = 0; bool failed = false; uint64_t ff = 0;
  for (auto &r : rs) { n += r.n; if (r.maxlen > ml) ml = r.maxlen; if (r.failed && !failed) { failed = true; ff = r.first_fail; } }
  o << std::hex << n << ' ' << ml << ' ';
  if (failed) o << ff; else o << '-';
}
} // namespace

int main() {
  std::string line;
  while (std::getline(std::cin, line)) {
    std::istringstream in(line);
    std::ostringstream o;
    std::string cmd, a, b, c, d, e;
    in >> cmd >> a >> b >> c >> d >> e;
    try {
      if (cmd == "F") case_float(a, o, false);
      else if (cmd == "D") case_float(a, o, true);
      else if (cmd == "U16") case_int<uint16_t>(a, o);
      else if (cmd == "I16") case_int<int16_t>(a, o);
      else if (cmd == "U32") case_int<uint32_t>(a, o);
      else if (cmd == "I32") case_int<int32_t>(a, o);
      else if (cmd == "U64") case_int<uint64_t>(a, o);
      else if (cmd == "I64") case_int<int64_t>(a, o);
      else if (cmd == "P") case_ptr(a, o);
      else if (cmd == "IRT") { std::istringstream in2(line); std::string c0, k; in2 >> c0 >> k; case_irt(in2, o, k); }
      else if (cmd == "FS") { std::istringstream in2(line); std::string c0, sz; in2 >> c0 >> sz; case_fs(in2, o, sz); }
      else if (cmd == "RF") case_read(a, o, false);
      else if (cmd == "RD") case_read(a, o, true);
      else if (cmd == "SWEEPF") sweep_float(strtoull(a.c_str(), NULL, 16), strtoull(b.c_str(), NULL, 16), strtoull(c.c_str(), NULL, 16), atoi(d.c_str()), o);
      else if (cmd == "SWEEPD") sweep_double(strtoull(a.c_str(), NULL, 16), strtoull(b.c_str(), NULL, 16), atoi(c.c_str()), o);
      else if (cmd == "SWEEPI") {
        uint64_t st = strtoull(b.c_str(), NULL, 16), cn = strtoull(c.c_str(), NULL, 16), sd = strtoull(d.c_str(), NULL, 16);
        unsigned th = atoi(e.c_str());
        if (a == "U16") sweep_int_t<uint16_t>(st, cn, sd, th, o);
        else if (a == "I16") sweep_int_t<int16_t>(st, cn, sd, th, o);
        else if (a == "U32") sweep_int_t<uint32_t>(st, cn, sd, th, o);
        else if (a == "I32") sweep_int_t<int32_t>(st, cn, sd, th, o);
        else if (a == "U64") sweep_int_t<uint64_t>(st, cn, sd, th, o);
        else if (a == "I64") sweep_int_t<int64_t>(st, cn, sd, th, o);
        else o << "BADTYPE";
      } else o << "BADCMD";
    } catch (const std::exception &ex) {
      o << "EXC:" << ex.what();
    }
    std::string s = o.str();
    for (size_t i = 0; i < s.size(); ++i) if (s[i] == '\n') s[i] = '|';
    std::cout << s << '\n';
    std::cout.flush();
  }
  return 0;
}
