// Prints util::kSpaces from the current sources as a Coq definition (coq/Gen/SpacesC18.v is regenerated from
// this output by harness/py/props/c18.py on every run).
#include "util/spaces.cc"
#include <cstdio>
int main() {
  printf("Definition c18_kSpaces : list bool :=\n  [");
  for (int i = 0; i < 256; ++i) printf("%s%s", util::kSpaces[i] ? "true" : "false", i == 255 ? "" : "; ");
  printf("].\n");
  return 0;
}
