// C11 implementation driver for util/multi_intersection.hh (the helper the vocabulary filters are built on).
// Protocol (same as ocaml/c11_driver.ml, case kind I):  "I s;s;..."  sets of hex numbers separated by ','
// ("-" = empty set)  ->  "F:<hex|->|A:<hex,...|->"
#include "util/multi_intersection.hh"

#include <boost/range/iterator_range.hpp>
#include <cstdio>
#include <cstdlib>
#include <iostream>
#include <sstream>
#include <string>
#include <vector>

namespace {
struct Collect {
  std::vector<unsigned int> got;
  void operator()(unsigned int v) { got.push_back(v); }
};
typedef boost::iterator_range<const unsigned int *> Range;

std::vector<std::vector<unsigned int> > Parse(const std::string &s) {
  std::vector<std::vector<unsigned int> > sets;
  std::stringstream all(s);
  std::string one;
  while (std::getline(all, one, ';')) {
    sets.push_back(std::vector<unsigned int>());
    if (one == "-") continue;
    std::stringstream nums(one);
    std::string n;
    while (std::getline(nums, n, ',')) sets.back().push_back(std::strtoul(n.c_str(), NULL, 16));
  }
  return sets;
}
std::vector<Range> Ranges(const std::vector<std::vector<unsigned int> > &sets) {
  std::vector<Range> r;
  for (size_t i = 0; i < sets.size(); ++i) {
    const unsigned int *b = sets[i].empty() ? NULL : &sets[i][0];
    r.push_back(Range(b, b + sets[i].size()));
  }
  return r;
}
} // namespace

int main() {
  std::string line;
  while (std::getline(std::cin, line)) {
    if (line.size() < 3 || line[0] != 'I') { std::cout << "?\n"; continue; }
    std::vector<std::vector<unsigned int> > sets = Parse(line.substr(2));
    std::ostringstream out;
    {
      std::vector<Range> r = Ranges(sets);
      boost::optional<unsigned int> f = util::FirstIntersection(r);
      out << "F:";
      if (f) out << std::hex << *f; else out << "-";
    }
    {
      std::vector<Range> r = Ranges(sets);
      Collect c;
      util::AllIntersection(r, c);
      out << "|A:";
      if (c.got.empty()) out << "-";
      for (size_t i = 0; i < c.got.size(); ++i) out << (i ? "," : "") << std::hex << c.got[i];
    }
    std::cout << out.str() << '\n';
  }
  return 0;
}
