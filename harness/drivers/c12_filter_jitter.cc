// bin/filter rebuilt from the unmodified lm/filter/filter_main.cc with the C17 scheduling-point hook installed:
// when KPU_VERIF_JITTER=<seed> is set, every PCQueue operation of the reader / FilterWorker / OutputWorker threads is
// preceded by a seeded pseudo-random yield or short sleep, so different seeds explore different interleavings.
#include "sched/sched.hh"
#include <cstdlib>
namespace {
struct InstallJitter {
  InstallJitter() {
    const char *s = getenv("KPU_VERIF_JITTER");
    if (s && *s) { ksched::Scheduler::Get().SetJitter(strtoull(s, NULL, 10)); ksched::Scheduler::Get().Install(); }
  }
} install_jitter_;
}
#include "lm/filter/filter_main.cc"
