// C10 implementation driver (built with ASan+UBSan): construct a model from a possibly malformed file in a
// child process under a timeout, classify what happened, and query every word id of a model that loaded.
//   stdin, one case per line:  <type 0..5|v> <path> <seed hex> <tmpdir> [enum] [build=<out path>] [method=<0..3>]
//       type v = lm::ngram::LoadVirtual (type taken from the binary header, PROBING for ARPA text)
//       enum   = ask for the vocabulary strings (Config::enumerate_vocab)
//       build  = load with config.write_mmap (ARPA -> binary conversion while loading)
//       method = util::LoadMethod for binary files (0 LAZY, 1 POPULATE_OR_LAZY, 2 POPULATE_OR_READ, 3 READ)
//       pipe   = feed the file through a pipe and open /dev/stdin (FilePiece's read() path instead of mmap)
//       ngrams=<path> = after a successful load also score these n-grams (one per line, words separated by blanks)
//   stdout, one line per case:
//       OK bound=<n> order=<k> queries=<q> hash=<h> enum=<words seen>
//       EXC <class> <message head>          class: Format ProbingSize SpecialWord VocabLoad Config EndOfFile ParseNumber
//                                                   Overflow Errno Compressed Util BadAlloc Std
//       SAN <first line of the sanitizer report>
//       SIG <signal number>
//       TIMEOUT
//       EXIT <code>
#include "lm/model.hh"
#include "lm/virtual_interface.hh"
#include "lm/binary_format.hh"
#include "lm/enumerate_vocab.hh"
#include "lm/lm_exception.hh"
#include "util/file_piece.hh"
#include "util/read_compressed.hh"
#include "util/probing_hash_table.hh"

#include <cmath>
#include <cstdio>
#include <cstring>
#include <fstream>
#include <iostream>
#include <sstream>
#include <string>
#include <vector>
#include <new>
#include <stdint.h>
#include <signal.h>
#include <sys/wait.h>
#include <sys/time.h>
#include <sys/resource.h>
#include <unistd.h>
#include <fcntl.h>

using namespace lm::ngram;

static const unsigned kTimeout = 20;

static uint32_t bits(float f) { uint32_t u; std::memcpy(&u, &f, 4); return u; }

struct Rng {
  uint64_t s;
  explicit Rng(uint64_t seed) : s(seed) {}
  uint64_t next() {
    s += 0x9E3779B97F4A7C15ULL; uint64_t z = s;
    z = (z ^ (z >> 30)) * 0xBF58476D1CE4E5B9ULL; z = (z ^ (z >> 27)) * 0x94D049BB133111EBULL; return z ^ (z >> 31);
  }
};

class CountWords : public lm::EnumerateVocab {
  public:
    CountWords() : count(0), bytes(0) {}
    void Add(lm::WordIndex index, const StringPiece &str) { ++count; bytes += str.size(); max_index = index; }
    uint64_t count, bytes; lm::WordIndex max_index;
};

static uint64_t Mix(uint64_t h, uint64_t v) { h ^= v + 0x9E3779B97F4A7C15ULL + (h << 6) + (h >> 2); return h; }

// every in-vocabulary word after short random in-vocabulary histories, through the stateful and the stateless entry points
template <class M> void QueryAll(const M &m, uint64_t seed, uint64_t &queries, uint64_t &hash) {
  Rng rng(seed);
  const lm::WordIndex bound = m.GetVocabulary().Bound();
  typename M::State st, out, out2;
  for (int pass = 0; pass < 2; ++pass) {
    for (lm::WordIndex w = 0; w < bound; ++w) {
      st = (rng.next() & 1) ? m.BeginSentenceState() : m.NullContextState();
      std::vector<lm::WordIndex> hist;   // newest first
      unsigned len = rng.next() % (pass ? 6 : 3);
      for (unsigned i = 0; i < len; ++i) {
        lm::WordIndex c = rng.next() % bound;
        m.FullScore(st, c, out); st = out; hist.insert(hist.begin(), c);
      }
      lm::FullScoreReturn r = m.FullScore(st, w, out);
      hash = Mix(hash, bits(r.prob)); hash = Mix(hash, r.ngram_length); hash = Mix(hash, out.length);
      const lm::WordIndex *hb = hist.empty() ? NULL : &hist[0];
      lm::FullScoreReturn f = m.FullScoreForgotState(hb, hb + hist.size(), w, out2);
      hash = Mix(hash, f.ngram_length);
      m.GetState(hb, hb + hist.size(), out2);
      // extend left from what FullScore reported (the chart decoder entry point)
      if (r.extend_left != lm::kMaxWordIndex && !r.independent_left && st.length) {
        uint64_t ptr = r.extend_left; unsigned char next_use;
        float backoff_out[KENLM_MAX_ORDER];
        m.ExtendLeft(st.words, st.words + st.length, st.backoff, ptr, r.ngram_length, backoff_out, next_use);
      }
      queries += 2;
    }
  }
}

static std::string g_ngrams;   // ngrams=<path>: n-grams of the model the file was derived from, one per line

// score the listed n-grams word by word from the null context: reaches the records of every order, the last ones included
template <class M> void QueryListed(const M &m, uint64_t &queries, uint64_t &hash) {
  if (g_ngrams.empty()) return;
  std::ifstream in(g_ngrams.c_str());
  std::string line;
  typename M::State st, out;
  while (std::getline(in, line)) {
    std::istringstream ws(line); std::string w;
    st = m.NullContextState();
    while (ws >> w) {
      lm::FullScoreReturn r = m.FullScore(st, m.GetVocabulary().Index(w), out);
      hash = Mix(hash, bits(r.prob)); hash = Mix(hash, r.ngram_length);
      st = out; ++queries;
    }
  }
}

template <class M> void LoadTyped(const char *path, const Config &config, uint64_t seed, CountWords *words) {
  M m(path, config);
  uint64_t queries = 0, hash = 0;
  QueryListed(m, queries, hash);
  QueryAll(m, seed, queries, hash);
  std::printf("OK bound=%u order=%u queries=%llu hash=%llx enum=%llu\n", (unsigned)m.GetVocabulary().Bound(), (unsigned)m.Order(),
              (unsigned long long)queries, (unsigned long long)hash, (unsigned long long)(words ? words->count : 0));
}

static void LoadVirt(const char *path, const Config &config, uint64_t seed, CountWords *words) {
  lm::base::Model *m = LoadVirtual(path, config);
  // without the typed class there is no Bound(): walk ids until the model's own order/state answers; use the strings seen
  uint64_t bound = words ? words->count : 0, queries = 0, hash = 0;
  std::vector<char> a(m->StateSize()), b(m->StateSize());
  Rng rng(seed);
  for (uint64_t w = 0; w < bound; ++w) {
    if (rng.next() & 1) m->BeginSentenceWrite(&a[0]); else m->NullContextWrite(&a[0]);
    unsigned len = rng.next() % 3;
    for (unsigned i = 0; i < len; ++i) { m->BaseScore(&a[0], rng.next() % bound, &b[0]); a.swap(b); }
    lm::FullScoreReturn r = m->BaseFullScore(&a[0], w, &b[0]);
    hash = Mix(hash, bits(r.prob)); hash = Mix(hash, r.ngram_length);
    ++queries;
  }
  if (!g_ngrams.empty()) {
    std::ifstream in(g_ngrams.c_str());
    std::string line;
    while (std::getline(in, line)) {
      std::istringstream ws(line); std::string w;
      m->NullContextWrite(&a[0]);
      while (ws >> w) {
        lm::FullScoreReturn r = m->BaseFullScore(&a[0], m->BaseVocabulary().Index(w), &b[0]); a.swap(b);
        hash = Mix(hash, bits(r.prob)); ++queries;
      }
    }
  }
  std::printf("OK bound=%llu order=%u queries=%llu hash=%llx enum=%llu\n", (unsigned long long)bound, (unsigned)m->Order(),
              (unsigned long long)queries, (unsigned long long)hash, (unsigned long long)(words ? words->count : 0));
  delete m;
}

static std::string Head(const char *what) {
  std::string s(what ? what : "");
  for (size_t i = 0; i < s.size(); ++i) if (s[i] == '\n' || s[i] == '\r') s[i] = ' ';
  // drop the source-location prefix, keep the message
  if (s.size() > 160) s.resize(160);
  return s;
}

// "pipe": the file reaches the loader through a pipe on fd 0 and is opened as /dev/stdin, so FilePiece cannot mmap it and
// takes its read() path (ReadShift), as for `zcat model.arpa.gz | ...`.  A feeder process writes the bytes.
static bool FeedThroughPipe(const char *path) {
  int fds[2];
  if (pipe(fds)) return false;
  pid_t feeder = fork();
  if (feeder < 0) return false;
  if (feeder == 0) {
    close(fds[0]); close(1); close(2);
    signal(SIGPIPE, SIG_DFL);
    int in = open(path, O_RDONLY);
    char buf[65536]; ssize_t n;
    while (in >= 0 && (n = read(in, buf, sizeof(buf))) > 0) {
      ssize_t off = 0;
      while (off < n) { ssize_t w = write(fds[1], buf + off, n - off); if (w <= 0) _exit(0); off += w; }
    }
    _exit(0);
  }
  close(fds[1]);
  dup2(fds[0], 0);
  close(fds[0]);
  return true;
}

static int Child(const std::vector<std::string> &f) {
  const std::string &type = f[0];
  bool through_pipe = false;
  for (size_t i = 4; i < f.size(); ++i) if (f[i] == "pipe") through_pipe = true;
  if (through_pipe && !FeedThroughPipe(f[1].c_str())) { std::printf("EXIT cannot-set-up-pipe\n"); return 0; }
  const char *path = through_pipe ? "/dev/stdin" : f[1].c_str();
  uint64_t seed = std::strtoull(f[2].c_str(), 0, 16);
  Config config;
  config.messages = NULL;
  config.arpa_complain = Config::NONE;
  config.temporary_directory_prefix = f[3] + "/t";
  CountWords words;
  bool want_enum = false;
  std::string build;
  for (size_t i = 4; i < f.size(); ++i) {
    if (f[i] == "enum") want_enum = true;
    else if (!f[i].compare(0, 6, "build=")) build = f[i].substr(6);
    else if (!f[i].compare(0, 7, "ngrams=")) g_ngrams = f[i].substr(7);
    else if (!f[i].compare(0, 7, "method=")) config.load_method = (util::LoadMethod)std::atoi(f[i].c_str() + 7);
    else if (f[i] == "unk=throw") config.unknown_missing = lm::THROW_UP;
    else if (f[i] == "sent=silent") config.sentence_marker_missing = lm::SILENT;
    else if (f[i] == "posprob=silent") config.positive_log_probability = lm::SILENT;
    else if (!f[i].compare(0, 2, "p=")) config.probing_multiplier = std::atof(f[i].c_str() + 2);
  }
  if (want_enum || type == "v") config.enumerate_vocab = &words;
  if (!build.empty()) config.write_mmap = build.c_str();
  try {
    if (type == "v") LoadVirt(path, config, seed, &words);
    else switch (std::atoi(type.c_str())) {
      case 0: LoadTyped<ProbingModel>(path, config, seed, config.enumerate_vocab ? &words : 0); break;
      case 1: LoadTyped<RestProbingModel>(path, config, seed, config.enumerate_vocab ? &words : 0); break;
      case 2: LoadTyped<TrieModel>(path, config, seed, config.enumerate_vocab ? &words : 0); break;
      case 3: LoadTyped<QuantTrieModel>(path, config, seed, config.enumerate_vocab ? &words : 0); break;
      case 4: LoadTyped<ArrayTrieModel>(path, config, seed, config.enumerate_vocab ? &words : 0); break;
      case 5: LoadTyped<QuantArrayTrieModel>(path, config, seed, config.enumerate_vocab ? &words : 0); break;
      default: std::printf("EXIT bad-type\n");
    }
  }
  catch (const util::ProbingSizeException &e) { std::printf("EXC ProbingSize %s\n", Head(e.what()).c_str()); }
  catch (const lm::FormatLoadException &e) { std::printf("EXC Format %s\n", Head(e.what()).c_str()); }
  catch (const lm::SpecialWordMissingException &e) { std::printf("EXC SpecialWord %s\n", Head(e.what()).c_str()); }
  catch (const lm::VocabLoadException &e) { std::printf("EXC VocabLoad %s\n", Head(e.what()).c_str()); }
  catch (const lm::ConfigException &e) { std::printf("EXC Config %s\n", Head(e.what()).c_str()); }
  catch (const util::EndOfFileException &e) { std::printf("EXC EndOfFile %s\n", Head(e.what()).c_str()); }
  catch (const util::ParseNumberException &e) { std::printf("EXC ParseNumber %s\n", Head(e.what()).c_str()); }
  catch (const util::OverflowException &e) { std::printf("EXC Overflow %s\n", Head(e.what()).c_str()); }
  catch (const util::CompressedException &e) { std::printf("EXC Compressed %s\n", Head(e.what()).c_str()); }
  catch (const util::ErrnoException &e) { std::printf("EXC Errno %s\n", Head(e.what()).c_str()); }
  catch (const util::Exception &e) { std::printf("EXC Util %s\n", Head(e.what()).c_str()); }
  catch (const std::bad_alloc &e) { std::printf("EXC BadAlloc %s\n", Head(e.what()).c_str()); }
  catch (const std::exception &e) { std::printf("EXC Std %s\n", Head(e.what()).c_str()); }
  std::fflush(stdout);
  return 0;
}

// "F <hex>": util::FilePiece::ReadFloat on a regular file holding exactly these bytes -> "<class> <bytes consumed>" | "ERR <class>"
static std::string FloatProbe(const std::string &hex) {
  std::string data;
  if (hex != "-") for (size_t i = 0; i + 1 < hex.size(); i += 2) data.push_back((char)std::strtol(hex.substr(i, 2).c_str(), 0, 16));
  // a regular file, as the loaders see it (mmap path: at_end_ is known after the first Shift)
  char path[64]; std::snprintf(path, sizeof(path), "/var/tmp/c10_float_probe.%d", (int)getpid());
  FILE *fp = std::fopen(path, "wb"); if (!fp) return "ERR Other cannot-write-probe-file";
  if (!data.empty()) std::fwrite(data.data(), 1, data.size(), fp);
  std::fclose(fp);
  std::ostringstream o;
  try {
    util::FilePiece f(path);
    float v = f.ReadFloat();
    const char *cls = v != v ? "nan" : (v == 0.0f ? (std::signbit(v) ? "-0" : "+0") :
                      (std::isinf(v) ? (v < 0 ? "-inf" : "+inf") : (v < 0 ? "-fin" : "+fin")));
    o << cls << " " << f.Offset();
  }
  catch (const util::ParseNumberException &e) { o << "ERR ParseNumber"; }
  catch (const util::EndOfFileException &e) { o << "ERR EndOfFile"; }
  catch (const std::exception &e) { o << "ERR Other " << Head(e.what()); }
  unlink(path);
  return o.str();
}

int main() {
  std::string line;
  signal(SIGPIPE, SIG_IGN);
  while (std::getline(std::cin, line)) {
    std::istringstream in(line);
    std::vector<std::string> f; std::string w;
    while (in >> w) f.push_back(w);
    if (f.size() == 2 && f[0] == "F") { std::printf("%s\n", FloatProbe(f[1]).c_str()); std::fflush(stdout); continue; }
    if (f.size() < 4) { std::printf("EXIT bad-case-line\n"); std::fflush(stdout); continue; }
    int out_pipe[2], err_pipe[2];
    if (pipe(out_pipe) || pipe(err_pipe)) { std::printf("EXIT pipe-failed\n"); std::fflush(stdout); continue; }
    pid_t pid = fork();
    if (pid == 0) {
      close(out_pipe[0]); close(err_pipe[0]);
      dup2(out_pipe[1], 1); dup2(err_pipe[1], 2);
      int devnull = open("/dev/null", O_RDONLY); dup2(devnull, 0);
      alarm(kTimeout);
      // core files are of no use here
      struct rlimit rl; rl.rlim_cur = rl.rlim_max = 0; setrlimit(RLIMIT_CORE, &rl);
      int rc = Child(f);
      std::fflush(stdout);
      _exit(rc);
    }
    close(out_pipe[1]); close(err_pipe[1]);
    std::string out, err; char buf[4096]; ssize_t n;
    // stderr can be large (sanitizer report): drain both; stdout is a single short line
    fcntl(out_pipe[0], F_SETFL, O_NONBLOCK); fcntl(err_pipe[0], F_SETFL, O_NONBLOCK);
    bool out_open = true, err_open = true;
    while (out_open || err_open) {
      fd_set rs; FD_ZERO(&rs); int mx = 0;
      if (out_open) { FD_SET(out_pipe[0], &rs); mx = std::max(mx, out_pipe[0]); }
      if (err_open) { FD_SET(err_pipe[0], &rs); mx = std::max(mx, err_pipe[0]); }
      struct timeval tv; tv.tv_sec = kTimeout + 10; tv.tv_usec = 0;
      int r = select(mx + 1, &rs, 0, 0, &tv);
      if (r <= 0) { kill(pid, SIGKILL); break; }
      if (out_open && FD_ISSET(out_pipe[0], &rs)) { n = read(out_pipe[0], buf, sizeof(buf)); if (n > 0) out.append(buf, n); else if (n == 0) out_open = false; }
      if (err_open && FD_ISSET(err_pipe[0], &rs)) { n = read(err_pipe[0], buf, sizeof(buf)); if (n > 0) { if (err.size() < 65536) err.append(buf, n); } else if (n == 0) err_open = false; }
    }
    close(out_pipe[0]); close(err_pipe[0]);
    int status = 0; waitpid(pid, &status, 0);
    std::string verdict;
    size_t san = err.find("ERROR: AddressSanitizer");
    if (san == std::string::npos) san = err.find("runtime error:");
    if (san == std::string::npos) san = err.find("ERROR: LeakSanitizer");
    if (san == std::string::npos) san = err.find("Sanitizer");
    if (san != std::string::npos) {
      size_t b = err.rfind('\n', san); b = (b == std::string::npos) ? 0 : b + 1;
      size_t e = err.find('\n', san);
      verdict = "SAN " + err.substr(b, (e == std::string::npos ? err.size() : e) - b);
      // first frame inside kenlm helps the signature
      size_t fr = err.find(" in lm::", san); if (fr == std::string::npos) fr = err.find(" in util::", san);
      if (fr != std::string::npos) { size_t fe = err.find_first_of("(\n", fr + 4); verdict += " @" + err.substr(fr + 4, fe - fr - 4); }
    } else if (WIFSIGNALED(status)) {
      if (WTERMSIG(status) == SIGALRM || WTERMSIG(status) == SIGKILL) verdict = "TIMEOUT";
      else { std::ostringstream o; o << "SIG " << WTERMSIG(status); verdict = o.str(); }
    } else if (WIFEXITED(status) && WEXITSTATUS(status) != 0) {
      std::ostringstream o; o << "EXIT " << WEXITSTATUS(status) << " " << Head(err.c_str()); verdict = o.str();
    } else {
      size_t e = out.find('\n');
      verdict = e == std::string::npos ? ("EXIT no-verdict " + Head(err.c_str())) : out.substr(0, e);
    }
    for (size_t i = 0; i < verdict.size(); ++i) if (verdict[i] == '\n' || verdict[i] == '\r') verdict[i] = ' ';
    std::printf("%s\n", verdict.c_str());
    std::fflush(stdout);
  }
  return 0;
}
