// C20 implementation driver: runs the real util:: primitives on the cases read from stdin (one per line,
// all numbers in hex) and prints one canonical result line per case.  Protocol: see ocaml/c20_driver.ml.
#include "util/bit_packing.hh"
#include "util/sorted_uniform.hh"
#include "util/probing_hash_table.hh"
#include "lm/trie.hh"
#include "lm/bhiksha.hh"
#include "lm/config.hh"

#include <cstdio>
#include <cstdlib>
#include <cstring>
#include <iostream>
#include <sstream>
#include <string>
#include <vector>
#include <stdint.h>

namespace {
struct Entry {
  typedef uint64_t Key;
  uint64_t key, value;
  uint64_t GetKey() const { return key; }
  void SetKey(uint64_t k) { key = k; }
};

uint64_t hx(const std::string &s) { return strtoull(s.c_str(), NULL, 16); }
std::vector<unsigned char> bytes(const std::string &s) {
  std::vector<unsigned char> r(s.size() / 2 + 16, 0);   // 16 spare zero bytes: never touched if the code is right
  for (size_t i = 0; i + 1 < s.size(); i += 2) r[i / 2] = (unsigned char)strtoul(s.substr(i, 2).c_str(), NULL, 16);
  return r;
}
std::string hexs(const std::vector<unsigned char> &b, size_t n) {
  std::string r; char buf[4];
  for (size_t i = 0; i < n; ++i) { snprintf(buf, sizeof buf, "%02x", b[i]); r += buf; }
  return r;
}
bool spare_clean(const std::vector<unsigned char> &b, size_t n) {
  for (size_t i = n; i < b.size(); ++i) if (b[i]) return false;
  return true;
}
union FE { float f; uint32_t i; };

template <class Table> void dump_cells(const Table &t, std::ostream &o) {
  o << " |";
  for (const Entry *i = t.RawBegin(); i != t.RawEnd(); ++i) o << ' ' << std::hex << i->key << ':' << i->value;
}

struct NoReloc { template <class T> void operator()(T &) const {} };
// ProbingHashTable::Relocate: the table's memory moves to another address (what BinaryFormat does when a mapping grows or is re-made);
// the old memory is scribbled over so that a table that still points into it shows
template <class Table> struct MoveTable {
  Entry *cur; size_t buckets; std::vector<std::vector<Entry> > *keep;
  void operator()(Table &t) {
    keep->push_back(std::vector<Entry>(buckets));
    Entry *to = &keep->back()[0];
    memcpy(to, cur, buckets * sizeof(Entry));
    t.Relocate(to);
    memset(cur, 0xee, buckets * sizeof(Entry));
    cur = to;
  }
};

template <class Table, class Reloc> void table_ops(Table &t, std::istringstream &in, std::ostream &o, Reloc reloc) {
  std::string op;
  bool first = true;
  while (in >> op) {
    if (!first) o << ' ';
    first = false;
    char kind = op[0];
    size_t c1 = op.find(':'), c2 = op.find(':', c1 + 1);
    uint64_t k = hx(op.substr(c1 + 1, c2 == std::string::npos ? std::string::npos : c2 - c1 - 1));
    uint64_t v = c2 == std::string::npos ? 0 : hx(op.substr(c2 + 1));
    try {
      if (kind == 'i') { Entry e; e.key = k; e.value = v; t.Insert(e); o << "ok"; }
      else if (kind == 'f') {
        Entry e; e.key = k; e.value = v; typename Table::MutableIterator it;
        if (t.FindOrInsert(e, it)) o << "F:" << std::hex << it->value; else o << "I";
      } else if (kind == 'q') {
        typename Table::ConstIterator it;
        if (t.Find(k, it)) o << std::hex << it->value; else o << "-";
      } else if (kind == 'r') { reloc(t); o << "r";
      } else if (kind == 'm') {     // UnsafeMutableFind
        typename Table::MutableIterator it;
        if (t.UnsafeMutableFind(k, it)) o << std::hex << it->value; else o << "-";
      }
    } catch (const util::ProbingSizeException &e) { o << "throw"; break; }
  }
  dump_cells(t, o);
}
} // namespace

// the array below a middle array, reduced to what BitPackedMiddle reads from it: its insert index (so that next pointers of 32..56 bits
// can be exercised without allocating 2^31 records)
struct FakeNext : public lm::ngram::trie::BitPacked { FakeNext() { insert_index_ = 0; } void Set(uint64_t v) { insert_index_ = v; } };

int main() {
  std::string line;
  while (std::getline(std::cin, line)) {
    std::istringstream in(line);
    std::ostringstream o;
    std::string cmd; in >> cmd;
    if (cmd == "W57" || cmd == "W25" || cmd == "F32" || cmd == "F31") {
      std::string m, a, b, c; in >> m >> a >> b; if (cmd[0] == 'W') in >> c;
      std::vector<unsigned char> mem = bytes(m); size_t n = m.size() / 2;
      uint64_t off = hx(a);
      if (cmd == "W57") { uint8_t len = hx(b); util::WriteInt57(&mem[0], off, len, hx(c)); o << hexs(mem, n) << ' ' << std::hex << util::ReadInt57(&mem[0], off, len, len == 64 ? ~0ULL : ((1ULL << len) - 1)); }
      else if (cmd == "W25") { uint8_t len = hx(b); util::WriteInt25(&mem[0], off, len, hx(c)); o << hexs(mem, n) << ' ' << std::hex << util::ReadInt25(&mem[0], off, len, (1U << len) - 1); }
      else if (cmd == "F32") { FE e; e.i = hx(b); util::WriteFloat32(&mem[0], off, e.f); FE r; r.f = util::ReadFloat32(&mem[0], off); o << hexs(mem, n) << ' ' << std::hex << r.i; }
      else { FE e; e.i = hx(b); util::WriteNonPositiveFloat31(&mem[0], off, e.f); FE r; r.f = util::ReadNonPositiveFloat31(&mem[0], off); o << hexs(mem, n) << ' ' << std::hex << r.i; }
      if (!spare_clean(mem, n)) o << " WROTE-PAST-WINDOW";
    } else if (cmd == "R57" || cmd == "R25") {
      std::string m, a, b; in >> m >> a >> b; std::vector<unsigned char> mem = bytes(m);
      uint8_t len = hx(b);
      if (cmd == "R57") o << std::hex << util::ReadInt57(&mem[0], hx(a), len, (1ULL << len) - 1);
      else o << std::hex << util::ReadInt25(&mem[0], hx(a), len, (1U << len) - 1);
    } else if (cmd == "RB") { std::string a; in >> a; o << std::hex << (unsigned)util::RequiredBits(hx(a)); }
    else if (cmd == "SS" || cmd == "US") { std::string a; in >> a; FE e; e.i = hx(a); if (cmd == "SS") util::SetSign(e.f); else util::UnsetSign(e.f); o << std::hex << e.i; }
    else if (cmd == "P32") { std::string a, b, c; in >> a >> b >> c; o << std::hex << util::Pivot32::Calc(hx(a), hx(b), hx(c)); }
    else if (cmd == "RND") { std::string p, a; in >> p >> a; o << std::hex << (p == "P" ? util::Power2Mod::RoundBuckets(hx(a)) : util::DivMod::RoundBuckets(hx(a))); }
    else if (cmd == "SZ") {
      // ProbingHashTable::Size(entries, multiplier) and a table of exactly that size filled with `entries` entries
      std::string p, a, b; in >> p >> a >> b; uint64_t entries = hx(a); FE e; e.i = hx(b);
      uint64_t size = (p == "P") ? util::ProbingHashTable<Entry, util::IdentityHash, std::equal_to<uint64_t>, util::Power2Mod>::Size(entries, e.f)
                                 : util::ProbingHashTable<Entry, util::IdentityHash>::Size(entries, e.f);
      uint64_t buckets = size / sizeof(Entry);
      o << std::hex << buckets << ' ';
      if (buckets == 0) { o << "no-buckets"; }
      else {
        std::vector<Entry> mem(buckets); memset(&mem[0], 0, buckets * sizeof(Entry));
        std::string verdict = "ok";
        try {
          if (p == "P") {
            util::ProbingHashTable<Entry, util::IdentityHash, std::equal_to<uint64_t>, util::Power2Mod> t(&mem[0], size);
            for (uint64_t k = 1; k <= entries; ++k) { Entry x; x.key = k * 0x9E3779B97F4A7C15ULL | 1; x.value = k; t.Insert(x); }
            for (uint64_t k = 1; k <= entries; ++k) { const Entry *f; if (!t.Find(k * 0x9E3779B97F4A7C15ULL | 1, f) || f->value != k) verdict = "LOST"; }
          } else {
            util::ProbingHashTable<Entry, util::IdentityHash> t(&mem[0], size);
            for (uint64_t k = 1; k <= entries; ++k) { Entry x; x.key = k * 0x9E3779B97F4A7C15ULL | 1; x.value = k; t.Insert(x); }
            for (uint64_t k = 1; k <= entries; ++k) { const Entry *f; if (!t.Find(k * 0x9E3779B97F4A7C15ULL | 1, f) || f->value != k) verdict = "LOST"; }
          }
        } catch (const util::ProbingSizeException &ex) { verdict = "THROW"; }
        o << verdict;
      }
    }
    else if (cmd == "PT") {
      std::string p, b; in >> p >> b; size_t buckets = hx(b);
      std::vector<Entry> mem(buckets); memset(&mem[0], 0, buckets * sizeof(Entry));
      try {
        std::vector<std::vector<Entry> > keep; keep.reserve(64);
        if (p == "P") { typedef util::ProbingHashTable<Entry, util::IdentityHash, std::equal_to<uint64_t>, util::Power2Mod> T; T t(&mem[0], buckets * sizeof(Entry)); MoveTable<T> mv = { &mem[0], buckets, &keep }; table_ops(t, in, o, mv); }
        else { typedef util::ProbingHashTable<Entry, util::IdentityHash> T; T t(&mem[0], buckets * sizeof(Entry)); MoveTable<T> mv = { &mem[0], buckets, &keep }; table_ops(t, in, o, mv); }
      } catch (const util::ProbingSizeException &e) { o << "ctor-throw"; }
    } else if (cmd == "AP") {
      std::string init, b; in >> init >> b;
      util::AutoProbing<Entry, util::IdentityHash> t(hx(init));
      table_ops(t, in, o, NoReloc());
    } else if (cmd == "SU" || cmd == "BS" || cmd == "S64") {
      std::string k, x; in >> k; uint64_t key = hx(k);
      std::vector<uint64_t> a; while (in >> x) a.push_back(hx(x));
      const uint64_t *out = NULL; bool r;
      const uint64_t *b = a.empty() ? (const uint64_t *)8 : &a[0];
      if (cmd == "SU") r = util::SortedUniformFind<const uint64_t *, util::IdentityAccessor<uint64_t>, util::Pivot32>(util::IdentityAccessor<uint64_t>(), b, b + a.size(), key, out);
      else if (cmd == "S64") r = util::SortedUniformFind<const uint64_t *, util::IdentityAccessor<uint64_t>, util::Pivot64>(util::IdentityAccessor<uint64_t>(), b, b + a.size(), key, out);
      else r = util::BinaryFind(util::IdentityAccessor<uint64_t>(), b, b + a.size(), key, out);
      if (r) { if (cmd == "S64") o << (*out == key ? "T" : "T-WRONG-POSITION"); else o << "T " << std::hex << (out - b); }
      else o << "F";
    } else if (cmd == "TA") {
      // lm/trie.cc BitPackedLongest as an array: TA <max_vocab> <payload bits> <payload:word>...  (words strictly increasing)
      // exactly Size() bytes are handed over, followed by a guard region that must stay untouched
      std::string mv, qb, x; in >> mv >> qb; uint64_t max_vocab = hx(mv); uint8_t quant = hx(qb);
      std::vector<std::pair<uint64_t, uint64_t> > recs;
      while (in >> x) { size_t c = x.find(':'); recs.push_back(std::make_pair(hx(x.substr(0, c)), hx(x.substr(c + 1)))); }
      uint64_t size = lm::ngram::trie::BitPackedLongest::Size(quant, recs.size(), max_vocab);
      const size_t guard = 32;
      std::vector<unsigned char> mem(size + guard, 0);
      for (size_t i = 0; i < guard; ++i) mem[size + i] = 0xa5;
      lm::ngram::trie::BitPackedLongest arr; arr.Init(&mem[0], quant, max_vocab);
      for (size_t i = 0; i < recs.size(); ++i) {
        util::BitAddress a = arr.Insert(recs[i].second);
        util::WriteInt57(a.base, a.offset, quant, recs[i].first);
      }
      bool guard_ok = true;
      for (size_t i = 0; i < guard; ++i) if (mem[size + i] != 0xa5) guard_ok = false;
      o << std::hex << size << (guard_ok ? " guard-ok" : " GUARD-OVERWRITTEN");
      lm::ngram::trie::NodeRange range; range.begin = 0; range.end = recs.size();
      for (size_t i = 0; i < recs.size(); ++i) {
        util::BitAddress a = arr.Find(recs[i].second, range);
        if (!a.base) { o << " lost:" << std::hex << recs[i].second; continue; }
        o << ' ' << std::hex << util::ReadInt57(a.base, a.offset, quant, (1ULL << quant) - 1);
      }
    } else if (cmd == "TM") {
      // lm/trie.cc BitPackedMiddle<DontBhiksha | ArrayBhiksha> as an array of (word, payload, next pointer) records:
      // TM <D|A> <pointer_bhiksha_bits> <max_vocab> <payload bits> <word:payload:children>...   (words strictly increasing)
      // the next pointers come from a BitPackedLongest whose insert index is advanced by `children` after each record
      std::string kind, bb, mv, qb, x; in >> kind >> bb >> mv >> qb;
      uint64_t max_vocab = hx(mv); uint8_t quant = hx(qb);
      std::vector<std::vector<uint64_t> > recs;
      uint64_t total_children = 0;
      while (in >> x) {
        size_t c1 = x.find(':'), c2 = x.find(':', c1 + 1);
        std::vector<uint64_t> r; r.push_back(hx(x.substr(0, c1))); r.push_back(hx(x.substr(c1 + 1, c2 - c1 - 1))); r.push_back(hx(x.substr(c2 + 1)));
        total_children += r[2]; recs.push_back(r);
      }
      lm::ngram::Config config; config.pointer_bhiksha_bits = hx(bb);
      const size_t guard = 32;
      const bool real_longest = total_children <= (1ULL << 22);
      uint64_t lsize = lm::ngram::trie::BitPackedLongest::Size(0, real_longest ? total_children : 0, max_vocab);
      std::vector<unsigned char> lmem(lsize + guard, 0);
      lm::ngram::trie::BitPackedLongest longest; longest.Init(&lmem[0], 0, max_vocab);
      FakeNext fake;
      const lm::ngram::trie::BitPacked &below = real_longest ? static_cast<const lm::ngram::trie::BitPacked&>(longest) : static_cast<const lm::ngram::trie::BitPacked&>(fake);
      uint64_t size; std::vector<unsigned char> mem;
      std::vector<std::string> got(recs.size());
      if (kind == "A") {
        typedef lm::ngram::trie::BitPackedMiddle<lm::ngram::trie::ArrayBhiksha> Mid;
        size = Mid::Size(quant, recs.size(), max_vocab, total_children, config);
        mem.assign(size + guard, 0); for (size_t i = 0; i < guard; ++i) mem[size + i] = 0xa5;
        Mid mid(&mem[0], quant, recs.size(), max_vocab, total_children, below, config);
        uint64_t child = 0;
        for (size_t i = 0; i < recs.size(); ++i) {
          util::BitAddress a = mid.Insert(recs[i][0]);
          util::WriteInt57(a.base, a.offset, quant, recs[i][1]);
          if (real_longest) { for (uint64_t c = 0; c < recs[i][2]; ++c) longest.Insert((child++) % (max_vocab + 1)); }
          else { child += recs[i][2]; fake.Set(child); }
        }
        mid.FinishedLoading(below.InsertIndex(), config);
        for (size_t i = 0; i < recs.size(); ++i) {
          lm::ngram::trie::NodeRange range; range.begin = 0; range.end = recs.size(); uint64_t ptr = 0;
          util::BitAddress a = mid.Find(recs[i][0], range, ptr);
          std::ostringstream g;
          if (!a.base) g << "lost"; else g << std::hex << util::ReadInt57(a.base, a.offset, quant, (1ULL << quant) - 1) << ':' << ptr << ':' << range.begin << ':' << range.end;
          got[i] = g.str();
        }
      } else {
        typedef lm::ngram::trie::BitPackedMiddle<lm::ngram::trie::DontBhiksha> Mid;
        size = Mid::Size(quant, recs.size(), max_vocab, total_children, config);
        mem.assign(size + guard, 0); for (size_t i = 0; i < guard; ++i) mem[size + i] = 0xa5;
        Mid mid(&mem[0], quant, recs.size(), max_vocab, total_children, below, config);
        uint64_t child = 0;
        for (size_t i = 0; i < recs.size(); ++i) {
          util::BitAddress a = mid.Insert(recs[i][0]);
          util::WriteInt57(a.base, a.offset, quant, recs[i][1]);
          if (real_longest) { for (uint64_t c = 0; c < recs[i][2]; ++c) longest.Insert((child++) % (max_vocab + 1)); }
          else { child += recs[i][2]; fake.Set(child); }
        }
        mid.FinishedLoading(below.InsertIndex(), config);
        for (size_t i = 0; i < recs.size(); ++i) {
          lm::ngram::trie::NodeRange range; range.begin = 0; range.end = recs.size(); uint64_t ptr = 0;
          util::BitAddress a = mid.Find(recs[i][0], range, ptr);
          std::ostringstream g;
          if (!a.base) g << "lost"; else g << std::hex << util::ReadInt57(a.base, a.offset, quant, (1ULL << quant) - 1) << ':' << ptr << ':' << range.begin << ':' << range.end;
          got[i] = g.str();
        }
      }
      bool guard_ok = true;
      for (size_t i = 0; i < guard; ++i) if (mem[size + i] != 0xa5) guard_ok = false;
      o << (guard_ok ? "guard-ok" : "GUARD-OVERWRITTEN");
      for (size_t i = 0; i < got.size(); ++i) o << ' ' << got[i];
    } else o << "?";
    std::cout << o.str() << '\n';
  }
  return 0;
}
