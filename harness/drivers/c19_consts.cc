// Prints, as Coq definitions, the parameters util/float_to_string.cc hands to DoubleToStringConverter, the digit maxima
// of double-conversion, the reserved sizes ToStringBuf<T>::kBytes / kToStringMaxBytes and the decimal exponent ranges of
// float and double -- all read from the current sources at compile time (coq/Gen/FloatToStringC19.v is regenerated
// from this output by harness/py/props/c19.py on every run).
#include <cmath>
#include <cstdio>
#include <cstring>
#include <limits>
#include <string>
#include <stdint.h>
#include <algorithm>
#include <cassert>
#include <climits>
#include <cstdlib>
#define private public
#define protected public
#include "util/double-conversion/double-conversion.h"
#include "util/float_to_string.cc"
#include "util/file_stream.hh"
#undef private
#undef protected

// linked with -Wl,--wrap=malloc: the size FileStream's constructor asks malloc for
extern "C" void *__real_malloc(size_t);
static size_t g_last_malloc = 0;
extern "C" void *__wrap_malloc(size_t n) { g_last_malloc = n; return __real_malloc(n); }

static void def(const char *name, long v) {
  if (v < 0) printf("Definition %s : Z := (%ld)%%Z.\n", name, v);
  else printf("Definition %s : Z := %ld%%Z.\n", name, v);
}

int main() {
  using double_conversion::DoubleToStringConverter;
  const DoubleToStringConverter &c = util::kConverter;
  def("c19_flags", c.flags_);
  def("c19_flag_emit_positive_exponent_sign", DoubleToStringConverter::EMIT_POSITIVE_EXPONENT_SIGN);
  def("c19_flag_emit_trailing_decimal_point", DoubleToStringConverter::EMIT_TRAILING_DECIMAL_POINT);
  def("c19_flag_emit_trailing_zero_after_point", DoubleToStringConverter::EMIT_TRAILING_ZERO_AFTER_POINT);
  def("c19_flag_unique_zero", DoubleToStringConverter::UNIQUE_ZERO);
  def("c19_decimal_in_shortest_low", c.decimal_in_shortest_low_);
  def("c19_decimal_in_shortest_high", c.decimal_in_shortest_high_);
  def("c19_min_exponent_width", c.min_exponent_width_);
  def("c19_infinity_symbol_len", c.infinity_symbol_ ? (long)strlen(c.infinity_symbol_) : -1);
  def("c19_nan_symbol_len", c.nan_symbol_ ? (long)strlen(c.nan_symbol_) : -1);
  def("c19_exponent_character", (unsigned char)c.exponent_character_);
  def("c19_max_digits_double", DoubleToStringConverter::kBase10MaximalLength);
  def("c19_max_digits_float", DoubleToStringConverter::kBase10MaximalLengthSingle);
  // decimal exponent (of the first digit) of the smallest and largest finite magnitudes
  def("c19_min_exp10_double", (long)std::floor(std::log10(std::numeric_limits<double>::denorm_min())));
  def("c19_max_exp10_double", std::numeric_limits<double>::max_exponent10);
  def("c19_min_exp10_float", (long)std::floor(std::log10((double)std::numeric_limits<float>::denorm_min())));
  def("c19_max_exp10_float", std::numeric_limits<float>::max_exponent10);
  // reserved sizes
  def("c19_kbytes_double", util::ToStringBuf<double>::kBytes);
  def("c19_kbytes_float", util::ToStringBuf<float>::kBytes);
  def("c19_kbytes_u16", util::ToStringBuf<uint16_t>::kBytes);
  def("c19_kbytes_i16", util::ToStringBuf<int16_t>::kBytes);
  def("c19_kbytes_u32", util::ToStringBuf<uint32_t>::kBytes);
  def("c19_kbytes_i32", util::ToStringBuf<int32_t>::kBytes);
  def("c19_kbytes_u64", util::ToStringBuf<uint64_t>::kBytes);
  def("c19_kbytes_i64", util::ToStringBuf<int64_t>::kBytes);
  def("c19_kbytes_ptr", util::ToStringBuf<const void*>::kBytes);
  def("c19_kbytes_bool", util::ToStringBuf<bool>::kBytes);
  def("c19_ktostring_max_bytes", util::kToStringMaxBytes);
  def("c19_sizeof_ptr", sizeof(void*));
  // FileStream(fd, buffer_size): bytes allocated and end_ - current_, observed (used to validate the translation of the
  // constructor's two expressions into Gen/FileStreamC19.v)
  static const size_t sizes[] = {0, 1, 2, 3, 5, 8, 13, 19, 20, 21, 22, 23, 24, 25, 26, 27, 28, 31, 32, 33, 50, 64, 100, 4096, 8192, 1000000};
  for (size_t i = 0; i < sizeof(sizes) / sizeof(sizes[0]); ++i) {
    g_last_malloc = 0;
    util::FileStream s(-1, sizes[i]);
    printf("(* FS %zu %zu %ld *)\n", sizes[i], g_last_malloc, (long)(s.end_ - s.current_));
  }
  return 0;
}
