// C16 implementation driver: Chain >> producer >> util::stream::Sort >> output, on the cases read from stdin
// (one per line, all numbers hex; protocol: see ocaml/c16_driver.ml).  Every case runs in a forked child so that
// an abort() inside the sort ("not merging at least two stripes", ...) or a hang is an observation of that case only.
//   S  <kind I|S|C|P> <n> <pw> <comb> <chain_blocks> <chain_mem> <fill F|E> <buf> <tot> <lazy> <mode O|M|S> recs...
//   SF <same 11 parameters> <infile> <outfile>          records as raw bytes (fill F only); answer: OK <ret> <#records>
//   OFF l1 l2 ... [R m1 ...]                              the real util::stream::Offsets on a temp file
//   PR <file hex|-> <off> <size> <d3,i,d1,...>            util::ErsatzPRead with the pread return lengths dictated through
//                                                         harness/shim/io_shim.c (must be preloaded; NOSHIM otherwise)
//   KILLER <n>                                            McIlroy's adversary run against this library's std::sort: the
//                                                         permutation of 0..n-1 that drives introsort into its heapsort fallback
#include "util/stream/sort.hh"
#include "util/stream/chain.hh"
#include "util/stream/stream.hh"
#include "util/stream/io.hh"
#include "util/file.hh"
#include "lm/common/compare.hh"
#include "lm/builder/combine_counts.hh"

#include <cstdio>
#include <cstdlib>
#include <cstring>
#include <iostream>
#include <sstream>
#include <string>
#include <vector>
#include <stdint.h>
#include <algorithm>
#include <dlfcn.h>
#include <errno.h>
#include <signal.h>
#include <sys/wait.h>
#include <unistd.h>

using namespace util::stream;

namespace {

std::string g_tmp;   // temp prefix

uint64_t hx(const std::string &s) { return strtoull(s.c_str(), NULL, 16); }

// hex big number -> len little-endian bytes
void hex_to_le(const std::string &s, uint8_t *out, size_t len) {
  memset(out, 0, len);
  size_t nd = s.size();
  for (size_t i = 0; i < nd; ++i) {
    char c = s[nd - 1 - i];
    unsigned v = (c >= '0' && c <= '9') ? c - '0' : (c >= 'a' && c <= 'f') ? c - 'a' + 10 : c - 'A' + 10;
    if (i / 2 < len) out[i / 2] |= (i % 2) ? (v << 4) : v;
  }
}
std::string le_to_hex(const uint8_t *p, size_t len) {
  std::string r;
  bool started = false;
  char buf[4];
  for (size_t i = len; i-- > 0;) {
    if (!started && p[i] == 0) continue;
    snprintf(buf, sizeof buf, started ? "%02x" : "%x", p[i]);
    r += buf; started = true;
  }
  return started ? r : "0";
}

struct Params {
  char kind; unsigned n, pw; bool comb; size_t cbc, cmem; char fill; size_t buf, tot, lazy; char mode;
  size_t keybytes() const { return kind == 'I' ? n : 4 * n; }
  size_t es() const { return keybytes() + pw; }
};

// integer keys of 1..8 bytes, little endian, compared as unsigned numbers
struct IntCompare : public std::binary_function<const void *, const void *, bool> {
  explicit IntCompare(unsigned width) : width_(width) {}
  bool operator()(const void *a, const void *b) const {
    uint64_t x = 0, y = 0; memcpy(&x, a, width_); memcpy(&y, b, width_); return x < y;
  }
  unsigned width_;
};
// CombineCounts-style combiner for the other orders: same key bytes => into.count += option.count
struct AddCombine {
  explicit AddCombine(size_t keybytes) : keybytes_(keybytes) {}
  template <class Compare> bool operator()(void *into, const void *option, const Compare &) const {
    if (memcmp(into, option, keybytes_)) return false;
    uint64_t a, b; memcpy(&a, static_cast<uint8_t*>(into) + keybytes_, 8); memcpy(&b, static_cast<const uint8_t*>(option) + keybytes_, 8);
    a += b; memcpy(static_cast<uint8_t*>(into) + keybytes_, &a, 8); return true;
  }
  size_t keybytes_;
};

struct Input {
  std::vector<uint8_t> data;            // records, flat
  std::vector<size_t> blocks;           // fill E: number of records in each block
};

struct Producer {
  Producer(const Input *in, char fill, size_t es, bool *overflow) : in_(in), fill_(fill), es_(es), overflow_(overflow) {}
  void Run(const ChainPosition &position) {
    if (fill_ == 'F') {
      Stream s(position);
      for (size_t off = 0; off < in_->data.size(); off += es_, ++s) memcpy(s.Get(), &in_->data[off], es_);
      s.Poison();
    } else {
      Link l(position);
      size_t off = 0;
      const size_t block_size = position.GetChain().BlockSize();
      for (size_t b = 0; b < in_->blocks.size(); ++b) {
        size_t bytes = in_->blocks[b] * es_;
        if (bytes > block_size) { *overflow_ = true; break; }
        if (bytes) memcpy(l->Get(), &in_->data[off], bytes);
        l->SetValidSize(bytes);
        off += bytes;
        ++l;
      }
      l.Poison();
    }
  }
  const Input *in_; char fill_; size_t es_; bool *overflow_;
};

#ifdef KPU_KENLM_VERIF_SORT_OBSERVER
std::string g_trace;
bool g_trace_first_in_pass = true;
void Observe(int what, uint64_t a, uint64_t b) {
  char buf[64];
  if (what == 0) {            // one merge group: a runs merged, b bytes written
    snprintf(buf, sizeof buf, "%s%llx:%llx", g_trace_first_in_pass ? "" : ",", (unsigned long long)a, (unsigned long long)b);
    g_trace += buf; g_trace_first_in_pass = false;
  } else {                    // end of one MergingReader::Run
    g_trace += ";"; g_trace_first_in_pass = true;
  }
}
#endif

template <class Compare, class Combine> std::string RunSort(const Params &p, const Input &in, const Compare &compare, const Combine &combine, std::vector<uint8_t> &out, uint64_t &ret) {
  const size_t es = p.es();
  ChainConfig cc(es, p.cbc, p.cmem);
  bool overflow = false;
  ret = 0;
  try {
    Chain chain(cc);
    chain >> Producer(&in, p.fill, es, &overflow);
    SortConfig sc; sc.temp_prefix = g_tmp; sc.buffer_size = p.buf; sc.total_memory = p.tot;
    try {
      Sort<Compare, Combine> sorter(chain, sc, compare, combine);
      chain.Wait(true);
      if (overflow) return "BLOCK-OVERFLOW";
      if (p.mode == 'S') {
        util::scoped_fd fd(sorter.StealCompleted());
        uint64_t size = util::SizeOrThrow(fd.get());
        out.resize(size);
        if (size) util::ErsatzPRead(fd.get(), &out[0], size, 0);
      } else {
        size_t lazy = p.lazy;
        if (p.mode == 'M') { ret = sorter.Merge(p.lazy); lazy = ret; }
        sorter.Output(chain, lazy);
        Stream s; chain >> s >> kRecycle;
        for (; s; ++s) out.insert(out.end(), static_cast<const uint8_t*>(s.Get()), static_cast<const uint8_t*>(s.Get()) + es);
      }
    } catch (const BadSortConfig &e) { return "BADSORT"; }
  } catch (const ChainConfigException &e) { return "BADCHAIN"; }
  return "OK";
}

std::string Dispatch(const Params &p, const Input &in, std::vector<uint8_t> &out, uint64_t &ret) {
  const size_t kb = p.keybytes();
  if (p.kind == 'I') {
    if (p.comb) return RunSort(p, in, IntCompare(p.n), AddCombine(kb), out, ret);
    return RunSort(p, in, IntCompare(p.n), NeverCombine(), out, ret);
  } else if (p.kind == 'S') {
    if (p.comb) return RunSort(p, in, lm::SuffixOrder(p.n), lm::builder::CombineCounts(), out, ret);   // the real combiner
    return RunSort(p, in, lm::SuffixOrder(p.n), NeverCombine(), out, ret);
  } else if (p.kind == 'C') {
    if (p.comb) return RunSort(p, in, lm::ContextOrder(p.n), AddCombine(kb), out, ret);
    return RunSort(p, in, lm::ContextOrder(p.n), NeverCombine(), out, ret);
  } else {
    if (p.comb) return RunSort(p, in, lm::PrefixOrder(p.n), AddCombine(kb), out, ret);
    return RunSort(p, in, lm::PrefixOrder(p.n), NeverCombine(), out, ret);
  }
}

bool ParseParams(std::istringstream &in, Params &p) {
  std::string kind, n, pw, comb, cbc, cmem, fill, buf, tot, lazy, mode;
  if (!(in >> kind >> n >> pw >> comb >> cbc >> cmem >> fill >> buf >> tot >> lazy >> mode)) return false;
  p.kind = kind[0]; p.n = hx(n); p.pw = hx(pw); p.comb = comb == "1"; p.cbc = hx(cbc); p.cmem = hx(cmem); p.fill = fill[0];
  p.buf = hx(buf); p.tot = hx(tot); p.lazy = hx(lazy); p.mode = mode[0];
  return true;
}

void AppendRecord(const Params &p, const std::string &tok, std::vector<uint8_t> &data) {
  const size_t es = p.es(), kb = p.keybytes();
  size_t at = data.size(); data.resize(at + es);
  size_t colon = tok.find(':');
  std::string key = tok.substr(0, colon), pay = tok.substr(colon + 1);
  if (p.kind == 'I') {
    hex_to_le(key, &data[at], kb);
  } else {
    size_t start = 0;
    for (unsigned i = 0; i < p.n; ++i) {
      size_t dot = key.find('.', start);
      uint32_t w = (uint32_t)hx(key.substr(start, dot == std::string::npos ? std::string::npos : dot - start));
      memcpy(&data[at + 4 * i], &w, 4);
      start = dot == std::string::npos ? key.size() : dot + 1;
    }
  }
  hex_to_le(pay, &data[at + kb], p.pw);
}

std::string ShowRecord(const Params &p, const uint8_t *r) {
  std::string s;
  if (p.kind == 'I') s = le_to_hex(r, p.n);
  else for (unsigned i = 0; i < p.n; ++i) { uint32_t w; memcpy(&w, r + 4 * i, 4); char b[16]; snprintf(b, sizeof b, "%s%x", i ? "." : "", w); s += b; }
  return s + ":" + le_to_hex(r + p.keybytes(), p.pw);
}

std::string TraceSuffix() {
#ifdef KPU_KENLM_VERIF_SORT_OBSERVER
  return " | T " + g_trace;
#else
  return "";
#endif
}

std::string HandleSort(std::istringstream &in, bool file_mode) {
  Params p;
  if (!ParseParams(in, p)) return "BAD-CASE";
  Input input;
  std::string outfile;
  if (file_mode) {
    std::string infile; in >> infile >> outfile;
    util::scoped_fd f(util::OpenReadOrThrow(infile.c_str()));
    uint64_t size = util::SizeOrThrow(f.get());
    input.data.resize(size);
    if (size) util::ReadOrThrow(f.get(), &input.data[0], size);
  } else {
    std::string tok; size_t cur = 0;
    while (in >> tok) {
      if (tok == "/") { input.blocks.push_back(cur); cur = 0; }
      else { AppendRecord(p, tok, input.data); ++cur; }
    }
    input.blocks.push_back(cur);
  }
#ifdef KPU_KENLM_VERIF_SORT_OBSERVER
  util::stream::verif::SortObserverRef() = &Observe;
#endif
  std::vector<uint8_t> out; uint64_t ret = 0;
  std::string status = Dispatch(p, input, out, ret);
  if (status != "OK") return status;
  std::ostringstream o;
  o << "OK " << std::hex << ret;
  const size_t es = p.es();
  if (file_mode) {
    util::scoped_fd f(util::CreateOrThrow(outfile.c_str()));
    if (!out.empty()) util::WriteOrThrow(f.get(), &out[0], out.size());
    o << ' ' << (out.size() / es);
    if (out.size() % es) o << " RAGGED";
  } else {
    if (out.size() % es) o << " RAGGED";
    for (size_t off = 0; off + es <= out.size(); off += es) o << ' ' << ShowRecord(p, &out[off]);
  }
  return o.str() + TraceSuffix();
}

std::string DrainOffsets(Offsets &o, const std::vector<uint64_t> &lens) {
  for (size_t i = 0; i < lens.size(); ++i) o.Append(lens[i]);
  o.FinishedAppending();
  std::ostringstream s;
  s << std::hex << o.RemainingBlocks();
  while (o.RemainingBlocks()) {
    uint64_t off = o.TotalOffset(), peek = o.PeekSize(), len = o.NextSize();
    s << ' ' << off << ':' << len;
    if (peek != len) s << "(PEEK=" << peek << ")";
  }
  return s.str();
}

std::string HandleOffsets(std::istringstream &in) {
  util::scoped_fd fd(util::MakeTemp(g_tmp));
  Offsets o(fd.get());
  std::vector<uint64_t> lens; std::string tok, res;
  bool first = true;
  while (true) {
    bool more = static_cast<bool>(in >> tok);
    if (!more || tok == "R") {
      if (!first) { o.Reset(); res += " R "; }
      res += DrainOffsets(o, lens); lens.clear(); first = false;
      if (!more) break;
    } else lens.push_back(hx(tok));
  }
  return res;
}

std::string HandlePRead(std::istringstream &in) {
  typedef void (*arm_t)(int, const char *);
  typedef int (*disarm_t)(void);
  arm_t arm = (arm_t)dlsym(RTLD_DEFAULT, "io_shim_arm");
  disarm_t disarm = (disarm_t)dlsym(RTLD_DEFAULT, "io_shim_disarm");
  if (!arm || !disarm) return "NOSHIM";
  std::string file, off_s, size_s, script;
  in >> file >> off_s >> size_s >> script;
  std::vector<uint8_t> bytes;
  if (file != "-") for (size_t i = 0; i + 1 < file.size(); i += 2) bytes.push_back((uint8_t)strtoul(file.substr(i, 2).c_str(), NULL, 16));
  util::scoped_fd fd(util::MakeTemp(g_tmp));
  if (!bytes.empty()) util::WriteOrThrow(fd.get(), &bytes[0], bytes.size());
  const size_t size = hx(size_s);
  std::vector<uint8_t> buf(size + 8, 0xEE);
  for (size_t i = 0; i < script.size(); ++i) if (script[i] == ',') script[i] = ' ';
  arm(fd.get(), script.c_str());
  std::string status = "OK";
  try { util::ErsatzPRead(fd.get(), &buf[0], size, hx(off_s)); }
  catch (const util::EndOfFileException &e) { status = "EOF"; }
  catch (const std::exception &e) { status = "THROW"; }
  int consumed = disarm();
  std::ostringstream o;
  o << status;
  if (status == "OK") {
    o << ' ';
    if (!size) o << '-';
    char b[4];
    for (size_t i = 0; i < size; ++i) { snprintf(b, sizeof b, "%02x", buf[i]); o << b; }
    for (size_t i = size; i < buf.size(); ++i) if (buf[i] != 0xEE) { o << " WROTE-PAST-BUFFER"; break; }
  }
  o << ' ' << std::dec << (consumed & ~(1 << 30));
  if (consumed & (1 << 30)) o << " SCRIPT-EXHAUSTED";
  return o.str();
}

// M. D. McIlroy, "A Killer Adversary for Quicksort": the comparison function decides the order of the items lazily so
// that every pivot the sort picks turns out to be (nearly) the smallest remaining item.
struct Adversary {
  std::vector<int> val; int gas, nsolid, candidate;
  bool less(int x, int y) {
    if (val[x] == gas && val[y] == gas) { if (x == candidate) val[x] = nsolid++; else val[y] = nsolid++; }
    if (val[x] == gas) candidate = x; else if (val[y] == gas) candidate = y;
    return val[x] < val[y];
  }
};
struct AdvLess { Adversary *a; bool operator()(int x, int y) const { return a->less(x, y); } };

std::string HandleKiller(std::istringstream &in) {
  std::string n_s; in >> n_s;
  const int n = (int)hx(n_s);
  Adversary a; a.val.assign(n, n - 1); a.gas = n - 1; a.nsolid = 0; a.candidate = 0;
  std::vector<int> ptr(n);
  for (int i = 0; i < n; ++i) ptr[i] = i;
  AdvLess l; l.a = &a;
  std::sort(ptr.begin(), ptr.end(), l);
  std::ostringstream o;
  for (int i = 0; i < n; ++i) o << (i ? " " : "") << std::hex << a.val[i];
  return o.str();
}

std::string Handle(const std::string &line) {
  std::istringstream in(line);
  std::string cmd; in >> cmd;
  try {
    if (cmd == "S") return HandleSort(in, false);
    if (cmd == "SF") return HandleSort(in, true);
    if (cmd == "OFF") return HandleOffsets(in);
    if (cmd == "PR") return HandlePRead(in);
    if (cmd == "KILLER") return HandleKiller(in);
  } catch (const std::exception &e) {
    std::string w = e.what(); for (size_t i = 0; i < w.size(); ++i) if (w[i] == '\n') w[i] = ' ';
    return "EXCEPTION " + w;
  }
  return "?";
}
} // namespace

int main() {
  const char *t = getenv("VERIF_TMP");
  g_tmp = t ? t : "/var/tmp/c16-driver-";
  std::string line;
  while (std::getline(std::cin, line)) {
    fflush(stdout);
    pid_t pid = fork();
    if (pid == 0) {
      const char *al = getenv("VERIF_ALARM");      // slower variants (ASan, 1-byte reads) get more time
      alarm(line.compare(0, 3, "SF ") == 0 ? 900 : (al ? atoi(al) : 15));   // a hang (e.g. a merge loop that never terminates) is an observation
      std::string r = Handle(line);
      r += '\n';
      size_t done = 0;
      while (done < r.size()) {      // short writes and EINTR happen when the I/O shim is preloaded
        ssize_t w = write(1, r.data() + done, r.size() - done);
        if (w < 0 && errno == EINTR) continue;
        if (w <= 0) break;
        done += w;
      }
      _exit(0);
    }
    int status = 0;
    waitpid(pid, &status, 0);
    if (WIFSIGNALED(status)) { printf("DIED signal=%d\n", WTERMSIG(status)); fflush(stdout); }
    else if (WIFEXITED(status) && WEXITSTATUS(status) != 0) { printf("DIED exit=%d\n", WEXITSTATUS(status)); fflush(stdout); }
  }
  return 0;
}
