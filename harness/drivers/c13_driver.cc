// C13 implementation driver for lm/interpolate/merge_vocab.cc (MergeVocab + UniversalVocab).
// Input:  "V w,w,..;w,w,..;.."   per model the words (hex of the bytes; "-" = none beyond <unk>), any order
// The driver writes each model's vocabulary file the way lmplz does (<unk> first, then increasing
// HashForVocab), calls MergeVocab and prints
//   H:<hash,..>;<hash,..>|G:<hash of universal word 1>,..|M:<universal index of model word 1>,..;..|N:<returned size>
#include "lm/enumerate_vocab.hh"
#include "lm/interpolate/merge_vocab.hh"
#include "lm/interpolate/universal_vocab.hh"
#include "lm/vocab.hh"
#include "util/file.hh"
#include "util/fixed_array.hh"

#include <algorithm>
#include <cstdio>
#include <iostream>
#include <sstream>
#include <string>
#include <vector>

namespace {
std::string FromHex(const std::string &h) {
  std::string out;
  for (size_t i = 0; i + 1 < h.size(); i += 2) out.push_back(static_cast<char>(std::strtoul(h.substr(i, 2).c_str(), NULL, 16)));
  return out;
}
struct ByHash {
  bool operator()(const std::string &a, const std::string &b) const {
    return lm::ngram::detail::HashForVocab(a.data(), a.size()) < lm::ngram::detail::HashForVocab(b.data(), b.size());
  }
};
class Collect : public lm::EnumerateVocab {
  public:
    void Add(lm::WordIndex index, const StringPiece &str) {
      if (index >= words.size()) words.resize(index + 1);
      words[index].assign(str.data(), str.size());
      ++calls;
    }
    std::vector<std::string> words;
    size_t calls = 0;
};
} // namespace

int main() {
  std::string line;
  while (std::getline(std::cin, line)) {
    if (line.size() < 3 || line[0] != 'V') { std::cout << "?\n"; continue; }
    try {
      std::vector<std::vector<std::string> > models;
      std::stringstream all(line.substr(2));
      std::string one;
      while (std::getline(all, one, ';')) {
        models.push_back(std::vector<std::string>());
        if (one == "-") continue;
        std::stringstream ws(one);
        std::string w;
        while (std::getline(ws, w, ',')) models.back().push_back(FromHex(w));
        std::sort(models.back().begin(), models.back().end(), ByHash());
      }
      util::FixedArray<util::scoped_fd> owned(models.size());
      util::FixedArray<int> files(models.size());
      std::vector<lm::WordIndex> sizes;
      std::ostringstream out;
      out << "H:";
      for (size_t m = 0; m < models.size(); ++m) {
        owned.push_back(util::MakeTemp("/var/tmp/c13_vocab_"));
        std::string content("<unk>", 5);
        content.push_back('\0');
        if (m) out << ';';
        if (models[m].empty()) out << '-';
        for (size_t i = 0; i < models[m].size(); ++i) {
          content += models[m][i];
          content.push_back('\0');
          out << (i ? "," : "") << std::hex << lm::ngram::detail::HashForVocab(models[m][i].data(), models[m][i].size());
        }
        util::WriteOrThrow(owned.back().get(), content.data(), content.size());
        util::SeekOrThrow(owned.back().get(), 0);
        files.push_back(owned.back().get());
        sizes.push_back(models[m].size() + 1);
      }
      lm::interpolate::UniversalVocab vocab(sizes);
      Collect collect;
      lm::WordIndex n = lm::interpolate::MergeVocab(files, vocab, collect);
      out << "|G:";
      if (collect.words.size() <= 1) out << '-';
      for (size_t i = 1; i < collect.words.size(); ++i)
        out << (i > 1 ? "," : "") << std::hex << lm::ngram::detail::HashForVocab(collect.words[i].data(), collect.words[i].size());
      out << "|M:";
      for (size_t m = 0; m < models.size(); ++m) {
        if (m) out << ';';
        if (models[m].empty()) out << '-';
        for (size_t i = 0; i < models[m].size(); ++i) out << (i ? "," : "") << std::hex << vocab.GetUniversalIdx(m, i + 1);
      }
      out << "|N:" << std::hex << n << "|U:" << (collect.words.empty() ? std::string("?") : collect.words[0]) << ":" << vocab.GetUniversalIdx(0, 0);
      std::cout << out.str() << '\n';
    } catch (const std::exception &e) {
      std::string msg(e.what());
      std::replace(msg.begin(), msg.end(), '\n', ' ');
      std::cout << "EXCEPTION " << msg << '\n';
    }
  }
  return 0;
}
