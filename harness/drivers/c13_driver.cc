// C13 implementation driver for lm/interpolate/merge_vocab.cc (MergeVocab + UniversalVocab).
// Second case kind (lm/interpolate/bounded_sequence_encoding.hh, the packing of the per-model back-off levels):
//   "B <bounds: hex bytes> <values: hex bytes>"   ("-" = empty)
//   -> L:<EncodedLength> E:<encoded bytes hex|-> D:<decoded values hex|-> [OVERWRITE]
//   Encode writes into a buffer pre-filled with 0xAA (bytes after EncodedLength must stay untouched); Decode reads from a
//   copy of exactly EncodedLength bytes followed by 0xFF bytes (reading past the record changes the answer).
// Input:  "V w,w,..;w,w,..;.."   per model the words (hex of the bytes; "-" = none beyond <unk>), any order
// The driver writes each model's vocabulary file the way lmplz does (<unk> first, then increasing
// HashForVocab), calls MergeVocab and prints
//   H:<hash,..>;<hash,..>|G:<hash of universal word 1>,..|M:<universal index of model word 1>,..;..|N:<returned size>
// bounded_sequence_encoding.hh tests `BYTE_ORDER == BIG_ENDIAN` without including the header that defines them; in the
// library every translation unit has <endian.h> through earlier includes.  Do the same here (otherwise both macros
// are undefined, compare equal as 0 == 0 and the big-endian branch is compiled on x86).
#include <endian.h>
#include "lm/enumerate_vocab.hh"
#include "lm/interpolate/bounded_sequence_encoding.hh"
#include "lm/interpolate/merge_vocab.hh"
#include "lm/interpolate/universal_vocab.hh"
#include "lm/vocab.hh"
#include "util/file.hh"
#include "util/fixed_array.hh"

#include <algorithm>
#include <cstdio>
#include <iostream>
#include <sstream>
#include <string>
#include <vector>

namespace {
std::string FromHex(const std::string &h) {
  std::string out;
  for (size_t i = 0; i + 1 < h.size(); i += 2) out.push_back(static_cast<char>(std::strtoul(h.substr(i, 2).c_str(), NULL, 16)));
  return out;
}
struct ByHash {
  bool operator()(const std::string &a, const std::string &b) const {
    return lm::ngram::detail::HashForVocab(a.data(), a.size()) < lm::ngram::detail::HashForVocab(b.data(), b.size());
  }
};
class Collect : public lm::EnumerateVocab {
  public:
    void Add(lm::WordIndex index, const StringPiece &str) {
      if (index >= words.size()) words.resize(index + 1);
      words[index].assign(str.data(), str.size());
      ++calls;
    }
    std::vector<std::string> words;
    size_t calls = 0;
};
} // namespace

int main() {
  std::string line;
  while (std::getline(std::cin, line)) {
    if (line.size() >= 3 && line[0] == 'B') {
      try {
        std::stringstream in(line.substr(2));
        std::string bh, vh;
        in >> bh >> vh;
        std::string bounds = bh == "-" ? std::string() : FromHex(bh);
        std::string values = vh == "-" ? std::string() : FromHex(vh);
        const unsigned char *bb = reinterpret_cast<const unsigned char*>(bounds.data());
        lm::interpolate::BoundedSequenceEncoding enc(bb, bb + bounds.size());
        std::size_t len = enc.EncodedLength();
        std::vector<unsigned char> buf(len + 32, 0xAA);
        enc.Encode(reinterpret_cast<const unsigned char*>(values.data()), &buf[0]);
        bool overwrite = false;
        for (std::size_t i = len; i < buf.size(); ++i) overwrite |= (buf[i] != 0xAA);
        std::vector<unsigned char> rd(len + 32, 0xFF);
        std::copy(buf.begin(), buf.begin() + len, rd.begin());
        std::vector<unsigned char> dec(bounds.size() + 1, 0xEE);
        enc.Decode(&rd[0], &dec[0]);
        std::ostringstream out;
        out << "L:" << std::hex << len << " E:";
        if (!len) out << '-';
        char tmp[4];
        for (std::size_t i = 0; i < len; ++i) { std::snprintf(tmp, sizeof(tmp), "%02x", buf[i]); out << tmp; }
        out << " D:";
        if (bounds.empty()) out << '-';
        for (std::size_t i = 0; i < bounds.size(); ++i) { std::snprintf(tmp, sizeof(tmp), "%02x", dec[i]); out << tmp; }
        if (overwrite || dec[bounds.size()] != 0xEE) out << " OVERWRITE";
        std::cout << out.str() << '\n';
      } catch (const std::exception &e) {
        std::cout << "EXCEPTION " << e.what() << '\n';
      }
      continue;
    }
    if (line.size() < 3 || line[0] != 'V') { std::cout << "?\n"; continue; }
    try {
      std::vector<std::vector<std::string> > models;
      std::stringstream all(line.substr(2));
      std::string one;
      while (std::getline(all, one, ';')) {
        models.push_back(std::vector<std::string>());
        if (one == "-") continue;
        std::stringstream ws(one);
        std::string w;
        while (std::getline(ws, w, ',')) models.back().push_back(FromHex(w));
        std::sort(models.back().begin(), models.back().end(), ByHash());
      }
      util::FixedArray<util::scoped_fd> owned(models.size());
      util::FixedArray<int> files(models.size());
      std::vector<lm::WordIndex> sizes;
      std::ostringstream out;
      out << "H:";
      for (size_t m = 0; m < models.size(); ++m) {
        owned.push_back(util::MakeTemp("/var/tmp/c13_vocab_"));
        std::string content("<unk>", 5);
        content.push_back('\0');
        if (m) out << ';';
        if (models[m].empty()) out << '-';
        for (size_t i = 0; i < models[m].size(); ++i) {
          content += models[m][i];
          content.push_back('\0');
          out << (i ? "," : "") << std::hex << lm::ngram::detail::HashForVocab(models[m][i].data(), models[m][i].size());
        }
        util::WriteOrThrow(owned.back().get(), content.data(), content.size());
        util::SeekOrThrow(owned.back().get(), 0);
        files.push_back(owned.back().get());
        sizes.push_back(models[m].size() + 1);
      }
      lm::interpolate::UniversalVocab vocab(sizes);
      Collect collect;
      lm::WordIndex n = lm::interpolate::MergeVocab(files, vocab, collect);
      out << "|G:";
      if (collect.words.size() <= 1) out << '-';
      for (size_t i = 1; i < collect.words.size(); ++i)
        out << (i > 1 ? "," : "") << std::hex << lm::ngram::detail::HashForVocab(collect.words[i].data(), collect.words[i].size());
      out << "|M:";
      for (size_t m = 0; m < models.size(); ++m) {
        if (m) out << ';';
        if (models[m].empty()) out << '-';
        for (size_t i = 0; i < models[m].size(); ++i) out << (i ? "," : "") << std::hex << vocab.GetUniversalIdx(m, i + 1);
      }
      out << "|N:" << std::hex << n << "|U:" << (collect.words.empty() ? std::string("?") : collect.words[0]) << ":" << vocab.GetUniversalIdx(0, 0);
      std::cout << out.str() << '\n';
    } catch (const std::exception &e) {
      std::string msg(e.what());
      std::replace(msg.begin(), msg.end(), '\n', ' ');
      std::cout << "EXCEPTION " << msg << '\n';
    }
  }
  return 0;
}
