// Controlled scheduler for the KPU_KENLM_VERIF scheduling points of util/pcqueue.hh (C17, C12).
//
// Registered threads (the driver's own producers / consumers) are *serialised*: each stops at every scheduling point,
// the controller picks which one performs its next operation, so a run is a deterministic function of the schedule.
// Whether an operation would block is decided on a shadow copy of the semaphore counts / mutex flags that is updated
// from the same hook calls (kSemInit gives the initial counts); if the real primitive then blocks although the shadow
// says "enabled", the granted thread never reaches its next point and the controller reports STUCK.
// Unregistered threads (boost threads created inside kenlm: chains, thread pools, the filter) pass through; in jitter
// mode they yield / sleep pseudo-randomly (seeded) at every point.
#ifndef VERIF_SCHED_HH
#define VERIF_SCHED_HH
#include "util/pcqueue.hh"
#include "sched/procstate.hh"

#include <atomic>
#include <chrono>
#include <condition_variable>
#include <cstdio>
#include <cstdlib>
#include <map>
#include <mutex>
#include <string>
#include <vector>
#include <sched.h>
#include <signal.h>
#include <stdint.h>
#include <unistd.h>

namespace ksched {

inline uint64_t mix(uint64_t z) {
  z += 0x9E3779B97F4A7C15ull; z = (z ^ (z >> 30)) * 0xBF58476D1CE4E5B9ull; z = (z ^ (z >> 27)) * 0x94D049BB133111EBull; return z ^ (z >> 31);
}

struct Step { int tid; int op; std::vector<int> enabled; };

struct ThreadSt {
  enum State { RUNNING, AT_POINT, DONE };
  State st; int op; const void *obj; bool granted; std::condition_variable cv; pid_t ktid;
  ThreadSt() : st(RUNNING), op(-1), obj(0), granted(false), ktid(0) {}
};

class Scheduler {
 public:
  static Scheduler &Get() { static Scheduler s; return s; }

  // ---- jitter for unregistered threads
  void SetJitter(uint64_t seed) { jitter_seed_ = seed; jitter_ = seed != 0; }

  // ---- serialised mode
  void Reset(int nthreads) {
    std::lock_guard<std::mutex> l(mu_);
    for (size_t i = 0; i < threads_.size(); ++i) delete threads_[i];
    threads_.clear();
    for (int i = 0; i < nthreads; ++i) threads_.push_back(new ThreadSt());
    sem_.clear(); held_.clear(); trace_.clear();
    active_ = nthreads > 0;
  }
  void Deactivate() { std::lock_guard<std::mutex> l(mu_); active_ = false; }

  static int &Tid() { static thread_local int tid = -1; return tid; }
  void ThreadBegin(int tid) { Tid() = tid; std::lock_guard<std::mutex> l(mu_); threads_[tid]->ktid = procstate::ktid(); }
  void ThreadEnd() {
    std::unique_lock<std::mutex> l(mu_);
    threads_[Tid()]->st = ThreadSt::DONE;
    Tid() = -1;
    ctl_cv_.notify_all();
  }

  // Policy: given the enabled set (sorted tids), the previously chosen tid (-1 at the start) and the step number,
  // return the tid to run.
  struct Policy { virtual int Choose(const std::vector<int> &enabled, int prev, size_t step) = 0; virtual ~Policy() {} };

  // Runs until every registered thread is DONE.  Returns "" or a failure description ("deadlock ...", "stuck ...").
  std::string Control(Policy &policy, double stuck_seconds = 5.0) {
    std::unique_lock<std::mutex> l(mu_);
    int prev = -1;
    for (;;) {
      // wait for quiescence
      // Progress based: a granted thread that has not reached its next point is "stuck" only if it is parked in futex (blocked in
      // the real primitive although the shadow state enabled it) sample after sample; while it is runnable we keep waiting.
      int parked_samples = 0;
      for (;;) {
        bool ok = ctl_cv_.wait_for(l, std::chrono::milliseconds(500), [&] {
          for (size_t i = 0; i < threads_.size(); ++i) if (threads_[i]->st == ThreadSt::RUNNING) return false;
          return true; });
        if (ok) break;
        bool all_parked = true;
        for (size_t i = 0; i < threads_.size(); ++i)
          if (threads_[i]->st == ThreadSt::RUNNING && !(threads_[i]->ktid && procstate::thread_parked(threads_[i]->ktid))) all_parked = false;
        parked_samples = all_parked ? parked_samples + 1 : 0;
        if (parked_samples >= (int)(stuck_seconds * 2)) {
          std::string r = "stuck";
          for (size_t i = 0; i < threads_.size(); ++i) if (threads_[i]->st == ThreadSt::RUNNING) { char b[64]; snprintf(b, sizeof b, " t%zu-after-op%d", i, threads_[i]->op); r += b; }
          return r;
        }
      }
      std::vector<int> enabled;
      bool any = false;
      for (size_t i = 0; i < threads_.size(); ++i) {
        ThreadSt &t = *threads_[i];
        if (t.st != ThreadSt::AT_POINT) continue;
        any = true;
        bool en = true;
        if (t.op == util::verif::kSemWait) en = sem_[t.obj] > 0;
        else if (t.op == util::verif::kLock) en = !held_[t.obj];
        if (en) enabled.push_back((int)i);
      }
      if (!any) return "";
      if (enabled.empty()) {
        std::string r = "deadlock";
        for (size_t i = 0; i < threads_.size(); ++i) if (threads_[i]->st == ThreadSt::AT_POINT) { char b[64]; snprintf(b, sizeof b, " t%zu-at-op%d", i, threads_[i]->op); r += b; }
        return r;
      }
      int c = policy.Choose(enabled, prev, trace_.size());
      ThreadSt &t = *threads_[c];
      if (t.op == util::verif::kSemWait) --sem_[t.obj];
      else if (t.op == util::verif::kSemPost) ++sem_[t.obj];
      else if (t.op == util::verif::kLock) held_[t.obj] = true;
      else if (t.op == util::verif::kUnlock) held_[t.obj] = false;
      Step s; s.tid = c; s.op = t.op; s.enabled = enabled;
      trace_.push_back(s);
      prev = c;
      t.granted = true; t.st = ThreadSt::RUNNING;
      t.cv.notify_one();
    }
  }
  const std::vector<Step> &Trace() const { return trace_; }
  // initial semaphore values announced since the last call: (empty_, used_) per PCQueue constructed, in construction order
  std::vector<std::size_t> TakeInitLog() { std::lock_guard<std::mutex> l(mu_); std::vector<std::size_t> r; r.swap(init_log_); return r; }
  long SemCount(const void *obj) { std::lock_guard<std::mutex> l(mu_); return sem_[obj]; }

  static void Hook(const void *queue, int op, const void *obj, std::size_t arg) { Get().OnPoint(queue, op, obj, arg); }
  void Install() { util::verif::SchedHookSlot() = &Scheduler::Hook; }

 private:
  Scheduler() : active_(false), jitter_(false), jitter_seed_(0), counter_(0) {}
  void OnPoint(const void *, int op, const void *obj, std::size_t arg) {
    if (op == util::verif::kSemInit) { std::lock_guard<std::mutex> l(mu_); sem_[obj] = (long)arg; init_log_.push_back(arg); return; }
    // worker threads take the harness's SIGUSR1 (no-op handler without SA_RESTART); the main thread keeps it blocked
    static thread_local bool unblocked = false;
    if (!unblocked) {
      unblocked = true;
      if (procstate::ktid() != getpid()) { sigset_t m; sigemptyset(&m); sigaddset(&m, SIGUSR1); pthread_sigmask(SIG_UNBLOCK, &m, NULL); }
    }
    int tid = Tid();
    if (tid < 0 || !active_) {
      if (jitter_) {
        uint64_t r = mix(jitter_seed_ ^ (counter_.fetch_add(1) * 0x9E3779B97F4A7C15ull));
        if ((r & 3) == 0) sched_yield();
        else if ((r & 31) == 1) usleep((r >> 8) % 120);
      }
      return;
    }
    std::unique_lock<std::mutex> l(mu_);
    ThreadSt &t = *threads_[tid];
    t.op = op; t.obj = obj; t.st = ThreadSt::AT_POINT;
    ctl_cv_.notify_all();
    t.cv.wait(l, [&] { return t.granted; });
    t.granted = false;
  }

  std::mutex mu_;
  std::condition_variable ctl_cv_;
  std::vector<ThreadSt*> threads_;
  std::map<const void*, long> sem_;
  std::map<const void*, bool> held_;
  std::vector<Step> trace_;
  std::vector<std::size_t> init_log_;
  std::atomic<bool> active_;
  std::atomic<bool> jitter_;
  uint64_t jitter_seed_;
  std::atomic<uint64_t> counter_;
};

}  // namespace ksched
#endif
