// Progress-based hang detection: a wall-clock limit alone reports a "hang" on a loaded machine.  A process is *idle* when every
// one of its threads (except the caller) sleeps ('S' in /proc/self/task/<tid>/stat); a real deadlock is idle sample after sample,
// a slow run is not (a thread waiting for a CPU is 'R').  A thread is *parked* when it sleeps inside futex(2) (sem_wait, mutex,
// join), as opposed to a short jitter sleep (nanosleep).
#ifndef VERIF_PROCSTATE_HH
#define VERIF_PROCSTATE_HH
#include <cstdio>
#include <cstdlib>
#include <cstring>
#include <dirent.h>
#include <sys/syscall.h>
#include <sys/types.h>
#include <unistd.h>

namespace procstate {
inline pid_t ktid() { return (pid_t)syscall(SYS_gettid); }
inline char thread_state(pid_t pid, pid_t tid) {
  char path[96], buf[512];
  snprintf(path, sizeof path, "/proc/%d/task/%d/stat", (int)pid, (int)tid);
  FILE *f = fopen(path, "r"); if (!f) return 'X';
  size_t n = fread(buf, 1, sizeof buf - 1, f); fclose(f); buf[n] = 0;
  const char *p = strrchr(buf, ')');            // the command name may contain spaces
  return (p && p[1] == ' ') ? p[2] : 'X';
}
inline long thread_syscall(pid_t pid, pid_t tid) {
  char path[96], buf[128];
  snprintf(path, sizeof path, "/proc/%d/task/%d/syscall", (int)pid, (int)tid);
  FILE *f = fopen(path, "r"); if (!f) return -2;
  size_t n = fread(buf, 1, sizeof buf - 1, f); fclose(f); buf[n] = 0;
  if (!strncmp(buf, "running", 7)) return -1;
  return strtol(buf, NULL, 10);
}
inline bool thread_parked(pid_t tid) {           // sleeping in futex: sem_wait / mutex / condition variable / join
  pid_t pid = getpid();
  return thread_state(pid, tid) == 'S' && thread_syscall(pid, tid) == SYS_futex;
}
// every thread of `pid` other than `except` sleeps (or is gone)
inline bool process_idle(pid_t pid, pid_t except) {
  char path[64]; snprintf(path, sizeof path, "/proc/%d/task", (int)pid);
  DIR *d = opendir(path); if (!d) return false;
  bool idle = true;
  while (struct dirent *e = readdir(d)) {
    if (e->d_name[0] < '0' || e->d_name[0] > '9') continue;
    pid_t t = (pid_t)atoi(e->d_name);
    if (t == except) continue;
    char s = thread_state(pid, t);
    if (s != 'S' && s != 'X' && s != 'Z') { idle = false; break; }
  }
  closedir(d);
  return idle;
}
}  // namespace procstate
#endif
