"""Regenerates coq/Gen/Spaces.v (util::kSpaces, lm::kARPASpaces) from the current sources: the two tables are
printed by harness/drivers/c14_tables.cc compiled against /repo's working tree.  Shared by C14 and C10."""
import os

import vlib


def tab(s):
    return "[" + "; ".join("true" if c == "1" else "false" for c in s) + "]"


def regen_spaces():
    drv = vlib.compile_driver("c14_tables", os.path.join(vlib.ROOT, "harness", "drivers", "c14_tables.cc"))
    rc, out, err = vlib.sh([drv], timeout=30)
    lines = out.split()
    if rc != 0 or len(lines) != 2 or any(len(l) != 256 or set(l) - set("01") for l in lines):
        raise vlib.InfraError("c14_tables did not print two 256-entry tables: rc=%d %r %r" % (rc, out[:200], err[:200]))
    txt = """(* GENERATED on every run by harness/py/kspaces_gen.py from util/spaces.cc (util::kSpaces) and
   lm/read_arpa.cc (lm::kARPASpaces): the tables are printed by harness/drivers/c14_tables.cc compiled
   against the current sources.  Do not edit. *)
From Coq Require Import List Bool.
Import ListNotations.
Definition kSpaces_table : list bool :=
  %s.
Definition kARPASpaces_table : list bool :=
  %s.
""" % (tab(lines[0]), tab(lines[1]))
    vlib.write_if_changed(os.path.join(vlib.COQ, "Gen", "Spaces.v"), txt)
    return lines


WHAT = "util::kSpaces (util/spaces.cc) + lm::kARPASpaces (lm/read_arpa.cc) via harness/drivers/c14_tables.cc"


def regen_spaces_safe():
    """A source from which the tables can no longer be extracted (array renamed / retyped / moved, printer no longer compiles or
    prints something else) is a broken tie, not an infrastructure error: the previous coq/Gen/Spaces.v stays in place (if there is
    none the proof step fails and is reported), the run goes on, and the caller reports `translation:...` at the end.
    Returns None, or the reason as text.  A tree whose libraries do not build at all still raises InfraError."""
    vlib.build_repo(["kenlm", "kenlm_util"])
    try:
        regen_spaces()
        return None
    except Exception as e:  # noqa: anything the extractor can raise
        return "%s: %s" % (type(e).__name__, str(e)[-1500:])


def report_translation(ctx, reason):
    """at the end of a run: the tie through the generated tables is broken; found=False unless a failing input was already reported"""
    if reason and not any(found for _, found in ctx.violations):
        ctx.report("translation:kSpaces+kARPASpaces-tables", "the 256-entry delimiter tables can no longer be regenerated from the current sources, so "
                   "coq/Gen/Spaces.v (and every theorem / model run that uses it) is no longer tied to the code; the specification oracle found no failing input",
                   {"unit": WHAT, "reason": reason, "kept": "the previous coq/Gen/Spaces.v, if any"}, found=False)
