"""Regenerates coq/Gen/Spaces.v (util::kSpaces, lm::kARPASpaces) from the current sources: the two tables are
printed by harness/drivers/c14_tables.cc compiled against /repo's working tree.  Shared by C14 and C10."""
import os

import vlib


def tab(s):
    return "[" + "; ".join("true" if c == "1" else "false" for c in s) + "]"


def regen_spaces():
    drv = vlib.compile_driver("c14_tables", os.path.join(vlib.ROOT, "harness", "drivers", "c14_tables.cc"))
    rc, out, err = vlib.sh([drv], timeout=30)
    lines = out.split()
    if rc != 0 or len(lines) != 2 or any(len(l) != 256 or set(l) - set("01") for l in lines):
        raise vlib.InfraError("c14_tables did not print two 256-entry tables: rc=%d %r %r" % (rc, out[:200], err[:200]))
    txt = """(* GENERATED on every run by harness/py/kspaces_gen.py from util/spaces.cc (util::kSpaces) and
   lm/read_arpa.cc (lm::kARPASpaces): the tables are printed by harness/drivers/c14_tables.cc compiled
   against the current sources.  Do not edit. *)
From Coq Require Import List Bool.
Import ListNotations.
Definition kSpaces_table : list bool :=
  %s.
Definition kARPASpaces_table : list bool :=
  %s.
""" % (tab(lines[0]), tab(lines[1]))
    vlib.write_if_changed(os.path.join(vlib.COQ, "Gen", "Spaces.v"), txt)
    return lines
