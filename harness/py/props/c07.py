"""C07 -- lmplz output is independent of memory budget, block sizes and scheduling (DESIGN.md section 4, C07).

 (a) component: the real lm::builder::CorpusCount on a chain with a chosen block size, per-block records compared with
     the extracted model of Writer::Append (coq/C07/CountModel.v); specification oracle: per-n-gram totals over all
     blocks equal the true counts, whatever the block capacity; every block duplicate-free and within capacity;
     word ids in first-occurrence order whatever the initial vocabulary estimate.
 (a2) component: the real lm::builder::AdjustCounts (with its CollapseStream) fed with the same sorted highest-order counts
     under different block splits; oracle: the highest-order records passed on are exactly the entries without <s> in
     position 1, each marked by its own count (pruning), everything else is independent of the split; the blocks are
     compared with the extracted model of CollapseStream (coq/C07/CollapseStreamModel.v).
 (b) tool: `lmplz` --arpa and --intermediate outputs byte-identical across a lattice of
     (-S, --sort_block, --minimum_block, --block_count, --vocab_estimate, -T) from "a few hundred KB, many spills,
     multi-pass merges" to "all in RAM", and across repeated runs (OS scheduling of the worker threads varies)."""
import glob
import hashlib
import os
import shutil

import vlib

DRIVER = os.path.join(vlib.ROOT, "harness", "drivers", "c07_driver.cc")


def hx(x):
    return "%x" % x


# ---------------------------------------------------------------------------------------------
# corpora
def zipf_word(rng, types):
    # few hundred types, Zipf-like: rank r with weight 1/(r+1)
    x = rng.below(1 << 20) / float(1 << 20)
    r = int(types ** x) - 1
    return "w%d" % max(0, min(types - 1, r))


def gen_corpus(rng, sentences, types, maxlen, style="zipf"):
    lines = []
    for i in range(sentences):
        if style == "repeat":
            lines.append("a b c d e")
        elif style == "oneword":
            lines.append("x")
        elif style == "long":
            lines.append(" ".join(zipf_word(rng, types) for _ in range(rng.range(200, 600))))
        elif style == "emptyish" and rng.chance(1, 3):
            lines.append("")
        else:
            ln = rng.choice([1, 2, 3, rng.range(1, maxlen)])
            lines.append(" ".join(zipf_word(rng, types) for _ in range(ln)))
    return lines


def gen_ids_corpus(rng, base_sentences, types, nids, maxlen):
    """ordinary sentences (they saturate the vocabulary), then `records`: every line of a record starts with the record's
    unique id (log / document / utterance ids).  The ids get consecutive vocabulary numbers and occur only sentence-initially,
    so the highest order holds long runs of adjacent `<s> <s> id` entries -- the entries CollapseStream deletes block by block."""
    lines = gen_corpus(rng, base_sentences, types, maxlen, "zipf")
    k = 0
    while k < nids:
        burst = min(nids - k, rng.choice([1, 5, 40, 200, nids]))
        for j in range(burst):
            for _ in range(rng.choice([1, 2, 2, 3])):
                lines.append("doc%05d " % (k + j) + " ".join(zipf_word(rng, min(types, 60)) for _ in range(rng.range(1, 6))))
        k += burst
        if k < nids and rng.chance(1, 2):
            lines += gen_corpus(rng, rng.range(1, 30), types, maxlen, "zipf")      # already-seen words only: no new ids in between
    return lines


def gen_repeat_corpus(rng, base_lines, types, maxlen):
    """duplicated text: every line of a base text (small vocabulary, saturated early) occurs 2..5 times at random places of the
    corpus, plus a few boilerplate lines that come back every few dozen lines (headers / footers / licences).  Equal n-grams -- also
    the greatest ones of the suffix order -- then sit in many different sorted runs, i.e. at the junctions of the merges."""
    base = [" ".join(zipf_word(rng, types) for _ in range(rng.range(3, maxlen))) for _ in range(base_lines)]
    lines = []
    for l in base:
        lines += [l] * rng.choice([2, 2, 3, 5])
    rng.shuffle(lines)
    boiler = [rng.choice(base) for _ in range(rng.range(1, 3))] + [" ".join([zipf_word(rng, types)] * rng.range(2, 5))]
    out = []
    for i, l in enumerate(lines):
        out.append(l)
        if i % rng.choice([17, 40, 90]) == 0:
            out.append(rng.choice(boiler))
    return out


def gen_vocab_corpus(rng, ntypes, prefix):
    """vocabulary growth: tens of thousands of distinct word types, ten new ones per line, and old lines coming back all the time
    (the next line, a recent line, any earlier line), so that every word is looked up again soon after it was first seen and
    also much later -- while GrowableVocab's table doubles again and again when --vocab_estimate is far too small."""
    lines = []
    fresh = []
    for i in range(0, ntypes, 10):
        l = " ".join("%s%d" % (prefix, j) for j in range(i, min(ntypes, i + 10)))
        lines.append(l)
        fresh.append(l)
        r = rng.below(4)
        if r == 0:
            lines.append(l)
        elif r == 1:
            lines.append(fresh[max(0, len(fresh) - 1 - rng.below(50))])
        elif r == 2:
            lines.append(fresh[rng.below(len(fresh))])
    return lines


def gen_catalogue_corpus(rng, base_sentences, types, nitems, maxlen):
    """running text with `catalogues`: thousands of distinct identifiers in a row, each occurring exactly once (part numbers,
    hashes, a word list appended to the corpus).  All n-grams over them are singletons and adjacent in every sort order, so with
    --prune whole chain blocks of the later stages consist of prunable n-grams only."""
    lines = gen_corpus(rng, base_sentences, types, maxlen, "zipf")
    done = 0
    while done < nitems:
        burst = min(nitems - done, rng.choice([nitems, nitems, max(1, nitems // 2), rng.range(1, nitems)]))
        per_line = rng.choice([1, 5, 10, 10])
        for i in range(done, done + burst, per_line):
            lines.append(" ".join("id%06d" % j for j in range(i, min(done + burst, i + per_line))))
        done += burst
        if done < nitems or rng.chance(1, 3):
            lines += gen_corpus(rng, rng.range(1, 200), types, maxlen, "zipf")
    return lines


def prune_options(rng, order):
    """--prune thresholds (non-decreasing, 0 for unigrams) that prune at least the highest order"""
    if order < 2:
        return []
    last = rng.choice([1, 1, 2])
    th = [0] * (order - 1) + [last]
    if order >= 3 and rng.chance(1, 2):
        th[order - 2] = rng.choice([1, last]) if last >= 1 else 0
        th[order - 2] = min(th[order - 2], last)
    return ["--prune"] + [str(t) for t in th]


def ids_of(lines):
    """GrowableVocab: <unk>=0 <s>=1 </s>=2, then first-occurrence order"""
    vocab = {}
    sents = []
    for l in lines:
        s = []
        for w in l.split():
            if w not in vocab:
                vocab[w] = 3 + len(vocab)
            s.append(vocab[w])
        sents.append(s)
    return sents, vocab


def true_counts(order, sents):
    """the n-grams of the padded corpus, from the definition"""
    counts = {}
    for s in sents:
        ctx = [1] * (order - 1)
        for w in s + [2]:
            g = tuple(ctx + [w])
            counts[g] = counts.get(g, 0) + 1
            ctx = list(g[1:])
    return counts


def parse_blocks(body):
    blocks = []
    for b in body.split("|"):
        recs = []
        for t in b.split():
            k, c = t.split(":")
            recs.append((tuple(int(w, 16) for w in k.split(".")), int(c, 16)))
        blocks.append(recs)
    return blocks


def oracle_component(order, sents, ntypes, o):
    if "#" not in o or o.startswith("EXCEPTION") or o.startswith("DIED"):
        return "CorpusCount did not deliver: %s" % o[:200]
    head, _, body = o.partition("#")
    h = dict(x.split("=") for x in head.split())
    cap = int(h["cap"], 16)
    if "RAGGED" in body:
        return "a block's valid size is not a multiple of the record size"
    blocks = parse_blocks(body)
    tot = {}
    for i, b in enumerate(blocks):
        if len(b) > cap:
            return "block %d holds %d records, capacity %d" % (i, len(b), cap)
        if len({k for k, _ in b}) != len(b):
            return "block %d holds the same n-gram twice (dedupe table)" % i
        for k, c in b:
            tot[k] = tot.get(k, 0) + c
    exp = true_counts(order, sents)
    if order == 1:
        exp.setdefault((0,), 0)
        exp.setdefault((1,), 0)
    # n-grams whose total is 0 (the two special unigrams of order 1) carry no count: their presence is not C07's business
    tot = {k: v for k, v in tot.items() if v}
    exp = {k: v for k, v in exp.items() if v}
    if tot != exp:
        for k in sorted(set(tot) | set(exp)):
            if tot.get(k) != exp.get(k):
                return "total count of n-gram %s over all blocks is %s, true count %s (capacity %d)" % (k, tot.get(k), exp.get(k), cap)
    if int(h["tokens"], 16) != sum(len(s) for s in sents):
        return "token count %s, corpus has %d tokens" % (h["tokens"], sum(len(s) for s in sents))
    if int(h["types"], 16) != ntypes + 3:
        return "type count %s, corpus has %d types + 3 specials" % (h["types"], ntypes)
    return None


# ---------------------------------------------------------------------------------------------
# component: AdjustCounts / CollapseStream under different block splits of the same sorted highest-order stream
def sorted_counts(order, sents):
    """what the first sort hands to AdjustCounts: distinct n-grams with counts, in SuffixOrder"""
    c = true_counts(order, sents)
    return sorted(c.items(), key=lambda kv: tuple(reversed(kv[0])))


def split_blocks(rng, recs, style):
    n = len(recs)
    if style == "single" or n == 0:
        return [recs]
    blocks, i = [], 0
    bos_run = lambda j: len(recs[j][0]) > 1 and recs[j][0][1] == 1
    while i < n:
        if style == "ones":
            take = 1
        elif style == "runs":
            # block boundaries exactly around / inside the runs of entries with <s> in position 1
            j = i
            while j < n and bos_run(j) == bos_run(i):
                j += 1
            take = j - i if rng.chance(1, 2) else rng.range(1, j - i)
        else:
            take = rng.choice([1, 2, 3, rng.range(1, 12), rng.range(1, 80)])
        blocks.append(recs[i:i + take])
        i += take
        if rng.chance(1, 12):
            blocks.append([])
    return blocks


def gen_adjust(rng, n_inputs):
    groups = []
    for _ in range(n_inputs):
        style = rng.choice(["ids", "ids", "zipf", "emptyish"])
        if style == "ids":
            lines = gen_ids_corpus(rng, rng.range(0, 40), rng.choice([3, 10, 40]), rng.choice([3, 10, 40, 120]), 6)
        else:
            lines = gen_corpus(rng, rng.range(1, 60), rng.choice([2, 5, 30]), 6, style)
        sents, vocab = ids_of(lines)
        order = rng.range(2, 5)
        recs = sorted_counts(order, sents)
        top = rng.choice([0, 1, 1, 2, 3])
        thr = [0] * (order - 1) + [top]
        if order >= 3 and rng.chance(1, 3):
            thr[order - 2] = min(top, 1)
        types = len(vocab) + 3
        pw = sorted({rng.range(3, types - 1) for _ in range(rng.range(1, 4))}) if (types > 3 and rng.chance(1, 4)) else []
        cases = []
        for st in ["single", "ones", "runs", "runs", "random", "random"]:
            blocks = split_blocks(rng, recs, st)
            body = " / ".join(" ".join(".".join(hx(w) for w in g) + ":" + hx(c) for g, c in b) for b in blocks)
            body = " ".join(body.split())
            pws = ",".join(hx(w) for w in pw) if pw else "-"
            iline = "AC %x %s %s %x %x %s" % (order, ",".join(hx(t) for t in thr), pws, types, rng.range(1, 3), body)
            mline = "AC %x %s %s" % (top, pws, body)
            cases.append((iline.rstrip(), mline.rstrip(), st))
        groups.append({"order": order, "recs": recs, "thr": thr, "pw": pw, "cases": cases, "corpus": lines})
    return groups


def parse_marked(body):
    blocks = []
    for b in body.split("|"):
        recs = []
        for t in b.split():
            k, c = t.split(":")
            m = c.endswith("*")
            recs.append((tuple(int(w, 16) for w in k.split(".")), int(c.rstrip("*"), 16), m))
        blocks.append(recs)
    return blocks


def oracle_adjust(group, o):
    """specification (property text: chain block boundaries never change the data): what leaves the highest order is, as a
    multiset, the entries without <s> in position 1, each marked iff its own count is at or below the threshold (or it
    contains a pruned word)"""
    if not o.startswith("O1"):
        return "AdjustCounts did not deliver: %s" % o[:200]
    parts = o.split(" # ")
    top = parts[group["order"] - 1]
    if "RAGGED" in top:
        return "a block's valid size is not a multiple of the record size"
    got = sorted(r for b in parse_marked(top.split(" ", 1)[1] if " " in top else "") for r in b)
    thr, pw = group["thr"][-1], set(group["pw"])
    exp = sorted((g, c, (c <= thr) or any(w in pw for w in g)) for g, c in group["recs"] if not (len(g) > 1 and g[1] == 1))
    if got != exp:
        extra = [r for r in got if r not in exp][:3]
        missing = [r for r in exp if r not in got][:3]
        return "highest-order records passed on differ from {entries without <s> in position 1, marked by their own count}: unexpected %s, missing %s" % (extra, missing)
    return None


# ---------------------------------------------------------------------------------------------
# lmplz lattice
REJECT_MARKERS = ("Not enough memory to fit", "is below the minimum block size", "Vocab hash size estimate", "Chain configured with",
                  "is too small for four buffers", "Sort buffer too small", "Sorting entries of size 0", "Try rerunning with a more conservative",
                  "Cannot allocate memory", "std::bad_alloc", "bad_alloc")
# ("Last input should have been poison" is printed by ~Link while ANY exception unwinds a worker: not a crash marker)
CRASH_MARKERS = ("Bug in sort implementation", "Chain ending without poison")


def build_nopunch():
    """harness/shim/c07_nopunch.c: fallocate(PUNCH_HOLE) fails with EOPNOTSUPP (a -T directory on a file system without hole punching)"""
    src = os.path.join(vlib.ROOT, "harness", "shim", "c07_nopunch.c")
    outdir = os.path.join(vlib.CACHE, "shim")
    os.makedirs(outdir, exist_ok=True)
    so = os.path.join(outdir, "c07_nopunch-%s.so" % hashlib.sha256(open(src, "rb").read()).hexdigest()[:16])
    if not os.path.exists(so):
        tmp = so + ".%d.tmp" % os.getpid()
        vlib.sh(["gcc", "-O2", "-shared", "-fPIC", "-o", tmp, src, "-ldl"], timeout=120, check=True)
        os.replace(tmp, so)
    return so


def run_lmplz(ctx, tool, corpus, order, cfg, tag, extra=()):
    """-> (kind, digest dict or message)"""
    wd = os.path.join(ctx.scratch, "run-" + tag)
    shutil.rmtree(wd, ignore_errors=True)
    os.makedirs(os.path.join(wd, cfg.get("T", "t")), exist_ok=True)
    # "@arpa-only" (a pseudo option): no --intermediate.  --intermediate forces --renumber (word ids ordered by hash), the
    # default pipeline keeps first-occurrence ids: the two order every stream differently, so both are exercised.
    # "@stdout": the model is taken from standard output (lmplz's documented default: no --arpa, no --intermediate)
    to_stdout = "@stdout" in extra
    arpa_only = "@arpa-only" in extra or to_stdout
    extra = [x for x in extra if x not in ("@arpa-only", "@stdout")]
    cmd = ["timeout", "120", tool, "-o", str(order), "--text", corpus] + ([] if to_stdout else ["--arpa", os.path.join(wd, "out.arpa")]) + \
          ([] if arpa_only else ["--intermediate", os.path.join(wd, "int")]) + \
          ["--discount_fallback", "-S", cfg["S"], "--vocab_estimate", str(cfg["vocab_estimate"]), "-T", os.path.join(wd, cfg.get("T", "t")) + "/"]
    for k in ("sort_block", "minimum_block", "block_count"):
        if k in cfg:
            cmd += ["--" + k, str(cfg[k])]
    cmd += list(extra)
    # strace only counts ftruncate calls: Sort::Merge truncates the consumed data file and resets the offsets log once
    # per merge pass, so the count is a measured indicator of how many merge passes the run performed
    stlog = os.path.join(wd, "strace.log")
    # "_nopunch": the temporary directory behaves like a file system without hole punching (a legitimate -T facet)
    penv = {"LD_PRELOAD": build_nopunch()} if cfg.get("_nopunch") else None
    rc, out, err = vlib.sh(list(cfg.get("_prefix", [])) + ["strace", "-f", "-qq", "-e", "trace=ftruncate", "-o", stlog] + cmd, timeout=150, env=penv, binary=True)
    err = err.decode("utf-8", "replace")
    if to_stdout:
        open(os.path.join(wd, "out.arpa"), "wb").write(out)
    truncs = 0
    if os.path.exists(stlog):
        truncs = sum(1 for l in open(stlog, errors="replace") if "ftruncate(" in l)
    res = None
    if rc == 0:
        ctx.counts.setdefault("_truncs", []).append(truncs)
        dig = {}
        try:
            header, body, sec = {}, {}, None
            with open(os.path.join(wd, "out.arpa"), errors="replace") as fh:
                for ln in fh:
                    if ln.startswith("ngram "):
                        k, v = ln[6:].split("=")
                        header[int(k)] = int(v)
                    elif ln.startswith("\\") and ln.rstrip().endswith("-grams:"):
                        sec = int(ln[1:ln.index("-")])
                        body[sec] = 0
                    elif sec is not None and ln.strip() and not ln.startswith("\\"):
                        body[sec] += 1
            if 1 in header:
                dig["_ngram1"] = header[1]
            dig["_header"] = header
            dig["_body"] = body
        except (OSError, ValueError):
            pass
        for f in sorted(glob.glob(os.path.join(wd, "out.arpa")) + glob.glob(os.path.join(wd, "int*"))):
            if os.path.isfile(f):
                dig[os.path.basename(f)] = hashlib.sha256(open(f, "rb").read()).hexdigest() + ":%d" % os.path.getsize(f)
        res = ("ok", dig)
    elif any(m in err for m in CRASH_MARKERS):
        res = ("crash", "rc=%d %s" % (rc, err[-400:]))
    elif rc == 124 or rc == 137:
        res = ("hang", "timeout")
    elif any(m in err for m in REJECT_MARKERS):
        res = ("rejected", err.strip().split("\n")[-1][-200:])
    elif rc in (134, -6) and err.strip():
        # some other exception caught by Pipeline (printed, then abort()): the run did not succeed, so the property says
        # nothing about it -- but it is counted and shown in the evidence, separately from rejected configurations
        res = ("failed", err.strip().split("\n")[-1][-200:])
    else:
        res = ("crash", "rc=%d %s" % (rc, err[-400:]))
    shutil.rmtree(wd, ignore_errors=True)
    return res[0], res[1], " ".join((["LD_PRELOAD=c07_nopunch.so"] if cfg.get("_nopunch") else []) + list(cfg.get("_prefix", [])) + cmd[2:] + (["> out.arpa"] if to_stdout else []))


def lattice(rng, big):
    base = [
        {"S": "20M", "vocab_estimate": 1000},                                                                  # all in RAM
        {"S": "20M", "vocab_estimate": 1000, "T": "other-temp-dir"},
        {"S": "20M", "vocab_estimate": 200000, "block_count": 3},
        {"S": "4M", "vocab_estimate": 100, "sort_block": "64K", "minimum_block": "1K"},
        {"S": "1M", "vocab_estimate": 50, "sort_block": "16K", "minimum_block": "512b", "block_count": 1},
        {"S": "600K", "vocab_estimate": 10, "sort_block": "4K", "minimum_block": "128b", "block_count": 2},
        {"S": "300K", "vocab_estimate": 5, "sort_block": "2K", "minimum_block": "64b", "block_count": 1},      # dozens of spills, multi-pass merges
        {"S": "250K", "vocab_estimate": 3, "sort_block": "1024b", "minimum_block": "64b", "block_count": 1},
        {"S": "200K", "vocab_estimate": 3, "sort_block": "512b", "minimum_block": "64b", "block_count": 1},
        {"S": "180K", "vocab_estimate": 1, "sort_block": "256b", "minimum_block": "40b", "block_count": 4},
        # sort_block = S/4: merge arity 2..3, so Sort::Merge needs several real passes before the lazy merge
        {"S": "150K", "vocab_estimate": 10, "sort_block": "37K", "minimum_block": "64b", "block_count": 1},
        {"S": "200K", "vocab_estimate": 10, "sort_block": "50K", "minimum_block": "64b", "block_count": 2},
        {"S": "400K", "vocab_estimate": 10, "sort_block": "64K", "minimum_block": "1K", "block_count": 3},
        # small enough that the counting step spills many runs even on a few thousand sentences (equal n-grams at many merge junctions)
        {"S": "100K", "vocab_estimate": 10, "sort_block": "8K", "minimum_block": "64b", "block_count": 2},
        {"S": "60K", "vocab_estimate": 5, "sort_block": "4K", "minimum_block": "64b", "block_count": 1},
        {"S": "20K", "vocab_estimate": 2, "sort_block": "2K", "minimum_block": "64b", "block_count": 2},
        # tiny settings: accepted or legitimately rejected (a rejected run is not a violation)
        {"S": "40K", "vocab_estimate": 1, "sort_block": "1K", "minimum_block": "64b", "block_count": 1},
        {"S": "6K", "vocab_estimate": 1, "sort_block": "512b", "minimum_block": "64b", "block_count": 1},
        {"S": "1M", "vocab_estimate": 1000000, "sort_block": "1K", "minimum_block": "64b", "block_count": 1},
    ]
    extra = []
    for _ in range(12 if big else 2):
        s = rng.choice([150, 200, 260, 333, 500, 777, 1500, 5000])
        sb = rng.choice([128, 200, 256, 500, 1000, 4096, 30000])
        extra.append({"S": "%dK" % s, "vocab_estimate": rng.choice([1, 2, 7, 100, 5000]), "sort_block": "%db" % sb,
                      "minimum_block": "%db" % rng.choice([40, 64, 100, sb]), "block_count": rng.range(1, 5)})
    return base + extra


# ---------------------------------------------------------------------------------------------
def run(ctx):
    pres = vlib.coq_prove("C07")
    ctx.set_proof(pres)
    rng = ctx.rng.fork()      # vlib.Rng(seed) streams of neighbouring seeds are shifted copies of one another (they re-synchronise); a forked stream starts far away
    big = not ctx.quick
    env = {"VERIF_TMP": os.path.join(ctx.scratch, "tmp-")}
    spec_fail = []

    # ---- (a) component: CorpusCount vs model -------------------------------------------------------------------
    impl = vlib.compile_driver("c07_driver", DRIVER, libs=("kenlm_builder", "kenlm", "kenlm_util"))
    comp = []
    corpdir = os.path.join(ctx.scratch, "corpora")
    os.makedirs(corpdir, exist_ok=True)
    styles = ["zipf", "zipf", "zipf", "repeat", "oneword", "emptyish", "long"]
    for i in range(ctx.pick(60, 500)):
        style = rng.choice(styles)
        types = rng.choice([1, 2, 5, 30, 200])
        lines = gen_corpus(rng, rng.choice([0, 1, 2, rng.range(1, 30), rng.range(1, 200 if big else 80)]) if style != "long" else rng.range(1, 3),
                           types, rng.choice([3, 8, 25]), style)
        path = os.path.join(corpdir, "c%d.txt" % i)
        open(path, "w").write("".join(l + "\n" for l in lines))
        sents, vocab = ids_of(lines)
        order = rng.range(1, 6)
        es = 4 * order + 8
        for _j in range(rng.choice([1, 2, 3])):
            cap = rng.choice([1, 1, 2, 3, 4, 7, rng.range(1, 50), rng.range(1, 2000)])
            bc = rng.range(1, 3)
            mem = cap * es * bc + rng.below(es * bc)
            ve = rng.choice([1, 2, 3, 10, 1000])
            iline = "CC %x %x %x %x %s" % (order, bc, mem, ve, path)
            mline = "CC %x %x %s" % (order, cap, " ".join(" ".join(hx(w) for w in s) + " /" for s in sents).replace("  ", " "))
            comp.append((iline, mline, order, sents, len(vocab), cap))
    # vocabulary growth at component level: tens of thousands of types, the vocabulary estimate far too small, words recurring
    for i in range(ctx.pick(2, 6)):
        nt = rng.range(12000, ctx.pick(30000, 60000))
        lines = gen_vocab_corpus(rng, nt, rng.choice(["w", "y", "tk"]) + "klmnop"[i])
        path = os.path.join(corpdir, "v%d.txt" % i)
        open(path, "w").write("".join(l + "\n" for l in lines))
        sents, vocab = ids_of(lines)
        order = rng.choice([1, 1, 2])
        es = 4 * order + 8
        cap = rng.range(20, 300)
        iline = "CC %x %x %x %x %s" % (order, 2, cap * es * 2, rng.choice([1, 10, 500, 1000]), path)
        mline = "CC %x %x %s" % (order, cap, " ".join(" ".join(hx(w) for w in s_) + " /" for s_ in sents))
        comp.append((iline, mline, order, sents, len(vocab), cap))
    # hand-made boundary corpora (corpus/C07/*.txt): every order 1..4 x capacities 1, 2, 3, 5 -- run first in the oracle's order
    hand = []
    for path in sorted(glob.glob(os.path.join(vlib.ROOT, "corpus", "C07", "*.txt"))):
        lines = open(path).read().split("\n")
        if lines and lines[-1] == "":
            lines.pop()
        sents, vocab = ids_of(lines)
        for order in (1, 2, 3, 4):
            es = 4 * order + 8
            for cap in (1, 2, 3, 5):
                iline = "CC %x %x %x %x %s" % (order, 1, cap * es, 3, path)
                mline = ("CC %x %x %s" % (order, cap, " ".join(" ".join(hx(w) for w in s) + " /" for s in sents))).replace("  ", " ")
                hand.append((iline, mline, order, sents, len(vocab), cap))
    ctx.count("corpus_cases", len(hand))
    comp = hand + comp
    iout = vlib.run_lines(impl, [c[0] for c in comp], timeout=600, env=env)
    mismatches = []
    model_broken = None
    nontrivial = set()
    for (iline, mline, order, sents, ntypes, cap), o in zip(comp, iout):
        msg = oracle_component(order, sents, ntypes, o)
        if msg:
            spec_fail.append(("corpus_count:order%d" % order, {"driver_case": iline, "model_case": mline[:100000], "corpus": open(iline.split()[-1]).read()[:100000],
                                                                "impl_output": o[:3000]}, msg))
    try:
        model = vlib.ocaml_model("C07")
        stack = ["sh", "-c", 'ulimit -s unlimited 2>/dev/null || ulimit -s 4000000 2>/dev/null; exec "$0"']
        mout = vlib.run_lines(model, [c[1] for c in comp], timeout=600, prefix=stack)
        for (iline, mline, order, sents, ntypes, cap), a, b in zip(comp, iout, mout):
            body = a.partition("#")[2].strip()
            if body != b.strip():
                mismatches.append((iline, mline, a, b))
            if a.count("|") >= 2 and any(int(t.split(":")[1], 16) > 1 for t in body.replace("|", " ").split()):
                nontrivial.add(mline)
    except vlib.ModelBroken as e:
        model_broken = str(e)

    # ---- (a2) component: AdjustCounts with CollapseStream, same sorted input under different block splits -----------
    groups = gen_adjust(rng, ctx.pick(60, 500))
    alines = [c[0] for g in groups for c in g["cases"]]
    aout = vlib.run_lines(impl, alines, timeout=600, env=env)
    adjust_cases, k = 0, 0
    for g in groups:
        ref = None
        for (iline, mline, st) in g["cases"]:
            o = aout[k]; k += 1
            adjust_cases += 1
            rep = {"driver_case": iline[:200000], "model_case": mline[:200000], "impl_output": o[:3000], "split": st, "adjust": True,
                   "order": g["order"], "thr": g["thr"], "pw": g["pw"], "recs": [[list(gk), c] for gk, c in g["recs"]][:20000]}
            msg = oracle_adjust(g, o)
            if msg:
                spec_fail.append(("adjust_counts:collapse:order%d" % g["order"], rep, msg))
                continue
            # everything except the block structure of the highest order must not depend on the split
            parts = o.split(" # ")
            rest = parts[:g["order"] - 1] + parts[g["order"]:]
            if ref is None:
                ref = (rest, iline)
            elif rest != ref[0]:
                rep["reference_case"] = ref[1][:200000]
                spec_fail.append(("adjust_counts:block-split:order%d" % g["order"], rep,
                                  "lower-order adjusted counts / statistics / discounts differ between two block splits of the same highest-order stream"))
    amis = []
    try:
        model = vlib.ocaml_model("C07")
        stack = ["sh", "-c", 'ulimit -s unlimited 2>/dev/null || ulimit -s 4000000 2>/dev/null; exec "$0"']
        amout = vlib.run_lines(model, [c[1] for g in groups for c in g["cases"]], timeout=600, prefix=stack)
        k = 0
        for g in groups:
            for (iline, mline, st) in g["cases"]:
                a, b = aout[k], amout[k]; k += 1
                parts = a.split(" # ")
                top = parts[g["order"] - 1] if len(parts) >= g["order"] else ""
                top = top.split(" ", 1)[1] if " " in top else ""
                if [x.split() for x in top.split("|")] != [x.split() for x in b.split("|")]:
                    amis.append((iline, mline, a, b))
                if st != "single" and any(len(gk) > 1 and gk[1] == 1 for gk, _ in g["recs"]):
                    nontrivial.add(mline)
    except vlib.ModelBroken as e:
        model_broken = str(e)
    mismatches += [(il, ml, a, b) for il, ml, a, b in amis]

    # ---- (b) tool: lmplz over the configuration lattice ---------------------------------------------------------
    tool = vlib.tool("lmplz")
    lat = lattice(rng, big)
    tool_runs, accepted, rejected = 0, 0, 0
    lattice_report = []
    # (name, lines, order, modelling options).  The modelling options are part of what the output MAY depend on; every memory
    # configuration of the lattice is compared within one (corpus, order, modelling options).  Pruning matters here: with
    # --prune the highest-order stream is marked and collapsed block by block (adjust_counts.cc CollapseStream), and the
    # joins of the later stages go through hash tables instead of positions.
    corpora = []
    for i in range(ctx.pick(1, 6)):
        lines = gen_corpus(rng, ctx.pick(3000, 6000), rng.choice([150, 300, 600]), rng.choice([12, 20]), "zipf")
        order = rng.range(3, 5) if i == 0 else rng.range(2, 5)
        corpora.append(("zipf%d" % i, lines, order, [] if i % 2 == 0 else prune_options(rng, order)))
    for i in range(ctx.pick(2, 4)):
        order = rng.choice([3, 3, 4])
        lines = gen_repeat_corpus(rng, ctx.pick(1800, 3000), rng.choice([100, 200, 400]), rng.choice([12, 18]))
        corpora.append(("repeats%d" % i, lines, order, [] if i % 2 == 0 else prune_options(rng, order)))
    for i in range(ctx.pick(2, 4)):
        order = 3 if i == 0 else rng.choice([3, 4])
        lines = gen_catalogue_corpus(rng, ctx.pick(1500, 4000), rng.choice([150, 400]), ctx.pick(3000, 10000), 12)
        # the first one prunes the highest order only (the later stages then join through hash tables and tolerate what a
        # block-wise compaction loses or resurrects: the damage reaches the output instead of stopping the run)
        opts = ["--prune"] + ["0"] * (order - 1) + [str(rng.choice([1, 1, 2]))] if i == 0 else prune_options(rng, order)
        corpora.append(("catalogue%d" % i, lines, order, opts))
    # vocabulary growth: only --vocab_estimate (and -S) vary; the reference never grows its table
    for i in range(ctx.pick(2, 4)):
        nt = rng.range(ctx.pick(30000, 50000), ctx.pick(45000, 90000))
        lines = gen_vocab_corpus(rng, nt, rng.choice(["w", "x", "tok", "v_", "q"]) + "abcdefghij"[i])
        vl = [{"S": "40M", "vocab_estimate": 2 * nt + 1000}, {"S": "40M", "vocab_estimate": 10}, {"S": "40M", "vocab_estimate": 500},
              {"S": "40M", "vocab_estimate": 1000}, {"S": "40M", "vocab_estimate": nt // 2}, {"S": "40M", "vocab_estimate": rng.range(2, nt)},
              {"S": "3M", "vocab_estimate": rng.range(2, 3000), "sort_block": "64K", "minimum_block": "1K"}]
        corpora.append(("vocab%d" % i, lines, 2, [], vl))
    for i in range(ctx.pick(1, 3)):
        order = rng.choice([3, 3, 4])
        lines = gen_ids_corpus(rng, ctx.pick(2500, 5000), rng.choice([150, 400]), ctx.pick(500, 1500), 12)
        corpora.append(("ids%d" % i, lines, order, prune_options(rng, order)))
    corpora.append(("boundary-mixed", ["a", "", "a a a a a a a a a a", "b", "a b"] * 40 + gen_corpus(rng, 300, 40, 6, "emptyish"), 3,
                    ["--prune", "0", "0", "1"] if rng.chance(1, 2) else []))
    if big:
        corpora.append(("one-sentence", ["x y z"], 3, []))
        corpora.append(("repeat", gen_corpus(rng, 3000, 1, 1, "repeat"), 5, []))
        corpora.append(("long-lines", gen_corpus(rng, 40, 500, 1, "long"), 4, ["--prune", "0", "0", "1", "2"]))
        lines = gen_ids_corpus(rng, 4000, 300, 1000, 12)
        corpora.append(("ids-unpruned", lines, 3, []))
        # --limit_vocab_file: the other way n-grams get marked in CollapseStream (prune_words)
        vocab_file = os.path.join(corpdir, "limit_vocab.txt")
        open(vocab_file, "w").write(" ".join("w%d" % k for k in range(0, 300, 2)) + "\n")
        corpora.append(("zipf-limit-vocab", gen_corpus(rng, 4000, 300, 12, "zipf"), 3, ["--limit_vocab_file", vocab_file]))
        corpora.append(("ids-limit-vocab", gen_ids_corpus(rng, 3000, 300, 800, 12), 3, ["--limit_vocab_file", vocab_file, "--prune", "0", "0", "1"]))
    # a vocabulary big enough to take GrowableVocab's table across the malloc -> mmap transition (2 MiB: 131072 buckets of 12-16
    # bytes, i.e. ~90-120 thousand words) and through two more doublings, with estimates far below / just below / above that boundary
    for i in range(ctx.pick(1, 2)):
        nt = rng.range(245000, 330000)
        lines = gen_vocab_corpus(rng, nt, "t")
        vl = [{"S": "64M", "vocab_estimate": 2 * nt}, {"S": "64M", "vocab_estimate": 10}, {"S": "64M", "vocab_estimate": rng.range(60000, 108000)},
              {"S": "64M", "vocab_estimate": rng.range(110000, 230000)}]
        if big:
            vl += [{"S": "64M", "vocab_estimate": 1000}, {"S": "64M", "vocab_estimate": 87000}, {"S": "64M", "vocab_estimate": 118000},
                   {"S": "30M", "vocab_estimate": rng.range(2, 109000), "_nopunch": True}]
        corpora.append(("bigvocab%d" % i, lines, 2, [], vl))
    # output mode: every second corpus (and always the first catalogue / record-id corpus) without --intermediate
    for k, entry in enumerate(corpora):
        if k % 2 == 1 or entry[0] in ("catalogue0", "ids0", "ids-unpruned"):
            # ... and every second of those takes the model from standard output instead of --arpa FILE
            corpora[k] = entry[:3] + (list(entry[3]) + ["@stdout" if k % 4 in (1, 2) else "@arpa-only"],) + tuple(entry[4:])
    failed_runs, failed_msgs, nothing_accepted = 0, {}, []
    for entry in corpora:
        name, lines, order, extra = entry[:4]
        path = os.path.join(corpdir, "%s.txt" % name)
        open(path, "w").write("".join(l + "\n" for l in lines))
        ntypes = len({w for l in lines for w in l.split()})
        ref = None
        per_cfg = []
        cfgs = list(entry[4]) if len(entry) > 4 else list(lat)
        if len(entry) <= 4:
            # --minimum_block below, just below and exactly at one record of the highest order (lmplz raises it with a warning)
            rec = 4 * order + 8
            cfgs += [{"S": "300K", "vocab_estimate": 10, "sort_block": "2K", "minimum_block": mb, "block_count": bc}
                     for mb, bc in (("1b", 1), ("16b", 2), ("%db" % (rec - 1), 1), ("%db" % rec, 2))]
        # repeated runs of the same configuration: the OS schedules the worker threads differently each time; pinning every
        # thread to one CPU (taskset) and lowering the priority (nice) forces very different interleavings
        if len(entry) > 4:
            reps = [dict(cfgs[1], _prefix=["taskset", "-c", "0"])]
        else:
            reps = [cfgs[0], cfgs[6], cfgs[10]] * ctx.pick(1, 3)
            reps += [dict(cfgs[6], _prefix=["taskset", "-c", "0"]), dict(cfgs[10], _prefix=["taskset", "-c", "0"]),
                     dict(cfgs[0], _prefix=["nice", "-n", "19", "taskset", "-c", "0,1"])]
            # the same memory variation once more with a temporary directory that cannot punch holes: real external merging
            # (stripes longer than one merge buffer) in the low-memory settings, everything in RAM in the first
            reps += [dict(cfgs[k], _nopunch=True) for k in ctx.pick((0, 7, 10, 13, 14), (0, 3, 5, 7, 10, 11, 13, 14))]
        for j, cfg in enumerate(cfgs + reps):
            kind, res, cmdline = run_lmplz(ctx, tool, path, order, cfg, "%s-%d" % (name, j), extra)
            tool_runs += 1
            per_cfg.append((kind, cfg))
            if kind == "ok":
                accepted += 1
                n1 = res.pop("_ngram1", None)
                hdr, bdy = res.pop("_header", None), res.pop("_body", None)
                # the n-grams listed are the n-grams declared: a record that a block-wise compaction loses or resurrects shows here
                if hdr is not None and hdr != bdy:
                    spec_fail.append(("lmplz:header-body", {"corpus": "\n".join(lines)[:8000000], "order": order, "cmd": cmdline, "cfg": cfg, "extra": extra,
                                                             "header": hdr, "body": bdy},
                                      "the ARPA header declares %s n-grams per order, the sections list %s" % (hdr, bdy)))
                # hash-table growth never changes the data: the unigram section lists every distinct type once (+ <unk> <s> </s>)
                if n1 is not None and "--limit_vocab_file" not in extra and n1 != ntypes + 3:
                    spec_fail.append(("lmplz:unigram-count", {"corpus": "\n".join(lines)[:8000000], "order": order, "cmd": cmdline, "cfg": cfg, "extra": extra,
                                                               "expected_ngram1": ntypes + 3, "ngram1": n1},
                                      "the ARPA header declares %d unigrams, the corpus has %d distinct word types + <unk> <s> </s>" % (n1, ntypes)))
                if ref is None:
                    ref = (res, cmdline, cfg)
                elif res != ref[0]:
                    diff = sorted(k for k in set(res) | set(ref[0]) if res.get(k) != ref[0].get(k))
                    spec_fail.append(("lmplz:bytes-differ", {"corpus": "\n".join(lines)[:8000000], "order": order, "reference_cmd": ref[1], "differing_cmd": cmdline,
                                                             "reference_cfg": ref[2], "differing_cfg": cfg, "extra": extra, "files_that_differ": diff},
                                      "lmplz output differs between two accepted configurations: %s" % ", ".join(diff)))
            elif kind == "rejected":
                rejected += 1
            elif kind == "failed":
                failed_runs += 1
                failed_msgs.setdefault(res[:120], cmdline)
            else:
                spec_fail.append(("lmplz:" + kind, {"corpus": "\n".join(lines)[:8000000], "order": order, "cmd": cmdline, "cfg": cfg, "extra": extra, "stderr": res},
                                  "lmplz %s under an accepted-looking configuration: %s" % (kind, res[:200])))
        lattice_report.append({"corpus": name, "sentences": len(lines), "order": order, "options": " ".join(extra), "accepted": sum(1 for k, _ in per_cfg if k == "ok"),
                               "rejected": sum(1 for k, _ in per_cfg if k == "rejected")})
        if ref is None:
            # nothing succeeded for this (corpus, options): the property ("whenever lmplz succeeds") says nothing; shown in the evidence
            nothing_accepted.append(name)

    ctx.count("evaluations", len(comp) + adjust_cases + tool_runs)
    ctx.coverage["adjust_counts_cases"] = adjust_cases
    ctx.coverage["distinct_nontrivial"] = len(nontrivial) + accepted
    ctx.coverage["rule"] = ("component cases: corpus x order 1..5 x block capacity (1, 2, 3, 4, 7, up to 2000 records) x block count x vocabulary estimate; "
                            "non-trivial = at least 3 blocks and some n-gram deduplicated inside a block (distinct model case lines).  AdjustCounts cases: the sorted highest-order counts of a "
                            "small corpus (record-id corpora: long runs of `<s> <s> id`), order 2..5, pruning threshold 0..3 on the highest order, optional pruned words, fed in one block, "
                            "in blocks of one record, in blocks cut around/inside the `<s>` runs, in random blocks (with empty blocks); non-trivial = more than one block and some entry with "
                            "<s> in position 1.  Tool runs: every accepted lmplz run of "
                            "the lattice (-S 180K..20M, --sort_block 128b..64K, --minimum_block 40b..1K, --block_count 1..5, --vocab_estimate 1..200000, two temp "
                            "directories, repeated runs, taskset/nice) counts as one non-trivial evaluation; rejected configurations are counted separately and are not violations.  "
                            "Outputs are compared within one (corpus, order, modelling options); modelling options include --prune with non-zero thresholds on the highest "
                            "(and next) order and, in the thorough tier, --limit_vocab_file; corpora include record-id corpora (every line of a record starts with a unique id: "
                            "long runs of adjacent `<s> <s> id` entries in the highest order) so that block boundaries of the low-memory configurations fall inside those runs.")
    ctx.coverage["component_cases"] = len(comp)
    ctx.coverage["lmplz_runs"] = tool_runs
    ctx.coverage["lmplz_accepted"] = accepted
    ctx.coverage["lmplz_rejected"] = rejected
    ctx.coverage["corpora_without_any_successful_run"] = nothing_accepted
    ctx.coverage["lmplz_failed_with_other_exception"] = failed_runs
    ctx.coverage["lmplz_failure_messages"] = [{"message": m, "cmd": c[:400]} for m, c in list(failed_msgs.items())[:5]]
    ctx.coverage["lattice"] = lattice_report
    tr = ctx.counts.pop("_truncs", [])
    ctx.coverage["ftruncate_calls_per_run_min_max"] = [min(tr), max(tr)] if tr else None
    ctx.coverage["runs_with_extra_merge_passes"] = sum(1 for t in tr if tr and t >= min(tr) + 8)
    ctx.coverage["traces_validated_against_impl"] = len(comp) + adjust_cases - len(mismatches)
    for c, o in list(zip(comp, iout))[:3]:
        ctx.sample({"driver_case": c[0], "impl": o[:300]})
    ctx.assumptions += ["scheduling is varied by repeated runs under the OS scheduler, by pinning all threads to one CPU (taskset) and by nice; there is no controlled pre-emption inside lmplz",
                        "vocabulary ids of the model are first-occurrence numbers computed by the harness (GrowableVocab's numbering is checked by the oracle through the type count and the records)",
                        "extraction (ExtrOcamlBasic only), OCaml/C++ drivers and the Python oracle are trusted"]
    seen_sigs = []
    for sig, rep, msg in spec_fail:            # one report per signature, at most 6 signatures (component and tool level both get a say)
        if sig not in seen_sigs and len(seen_sigs) < 6:
            seen_sigs.append(sig)
            ctx.report("spec:" + sig, msg, rep)
    if not spec_fail:
        if mismatches:
            il, ml, a, b = mismatches[0]
            which = "collapse_stream" if il.startswith("AC") else "corpus_count"
            ctx.report("correspondence:" + which, "per-block records of %s differ from the model (the specification oracle accepts the implementation's blocks)" % ("CollapseStream" if which == "collapse_stream" else "CorpusCount / Writer::Append"),
                       {"correspondence": "C07 extracted model vs c07_driver", "driver_case": il, "model_case": ml[:100000], "impl": a[:3000], "model": b[:3000],
                        "n_mismatches": len(mismatches)}, found=False)
        elif model_broken:
            ctx.report("model-broken", "executable model no longer builds", {"log": model_broken[-2000:]}, found=False)
        ctx.report_proof(pres)
    ctx.coverage["spec_oracle_failures"] = len(spec_fail)
    ctx.coverage["correspondence_mismatches"] = len(mismatches)


def replay(ctx, obj):
    r = obj["replay"]
    if "differing_cfg" in r or "cfg" in r:
        tool = vlib.tool("lmplz")
        path = os.path.join(ctx.scratch, "replay.txt")
        open(path, "w").write(r["corpus"] + "\n")
        results = []
        for key in ("reference_cfg", "differing_cfg", "cfg"):
            if key in r:
                kind, res, cmdline = run_lmplz(ctx, tool, path, r["order"], r[key], "replay-" + key, r.get("extra", []))
                print(key + ":", "lmplz", cmdline, "->", kind, res if kind != "ok" else "")
                results.append((kind, res))
        if "expected_ngram1" in r:
            for k, res in results:
                if k == "ok" and res.get("_ngram1") != r["expected_ngram1"]:
                    print("oracle: ARPA header declares %s unigrams, expected %s" % (res.get("_ngram1"), r["expected_ngram1"]))
                    return 1
        if any(k in ("crash", "hang") for k, _ in results):
            print("oracle: lmplz crashed / hung under a configuration it accepted")
            return 1
        for k, res in results:
            if k == "ok" and res.get("_header") != res.get("_body"):
                print("oracle: ARPA header", res.get("_header"), "but the sections list", res.get("_body"))
                return 1
        oks = [{f: v for f, v in res.items() if not f.startswith("_")} for k, res in results if k == "ok"]
        if len(oks) == 2 and oks[0] != oks[1]:
            print("oracle: outputs differ:", sorted(k for k in set(oks[0]) | set(oks[1]) if oks[0].get(k) != oks[1].get(k)))
            return 1
        print("oracle: ok")
        return 0
    impl = vlib.compile_driver("c07_driver", DRIVER, libs=("kenlm_builder", "kenlm", "kenlm_util"))
    if r.get("adjust"):
        o = vlib.run_lines(impl, [r["driver_case"]], env={"VERIF_TMP": os.path.join(ctx.scratch, "tmp-")})[0]
        g = {"order": r["order"], "thr": r["thr"], "pw": r["pw"], "recs": [(tuple(k), c) for k, c in r["recs"]]}
        msg = oracle_adjust(g, o)
        if not msg and "reference_case" in r:
            o2 = vlib.run_lines(impl, [r["reference_case"]], env={"VERIF_TMP": os.path.join(ctx.scratch, "tmp-")})[0]
            strip = lambda x: [p for i, p in enumerate(x.split(" # ")) if i != r["order"] - 1]
            if strip(o) != strip(o2):
                msg = "lower-order output / statistics differ between the two block splits"
        print("case:", r["driver_case"][:500], "\nimpl:", o[:500], "\noracle:", msg or "ok")
        return 1 if msg else 0
    path = os.path.join(ctx.scratch, "replay.txt")
    open(path, "w").write(r["corpus"])
    f = r["driver_case"].split()
    line = " ".join(f[:-1] + [path])
    o = vlib.run_lines(impl, [line], env={"VERIF_TMP": os.path.join(ctx.scratch, "tmp-")})[0]
    lines = r["corpus"].split("\n")
    if lines and lines[-1] == "":
        lines.pop()
    sents, vocab = ids_of(lines)
    msg = oracle_component(int(f[1], 16), sents, len(vocab), o)
    print("case:", line, "\nimpl:", o[:500], "\noracle:", msg or "ok")
    return 1 if msg else 0
