"""C07 -- lmplz output is independent of memory budget, block sizes and scheduling (DESIGN.md section 4, C07).

 (a) component: the real lm::builder::CorpusCount on a chain with a chosen block size, per-block records compared with
     the extracted model of Writer::Append (coq/C07/CountModel.v); specification oracle: per-n-gram totals over all
     blocks equal the true counts, whatever the block capacity; every block duplicate-free and within capacity;
     word ids in first-occurrence order whatever the initial vocabulary estimate.
 (b) tool: `lmplz` --arpa and --intermediate outputs byte-identical across a lattice of
     (-S, --sort_block, --minimum_block, --block_count, --vocab_estimate, -T) from "a few hundred KB, many spills,
     multi-pass merges" to "all in RAM", and across repeated runs (OS scheduling of the worker threads varies)."""
import glob
import hashlib
import os
import shutil

import vlib

DRIVER = os.path.join(vlib.ROOT, "harness", "drivers", "c07_driver.cc")


def hx(x):
    return "%x" % x


# ---------------------------------------------------------------------------------------------
# corpora
def zipf_word(rng, types):
    # few hundred types, Zipf-like: rank r with weight 1/(r+1)
    x = rng.below(1 << 20) / float(1 << 20)
    r = int(types ** x) - 1
    return "w%d" % max(0, min(types - 1, r))


def gen_corpus(rng, sentences, types, maxlen, style="zipf"):
    lines = []
    for i in range(sentences):
        if style == "repeat":
            lines.append("a b c d e")
        elif style == "oneword":
            lines.append("x")
        elif style == "long":
            lines.append(" ".join(zipf_word(rng, types) for _ in range(rng.range(200, 600))))
        elif style == "emptyish" and rng.chance(1, 3):
            lines.append("")
        else:
            ln = rng.choice([1, 2, 3, rng.range(1, maxlen)])
            lines.append(" ".join(zipf_word(rng, types) for _ in range(ln)))
    return lines


def ids_of(lines):
    """GrowableVocab: <unk>=0 <s>=1 </s>=2, then first-occurrence order"""
    vocab = {}
    sents = []
    for l in lines:
        s = []
        for w in l.split():
            if w not in vocab:
                vocab[w] = 3 + len(vocab)
            s.append(vocab[w])
        sents.append(s)
    return sents, vocab


def true_counts(order, sents):
    """the n-grams of the padded corpus, from the definition"""
    counts = {}
    for s in sents:
        ctx = [1] * (order - 1)
        for w in s + [2]:
            g = tuple(ctx + [w])
            counts[g] = counts.get(g, 0) + 1
            ctx = list(g[1:])
    return counts


def parse_blocks(body):
    blocks = []
    for b in body.split("|"):
        recs = []
        for t in b.split():
            k, c = t.split(":")
            recs.append((tuple(int(w, 16) for w in k.split(".")), int(c, 16)))
        blocks.append(recs)
    return blocks


def oracle_component(order, sents, ntypes, o):
    if "#" not in o or o.startswith("EXCEPTION") or o.startswith("DIED"):
        return "CorpusCount did not deliver: %s" % o[:200]
    head, _, body = o.partition("#")
    h = dict(x.split("=") for x in head.split())
    cap = int(h["cap"], 16)
    if "RAGGED" in body:
        return "a block's valid size is not a multiple of the record size"
    blocks = parse_blocks(body)
    tot = {}
    for i, b in enumerate(blocks):
        if len(b) > cap:
            return "block %d holds %d records, capacity %d" % (i, len(b), cap)
        if len({k for k, _ in b}) != len(b):
            return "block %d holds the same n-gram twice (dedupe table)" % i
        for k, c in b:
            tot[k] = tot.get(k, 0) + c
    exp = true_counts(order, sents)
    if order == 1:
        exp.setdefault((0,), 0)
        exp.setdefault((1,), 0)
    # n-grams whose total is 0 (the two special unigrams of order 1) carry no count: their presence is not C07's business
    tot = {k: v for k, v in tot.items() if v}
    exp = {k: v for k, v in exp.items() if v}
    if tot != exp:
        for k in sorted(set(tot) | set(exp)):
            if tot.get(k) != exp.get(k):
                return "total count of n-gram %s over all blocks is %s, true count %s (capacity %d)" % (k, tot.get(k), exp.get(k), cap)
    if int(h["tokens"], 16) != sum(len(s) for s in sents):
        return "token count %s, corpus has %d tokens" % (h["tokens"], sum(len(s) for s in sents))
    if int(h["types"], 16) != ntypes + 3:
        return "type count %s, corpus has %d types + 3 specials" % (h["types"], ntypes)
    return None


# ---------------------------------------------------------------------------------------------
# lmplz lattice
REJECT_MARKERS = ("Not enough memory to fit", "is below the minimum block size", "Vocab hash size estimate", "Chain configured with",
                  "is too small for four buffers", "Sort buffer too small", "Sorting entries of size 0", "Try rerunning with a more conservative",
                  "Cannot allocate memory", "std::bad_alloc", "bad_alloc")
CRASH_MARKERS = ("Bug in sort implementation", "Chain ending without poison", "Last input should have been poison")


def run_lmplz(ctx, tool, corpus, order, cfg, tag, extra=()):
    """-> (kind, digest dict or message)"""
    wd = os.path.join(ctx.scratch, "run-" + tag)
    shutil.rmtree(wd, ignore_errors=True)
    os.makedirs(os.path.join(wd, cfg.get("T", "t")), exist_ok=True)
    cmd = ["timeout", "120", tool, "-o", str(order), "--text", corpus, "--arpa", os.path.join(wd, "out.arpa"),
           "--intermediate", os.path.join(wd, "int"), "--discount_fallback",
           "-S", cfg["S"], "--vocab_estimate", str(cfg["vocab_estimate"]), "-T", os.path.join(wd, cfg.get("T", "t")) + "/"]
    for k in ("sort_block", "minimum_block", "block_count"):
        if k in cfg:
            cmd += ["--" + k, str(cfg[k])]
    cmd += list(extra)
    # strace only counts ftruncate calls: Sort::Merge truncates the consumed data file and resets the offsets log once
    # per merge pass, so the count is a measured indicator of how many merge passes the run performed
    stlog = os.path.join(wd, "strace.log")
    rc, out, err = vlib.sh(list(cfg.get("_prefix", [])) + ["strace", "-f", "-qq", "-e", "trace=ftruncate", "-o", stlog] + cmd, timeout=150)
    truncs = 0
    if os.path.exists(stlog):
        truncs = sum(1 for l in open(stlog, errors="replace") if "ftruncate(" in l)
    res = None
    if rc == 0:
        ctx.counts.setdefault("_truncs", []).append(truncs)
        dig = {}
        for f in sorted(glob.glob(os.path.join(wd, "out.arpa")) + glob.glob(os.path.join(wd, "int*"))):
            if os.path.isfile(f):
                dig[os.path.basename(f)] = hashlib.sha256(open(f, "rb").read()).hexdigest() + ":%d" % os.path.getsize(f)
        res = ("ok", dig)
    elif any(m in err for m in CRASH_MARKERS):
        res = ("crash", "rc=%d %s" % (rc, err[-400:]))
    elif rc == 124 or rc == 137:
        res = ("hang", "timeout")
    elif any(m in err for m in REJECT_MARKERS):
        res = ("rejected", err.strip().split("\n")[-1][-200:])
    elif rc in (134, -6) and err.strip():
        # an exception caught by Pipeline (printed, then abort()): a configuration the tool does not accept
        res = ("rejected", err.strip().split("\n")[-1][-200:])
    else:
        res = ("crash", "rc=%d %s" % (rc, err[-400:]))
    shutil.rmtree(wd, ignore_errors=True)
    return res[0], res[1], " ".join(list(cfg.get("_prefix", [])) + cmd[2:])


def lattice(rng, big):
    base = [
        {"S": "20M", "vocab_estimate": 1000},                                                                  # all in RAM
        {"S": "20M", "vocab_estimate": 1000, "T": "other-temp-dir"},
        {"S": "20M", "vocab_estimate": 200000, "block_count": 3},
        {"S": "4M", "vocab_estimate": 100, "sort_block": "64K", "minimum_block": "1K"},
        {"S": "1M", "vocab_estimate": 50, "sort_block": "16K", "minimum_block": "512b", "block_count": 1},
        {"S": "600K", "vocab_estimate": 10, "sort_block": "4K", "minimum_block": "128b", "block_count": 2},
        {"S": "300K", "vocab_estimate": 5, "sort_block": "2K", "minimum_block": "64b", "block_count": 1},      # dozens of spills, multi-pass merges
        {"S": "250K", "vocab_estimate": 3, "sort_block": "1024b", "minimum_block": "64b", "block_count": 1},
        {"S": "200K", "vocab_estimate": 3, "sort_block": "512b", "minimum_block": "64b", "block_count": 1},
        {"S": "180K", "vocab_estimate": 1, "sort_block": "256b", "minimum_block": "40b", "block_count": 4},
        # sort_block = S/4: merge arity 2..3, so Sort::Merge needs several real passes before the lazy merge
        {"S": "150K", "vocab_estimate": 10, "sort_block": "37K", "minimum_block": "64b", "block_count": 1},
        {"S": "200K", "vocab_estimate": 10, "sort_block": "50K", "minimum_block": "64b", "block_count": 2},
        {"S": "400K", "vocab_estimate": 10, "sort_block": "64K", "minimum_block": "1K", "block_count": 3},
        # tiny settings: accepted or legitimately rejected (a rejected run is not a violation)
        {"S": "40K", "vocab_estimate": 1, "sort_block": "1K", "minimum_block": "64b", "block_count": 1},
        {"S": "6K", "vocab_estimate": 1, "sort_block": "512b", "minimum_block": "64b", "block_count": 1},
        {"S": "1M", "vocab_estimate": 1000000, "sort_block": "1K", "minimum_block": "64b", "block_count": 1},
    ]
    extra = []
    for _ in range(12 if big else 2):
        s = rng.choice([150, 200, 260, 333, 500, 777, 1500, 5000])
        sb = rng.choice([128, 200, 256, 500, 1000, 4096, 30000])
        extra.append({"S": "%dK" % s, "vocab_estimate": rng.choice([1, 2, 7, 100, 5000]), "sort_block": "%db" % sb,
                      "minimum_block": "%db" % rng.choice([40, 64, 100, sb]), "block_count": rng.range(1, 5)})
    return base + extra


# ---------------------------------------------------------------------------------------------
def run(ctx):
    pres = vlib.coq_prove("C07")
    ctx.set_proof(pres)
    rng = ctx.rng
    big = not ctx.quick
    env = {"VERIF_TMP": os.path.join(ctx.scratch, "tmp-")}
    spec_fail = []

    # ---- (a) component: CorpusCount vs model -------------------------------------------------------------------
    impl = vlib.compile_driver("c07_driver", DRIVER, libs=("kenlm_builder", "kenlm", "kenlm_util"))
    comp = []
    corpdir = os.path.join(ctx.scratch, "corpora")
    os.makedirs(corpdir, exist_ok=True)
    styles = ["zipf", "zipf", "zipf", "repeat", "oneword", "emptyish", "long"]
    for i in range(ctx.pick(60, 500)):
        style = rng.choice(styles)
        types = rng.choice([1, 2, 5, 30, 200])
        lines = gen_corpus(rng, rng.choice([0, 1, 2, rng.range(1, 30), rng.range(1, 200 if big else 80)]) if style != "long" else rng.range(1, 3),
                           types, rng.choice([3, 8, 25]), style)
        path = os.path.join(corpdir, "c%d.txt" % i)
        open(path, "w").write("".join(l + "\n" for l in lines))
        sents, vocab = ids_of(lines)
        order = rng.range(1, 6)
        es = 4 * order + 8
        for _j in range(rng.choice([1, 2, 3])):
            cap = rng.choice([1, 1, 2, 3, 4, 7, rng.range(1, 50), rng.range(1, 2000)])
            bc = rng.range(1, 3)
            mem = cap * es * bc + rng.below(es * bc)
            ve = rng.choice([1, 2, 3, 10, 1000])
            iline = "CC %x %x %x %x %s" % (order, bc, mem, ve, path)
            mline = "CC %x %x %s" % (order, cap, " ".join(" ".join(hx(w) for w in s) + " /" for s in sents).replace("  ", " "))
            comp.append((iline, mline, order, sents, len(vocab), cap))
    # hand-made boundary corpora (corpus/C07/*.txt): every order 1..4 x capacities 1, 2, 3, 5 -- run first in the oracle's order
    hand = []
    for path in sorted(glob.glob(os.path.join(vlib.ROOT, "corpus", "C07", "*.txt"))):
        lines = open(path).read().split("\n")
        if lines and lines[-1] == "":
            lines.pop()
        sents, vocab = ids_of(lines)
        for order in (1, 2, 3, 4):
            es = 4 * order + 8
            for cap in (1, 2, 3, 5):
                iline = "CC %x %x %x %x %s" % (order, 1, cap * es, 3, path)
                mline = ("CC %x %x %s" % (order, cap, " ".join(" ".join(hx(w) for w in s) + " /" for s in sents))).replace("  ", " ")
                hand.append((iline, mline, order, sents, len(vocab), cap))
    ctx.count("corpus_cases", len(hand))
    comp = hand + comp
    iout = vlib.run_lines(impl, [c[0] for c in comp], timeout=600, env=env)
    mismatches = []
    model_broken = None
    nontrivial = set()
    for (iline, mline, order, sents, ntypes, cap), o in zip(comp, iout):
        msg = oracle_component(order, sents, ntypes, o)
        if msg:
            spec_fail.append(("corpus_count:order%d" % order, {"driver_case": iline, "model_case": mline[:100000], "corpus": open(iline.split()[-1]).read()[:100000],
                                                                "impl_output": o[:3000]}, msg))
    try:
        model = vlib.ocaml_model("C07")
        stack = ["sh", "-c", 'ulimit -s unlimited 2>/dev/null || ulimit -s 4000000 2>/dev/null; exec "$0"']
        mout = vlib.run_lines(model, [c[1] for c in comp], timeout=600, prefix=stack)
        for (iline, mline, order, sents, ntypes, cap), a, b in zip(comp, iout, mout):
            body = a.partition("#")[2].strip()
            if body != b.strip():
                mismatches.append((iline, mline, a, b))
            if a.count("|") >= 2 and any(int(t.split(":")[1], 16) > 1 for t in body.replace("|", " ").split()):
                nontrivial.add(mline)
    except vlib.ModelBroken as e:
        model_broken = str(e)

    # ---- (b) tool: lmplz over the configuration lattice ---------------------------------------------------------
    tool = vlib.tool("lmplz")
    lat = lattice(rng, big)
    tool_runs, accepted, rejected = 0, 0, 0
    lattice_report = []
    corpora = []
    for i in range(ctx.pick(2, 6)):
        lines = gen_corpus(rng, ctx.pick(3000, 6000), rng.choice([150, 300, 600]), rng.choice([12, 20]), "zipf")
        corpora.append(("zipf%d" % i, lines, rng.range(3, 5) if i == 0 else rng.range(2, 5)))
    corpora.append(("boundary-mixed", ["a", "", "a a a a a a a a a a", "b", "a b"] * 40 + gen_corpus(rng, 300, 40, 6, "emptyish"), 3))
    if big:
        corpora.append(("one-sentence", ["x y z"], 3))
        corpora.append(("repeat", gen_corpus(rng, 3000, 1, 1, "repeat"), 5))
        corpora.append(("long-lines", gen_corpus(rng, 40, 500, 1, "long"), 4))
    for name, lines, order in corpora:
        path = os.path.join(corpdir, "%s.txt" % name)
        open(path, "w").write("".join(l + "\n" for l in lines))
        ref = None
        per_cfg = []
        cfgs = list(lat)
        # repeated runs of the same configuration: the OS schedules the worker threads differently each time; pinning every
        # thread to one CPU (taskset) and lowering the priority (nice) forces very different interleavings
        reps = [cfgs[0], cfgs[6], cfgs[10]] * ctx.pick(1, 3)
        reps += [dict(cfgs[6], _prefix=["taskset", "-c", "0"]), dict(cfgs[10], _prefix=["taskset", "-c", "0"]),
                 dict(cfgs[0], _prefix=["nice", "-n", "19", "taskset", "-c", "0,1"])]
        for j, cfg in enumerate(cfgs + reps):
            kind, res, cmdline = run_lmplz(ctx, tool, path, order, cfg, "%s-%d" % (name, j))
            tool_runs += 1
            per_cfg.append((kind, cfg))
            if kind == "ok":
                accepted += 1
                if ref is None:
                    ref = (res, cmdline, cfg)
                elif res != ref[0]:
                    diff = sorted(k for k in set(res) | set(ref[0]) if res.get(k) != ref[0].get(k))
                    spec_fail.append(("lmplz:bytes-differ", {"corpus": "\n".join(lines)[:400000], "order": order, "reference_cmd": ref[1], "differing_cmd": cmdline,
                                                             "reference_cfg": ref[2], "differing_cfg": cfg, "files_that_differ": diff},
                                      "lmplz output differs between two accepted configurations: %s" % ", ".join(diff)))
            elif kind == "rejected":
                rejected += 1
            else:
                spec_fail.append(("lmplz:" + kind, {"corpus": "\n".join(lines)[:400000], "order": order, "cmd": cmdline, "cfg": cfg, "stderr": res},
                                  "lmplz %s under an accepted-looking configuration: %s" % (kind, res[:200])))
        lattice_report.append({"corpus": name, "sentences": len(lines), "order": order, "accepted": sum(1 for k, _ in per_cfg if k == "ok"),
                               "rejected": sum(1 for k, _ in per_cfg if k == "rejected")})
        if ref is None:
            spec_fail.append(("lmplz:nothing-accepted", {"corpus": name}, "no configuration of the lattice was accepted"))

    ctx.count("evaluations", len(comp) + tool_runs)
    ctx.coverage["distinct_nontrivial"] = len(nontrivial) + accepted
    ctx.coverage["rule"] = ("component cases: corpus x order 1..5 x block capacity (1, 2, 3, 4, 7, up to 2000 records) x block count x vocabulary estimate; "
                            "non-trivial = at least 3 blocks and some n-gram deduplicated inside a block (distinct model case lines).  Tool runs: every accepted lmplz run of "
                            "the lattice (-S 180K..20M, --sort_block 128b..64K, --minimum_block 40b..1K, --block_count 1..5, --vocab_estimate 1..200000, two temp "
                            "directories, repeated runs) counts as one non-trivial evaluation; rejected configurations are counted separately and are not violations.")
    ctx.coverage["component_cases"] = len(comp)
    ctx.coverage["lmplz_runs"] = tool_runs
    ctx.coverage["lmplz_accepted"] = accepted
    ctx.coverage["lmplz_rejected"] = rejected
    ctx.coverage["lattice"] = lattice_report
    tr = ctx.counts.pop("_truncs", [])
    ctx.coverage["ftruncate_calls_per_run_min_max"] = [min(tr), max(tr)] if tr else None
    ctx.coverage["runs_with_extra_merge_passes"] = sum(1 for t in tr if tr and t >= min(tr) + 8)
    ctx.coverage["traces_validated_against_impl"] = len(comp) - len(mismatches)
    for c, o in list(zip(comp, iout))[:3]:
        ctx.sample({"driver_case": c[0], "impl": o[:300]})
    ctx.assumptions += ["scheduling is varied by repeated runs under the OS scheduler, by pinning all threads to one CPU (taskset) and by nice; there is no controlled pre-emption inside lmplz",
                        "vocabulary ids of the model are first-occurrence numbers computed by the harness (GrowableVocab's numbering is checked by the oracle through the type count and the records)",
                        "extraction (ExtrOcamlBasic only), OCaml/C++ drivers and the Python oracle are trusted"]
    for sig, rep, msg in spec_fail[:5]:
        ctx.report("spec:" + sig, msg, rep)
    if not spec_fail:
        if mismatches:
            il, ml, a, b = mismatches[0]
            ctx.report("correspondence:corpus_count", "per-block records of CorpusCount differ from the model of Writer::Append (the specification oracle accepts the implementation's blocks)",
                       {"correspondence": "C07 extracted model vs c07_driver", "driver_case": il, "model_case": ml[:100000], "impl": a[:3000], "model": b[:3000],
                        "n_mismatches": len(mismatches)}, found=False)
        elif model_broken:
            ctx.report("model-broken", "executable model no longer builds", {"log": model_broken[-2000:]}, found=False)
        ctx.report_proof(pres)
    ctx.coverage["spec_oracle_failures"] = len(spec_fail)
    ctx.coverage["correspondence_mismatches"] = len(mismatches)


def replay(ctx, obj):
    r = obj["replay"]
    if "differing_cfg" in r or "cfg" in r:
        tool = vlib.tool("lmplz")
        path = os.path.join(ctx.scratch, "replay.txt")
        open(path, "w").write(r["corpus"] + "\n")
        results = []
        for key in ("reference_cfg", "differing_cfg", "cfg"):
            if key in r:
                kind, res, cmdline = run_lmplz(ctx, tool, path, r["order"], r[key], "replay-" + key)
                print(key + ":", "lmplz", cmdline, "->", kind, res if kind != "ok" else "")
                results.append((kind, res))
        if any(k in ("crash", "hang") for k, _ in results):
            print("oracle: lmplz crashed / hung under a configuration it accepted")
            return 1
        oks = [res for k, res in results if k == "ok"]
        if len(oks) == 2 and oks[0] != oks[1]:
            print("oracle: outputs differ:", sorted(k for k in set(oks[0]) | set(oks[1]) if oks[0].get(k) != oks[1].get(k)))
            return 1
        print("oracle: ok")
        return 0
    impl = vlib.compile_driver("c07_driver", DRIVER, libs=("kenlm_builder", "kenlm", "kenlm_util"))
    path = os.path.join(ctx.scratch, "replay.txt")
    open(path, "w").write(r["corpus"])
    f = r["driver_case"].split()
    line = " ".join(f[:-1] + [path])
    o = vlib.run_lines(impl, [line], env={"VERIF_TMP": os.path.join(ctx.scratch, "tmp-")})[0]
    lines = r["corpus"].split("\n")
    if lines and lines[-1] == "":
        lines.pop()
    sents, vocab = ids_of(lines)
    msg = oracle_component(int(f[1], 16), sents, len(vocab), o)
    print("case:", line, "\nimpl:", o[:500], "\noracle:", msg or "ok")
    return 1 if msg else 0
