"""C04 -- binary model files round-trip exactly."""
import hashlib
import os
import shutil

import vlib
import lmcommon as lc

DRV = os.path.join(vlib.ROOT, "harness", "drivers", "lmq.cc")
MODEL_TYPE_NO = {"probing": 0, "rest": 1, "trie": 2, "qtrie": 3, "atrie": 4, "qatrie": 5}


def head_fields(head):
    d = {}
    for tok in head.split()[1:]:
        k, _, v = tok.partition("=")
        d[k] = v
    return d


def vocab_ids_check(ctx, stats, lmq, exe, sess, m, typ, kd, par, ids, oov, vfile, base, problems):
    """the implementation's WordIndex of every vocabulary word and of unknown neighbours against the vocabulary model
    (coq/C04/VocabModel.v: SortedVocabulary = 1 + rank of the MurmurHash64A hash, ProbingVocabulary = insertion position, unknown = 0),
    and the same ids from the model built directly from the ARPA text."""
    key = (typ, tuple(m.vocab))
    seen = getattr(ctx, "vocab_ids_seen", set())
    if key in seen:
        return
    seen.add(key)
    ctx.vocab_ids_seen = seen
    hx = lambda w: w.hex() if w else "-"
    inserted = [m.spell(k[0]) for k in m.file_order.get(1, [])]
    inserted = [w for w in inserted if w not in (b"<unk>", b"<UNK>")]
    queries = [b"<unk>"] + m.vocab[1:] + oov
    vb = 0
    if kd in ("P", "R"):
        import struct
        c0 = len(m.file_order.get(1, []))
        mult = float(par)
        vb = max(c0 + 1, int(lc.f32(lc.f32(mult) * lc.f32(float(c0)))))
    mo = vlib.run_lines(exe, ["VIDS %s %d %s ; %s" % ("P" if kd in ("P", "R") else "S", vb, " ".join(hx(w) for w in inserted), " ".join(hx(w) for w in queries))])
    stats["vocab_id_checks"] = stats.get("vocab_id_checks", 0) + 1
    stats["vocab_ids_compared"] = stats.get("vocab_ids_compared", 0) + len(queries)
    rq = dict(base, type=typ, stream="vocab-ids")
    if oov and any(ids[len(m.vocab) + i] != 0 for i in range(len(oov))):
        i = next(i for i in range(len(oov)) if ids[len(m.vocab) + i] != 0)
        problems.append(("spec:unknown-word-id:" + typ, "the spelling %r is not in the model but the loaded binary gives it the id %d" % (oov[i], ids[len(m.vocab) + i]), dict(rq, word=oov[i].hex())))
        return
    # the model built from the ARPA text must hand out the same ids as the binary file loaded back
    rc, out, err = vlib.sh([lmq, sess.arpa, typ, vfile, "tmp=" + sess.dir + "/"], input=b"IDS\n", timeout=120)
    stats["impl_runs"] += 1
    res = out.split("\n")
    if res[0].startswith("loaded") and len(res) >= 2:
        aids = [int(x, 16) for x in res[1].split()]
        if aids != ids:
            i = next((i for i in range(min(len(aids), len(ids))) if aids[i] != ids[i]), 0)
            problems.append(("spec:ids-differ:" + typ, "word %r has id %d in the ARPA-built model and %d in the binary loaded back" % (queries[i], aids[i], ids[i]), dict(rq, word=queries[i].hex())))
            return
    if not mo or not mo[0].startswith("ids "):
        return
    mids = [int(x, 16) for x in mo[0].split()[1:]]
    if mids != ids:
        i = next((i for i in range(min(len(mids), len(ids))) if mids[i] != ids[i]), 0)
        what = "word %r: id %d in the implementation, %d in the vocabulary model" % (queries[i], ids[i], mids[i] if i < len(mids) else -1)
        ctx.file_image_breaks = getattr(ctx, "file_image_breaks", []) + [("correspondence:vocab-ids:" + typ, what, dict(rq, word=queries[i].hex()))]


def file_image_check(ctx, stats, lmq, exe, sess, m, typ, extra, iv, binf, base, problems):
    """the WHOLE binary file against the extracted file model (coq/C04/FileImage.v: header, vocabulary with the modelled
    MurmurHash64A, search structure of coq/C03/TrieImage.v / ProbingImage.v, vocabulary strings) -- byte for byte.  Only the
    unquantised trie / array trie / probing / rest-probing types with a valid (non-mangled) vocabulary are laid out."""
    if typ not in ("trie", "atrie", "probing", "rest") or len(m.grams) > 700 or getattr(m, "raw_arpa", None) is not None:
        return
    kd = {"trie": "T", "atrie": "A", "probing": "P", "rest": "R"}[typ]
    par = 0
    for o in extra:
        if o.startswith("bhiksha="):
            par = int(o.split("=")[1])
        if o.startswith("mult="):
            par = o.split("=")[1]
    if kd == "A" and not any(o.startswith("bhiksha=") for o in extra):
        par = 22                     # Config's default pointer_bhiksha_bits (lm/config.cc)
    if kd in ("P", "R") and not any(o.startswith("mult=") for o in extra):
        par = "1.5"
    # the vocabulary file plus spellings the model does not know (neighbours of the known ones): their ids must be 0
    oov = []
    known = set(m.vocab) | {b"<unk>", b"<UNK>"}
    for w in m.vocab[1:8]:
        for c in (w + b"x", w[:-1], w.swapcase(), b"x" + w):
            if c and c not in known and b"\n" not in c and not any(ch in c for ch in b" \t\r\0"):
                known.add(c)
                oov.append(c)
    vfile = sess.vocab
    if oov and getattr(m, "raw_vocab", None) is None:
        vfile = os.path.join(sess.dir, "vocab_oov.txt")
        open(vfile, "wb").write(m.vocab_bytes() + b"\n".join(oov) + b"\n")
    cmd = [lmq, binf, typ, vfile]
    rc, out, err = vlib.sh(cmd, input=b"IDS\n", timeout=120)
    res = out.split("\n")
    stats["impl_runs"] += 1
    if not res[0].startswith("loaded") or len(res) < 2:
        return
    ids = [int(x, 16) for x in res[1].split()]
    if len(ids) == len(m.vocab) + len(oov):
        vocab_ids_check(ctx, stats, lmq, exe, sess, m, typ, kd, par, ids, oov, vfile, base, problems)
    ids = ids[:len(m.vocab)]
    if len(ids) < len(m.vocab) or len(set(ids[1:])) != len(ids) - 1:
        return                       # two spellings with one id (<unk> variants): not a vocabulary the file model describes
    ls = lc.mapped_session_lines(m, ids, mult=float(par) if kd in ("P", "R") else 1.5)
    ls.append(lc.file_image_line(m, kd, par, iv))
    mo = vlib.run_lines(exe, ls)
    img = mo[-1]
    if not img.startswith("file "):
        return
    mb = bytes.fromhex(img[5:])
    fb = open(binf, "rb").read()
    stats["file_images"] = stats.get("file_images", 0) + 1
    stats["file_image_bytes"] = stats.get("file_image_bytes", 0) + len(mb)
    if fb == mb:
        return
    first = next((i for i in range(max(len(mb), len(fb))) if i >= len(fb) or i >= len(mb) or fb[i] != mb[i]), 0)
    what = ("the %s binary file differs from the file model at byte %d (file %d bytes: %s..., model %d bytes: %s...)"
            % (typ, first, len(fb), fb[first:first + 16].hex(), len(mb), mb[first:first + 16].hex()))
    # behavioural difference?  every n-gram of the model on the written file against the model's own answers
    qs = lc.ngram_queries(m)
    mk = kd if kd in ("P", "R") else "T"
    ls2 = ls[:-1] + ["S %s %d %s" % (mk, b, " ".join("%x" % ids[w] for w in ws)) for b, ws in qs]
    mo2 = vlib.run_lines(exe, ls2)[len(ls) - 1:]
    r2 = sess.run_impl(lmq, typ, qs, model_file=binf)
    stats["impl_runs"] += 1
    bad = None
    if not r2["head"].startswith("loaded") or len(r2["lines"]) != len(qs):
        bad = ("the written file does not load / answer: %s" % r2["head"][:100], None)
    else:
        for (b, ws), il, ml in zip(qs, r2["lines"], mo2):
            try:
                pi, pm = lc.parse_line(il, True), lc.parse_line(ml, False)
            except Exception:
                continue
            if [(x["fs"], x["ff"]) for x in pi] != [(x["fs"], x["ff"]) for x in pm]:
                bad = ("scores of the written file differ from the model on an n-gram of the model", (b, ws))
                break
    rq = dict(base, type=typ, include_vocab=iv, opts=extra, stream="file-image")
    if bad:
        problems.append(("spec:file-image:" + typ, what + "; " + bad[0], dict(rq, query=bad[1])))
    else:
        ctx.file_image_breaks = getattr(ctx, "file_image_breaks", []) + [("correspondence:file-image:" + typ, what, rq)]


def size_stream(ctx, stats, lmq, exe, problems):
    """Size()/SetupMemory agreement: TrieSearch<DontQuantize, DontBhiksha|ArrayBhiksha>::Size and SortedVocabulary::Size of the real
    code against the size model of coq/C04/TrieSize.v (proved equal to the bytes the file model lays out: C04_trie_image_size) on
    random count vectors -- orders 2..6, counts from 0 to 2^38 with small, power-of-two and flip-point values, every
    pointer_bhiksha_bits the uint8 can hold."""
    rng = ctx.rng
    n = 150 if ctx.quick else 1500
    def count():
        k = rng.below(6)
        if k == 0: return rng.below(4)
        if k == 1: return rng.below(300)
        if k == 2: return (1 << rng.range(1, 38)) + rng.range(-2, 2)
        if k == 3: return rng.below(1 << 20)
        if k == 4: return 64 * rng.range(1, 40) + rng.range(-1, 1)
        return rng.below(1 << 38)
    ls = []
    for i in range(n):
        order = rng.range(2, 6)
        counts = [max(1, count())] + [max(0, count()) for _ in range(order - 1)]
        bits = rng.choice([0, 1, 2, 3, 5, 8, 16, 22, 31, 32, 57, 63, 64, 100, 255]) if rng.chance(1, 2) else rng.below(256)
        ls.append("TSZ %d %d %s" % (rng.below(2), bits, ",".join(str(c) for c in counts)))
    rc, out, err = vlib.sh([lmq, "--sizes"], input=("\n".join(ls) + "\n").encode(), timeout=120)
    io = out.split("\n")
    mo = vlib.run_lines(exe, ls)
    stats["impl_runs"] += 1
    stats["size_cases"] = len(ls)
    for c, a, b in zip(ls, io, mo):
        if a != b:
            ctx.file_image_breaks = getattr(ctx, "file_image_breaks", []) + [("correspondence:trie-size", "%s: Size() of the implementation %s, of the size model %s" % (c, a, b), {"case": c, "stream": "sizes"})]
            break


def big_file_stream(ctx, stats, lmq, problems):
    """files whose search structure exceeds 2 MiB (the aligned huge-page allocation path of util/mmap.cc, sizes that are not page
    multiples): a dense model written by both methods, with and without the strings, two probing multipliers and the trie, loaded back
    by two load methods; same oracles as the main stream (answers, order/bound, enumeration, byte-identical write methods)"""
    rng = ctx.rng
    dm = lc.gen_dense_model(rng)
    sess = lc.Session(ctx, dm, "bigfile")
    qs = lc.gen_queries(rng, dm, ctx.pick(40, 300))
    base = {"arpa": "<lmcommon.gen_dense_model, VERIF_SEED %s>" % ctx.seed, "generator": "lmcommon.gen_dense_model", "queries": qs[:10]}
    stats["big_files"] = 0
    stats["big_file_max_bytes"] = 0
    for typ, extra in (("probing", ["mult=3"]), ("probing", ["mult=%s" % rng.choice(["1.7", "2", "2.2", "2.6"])]), ("trie", []), ("atrie", ["bhiksha=%d" % rng.choice([3, 22, 64])])):
        ref = sess.run_impl(lmq, typ, qs, opts=extra + ["enumerate=1"], timeout=600)
        stats["impl_runs"] += 1
        if not ref["head"].startswith("loaded") or len(ref["lines"]) != len(qs):
            continue
        rh = head_fields(ref["head"])
        digests = {}
        for wm in ("after", "mmap"):
            for iv in ("1", "0"):
                binf = os.path.join(sess.dir, "big.%s.%s.%s.bin" % (typ, wm, iv))
                b = sess.run_impl(lmq, typ, qs, opts=extra + ["write_mmap=" + binf, "write_method=" + wm, "include_vocab=" + iv, "enumerate=1"], timeout=600)
                stats["impl_runs"] += 1
                rq = dict(base, type=typ, write_method=wm, include_vocab=iv, opts=extra, stream="big-file")
                if not b["head"].startswith("loaded"):
                    problems.append(("spec:build-fails:" + typ, "building the (large) binary file fails although the ARPA loads: " + b["head"], rq))
                    continue
                stats["big_files"] += 1
                stats["big_file_max_bytes"] = max(stats["big_file_max_bytes"], os.path.getsize(binf))
                digests[(wm, iv)] = hashlib.sha256(open(binf, "rb").read()).hexdigest()
                for lmeth in (["lazy", "read"] if ctx.quick else ["lazy", "populate", "populate_read", "read"]):
                    o = ["load_method=" + lmeth] + (["enumerate=1"] if iv == "1" else [])
                    r = sess.run_impl(lmq, typ, qs, model_file=binf, opts=o, timeout=600)
                    stats["impl_runs"] += 1
                    rq2 = dict(rq, load_method=lmeth)
                    if not r["head"].startswith("loaded"):
                        problems.append(("spec:reload-fails:" + typ, "the (large) binary file does not load: %s %s" % (r["head"], r["err"][-200:]), rq2))
                        continue
                    h = head_fields(r["head"])
                    if r["lines"] != ref["lines"]:
                        problems.append(("spec:answers-differ:" + typ, "the (large) binary model answers differently from the ARPA-built model", rq2))
                    if h.get("order") != rh.get("order") or h.get("bound") != rh.get("bound"):
                        problems.append(("spec:order-bound:" + typ, "order/bound differ after the round trip of the large file", rq2))
                    if iv == "1" and h.get("enum") != rh.get("enum"):
                        problems.append(("spec:enumerate:" + typ, "vocabulary enumeration differs after the round trip of the large file", rq2))
                os.remove(binf)
        for iv in ("1", "0"):
            if ("after", iv) in digests and ("mmap", iv) in digests and digests[("after", iv)] != digests[("mmap", iv)]:
                problems.append(("spec:write-method-bytes:" + typ, "write_method mmap and after produce different (large) files", dict(base, type=typ, include_vocab=iv, stream="big-file")))
    shutil.rmtree(sess.dir, ignore_errors=True)


def run(ctx):
    pres = vlib.coq_prove("C04")
    ctx.set_proof(pres)
    lmq = vlib.compile_driver("lmq", DRV)
    exe = vlib.ocaml_model("C01")
    rng = ctx.rng
    stats = {"impl_runs": 0, "binaries": 0, "scores": 0, "load_variants": 0}
    problems = []
    nmodels = 1 if ctx.replay_model else ctx.pick(12, 400)
    nontrivial = 0
    for mi in range(nmodels):
        m = ctx.replay_model or lc.gen_model(rng, max_order=ctx.pick(4, 6), max_vocab=ctx.pick(8, 30))
        if not ctx.replay_model and mi % 6 == 4 and m.saw_unk and m.unk_spelling == b"<unk>" and b"<UNK>" not in m.vocab:
            # a file that lists BOTH spellings of the unknown word ("Sadly some LMs have <UNK>", lm/vocab.cc): both map to id 0, the later
            # line wins, the header counts both, the sorted vocabulary stores neither (sixth-round seeded change C04-17 refused such a binary)
            lines = m.arpa_bytes().split(b"\n")
            cr = b"\r" if m.crlf else b""
            out = []
            for l in lines:
                if l.rstrip(b"\r").startswith(b"ngram 1="):
                    l = b"ngram 1=%d" % (int(l.rstrip(b"\r").split(b"=")[1]) + 1) + cr
                out.append(l)
                if l.rstrip(b"\r") == b"\\1-grams:":
                    out.append(b"-1.5\t<UNK>\t-0.25" + cr)
            m.raw_arpa = b"\n".join(out)
            stats["both_unk_spellings"] = stats.get("both_unk_spellings", 0) + 1
        sess = lc.Session(ctx, m, "m%d" % mi)
        qs = lc.gen_queries(rng, m, ctx.pick(25, 100))
        base = {"arpa": m.arpa_bytes().decode("latin-1"), "vocab": m.vocab_bytes().decode("latin-1"), "queries": qs[:40]}
        for typ in lc.TYPES:
            extra = []
            if typ in ("probing", "rest") and rng.chance(1, 2):
                extra.append("mult=%s" % rng.choice(["1.01", "1.1", "1.3", "2", "3", "7.5"]))
            if typ in ("atrie", "qatrie") and rng.chance(1, 2):
                # the stored value is the configured maximum (build_binary's own help suggests 255), not the number of bits in use
                extra.append("bhiksha=%d" % rng.choice([0, 1, 3, 22, 57, 58, 64, 255]))
            if typ in ("qtrie", "qatrie") and rng.chance(1, 2):
                extra += ["probbits=%d" % rng.range(3, 12), "backoffbits=%d" % rng.range(3, 12)]
            ref = sess.run_impl(lmq, typ, qs, opts=extra + ["enumerate=1"])
            stats["impl_runs"] += 1
            if not ref["head"].startswith("loaded") or len(ref["lines"]) != len(qs):
                stats["not_accepted"] = stats.get("not_accepted", 0) + 1
                continue
            rh = head_fields(ref["head"])
            stats["scores"] += sum(len(s) for _, s in qs)
            variants = [(wm, iv) for wm in ("mmap", "after") for iv in ("1", "0")]
            if ctx.quick:
                variants = [variants[rng.below(4)], variants[rng.below(4)]]
            digests = {}
            for wm, iv in variants:
                for rep in (0, 1):
                    binf = os.path.join(sess.dir, "%s.%s.%s.%d.bin" % (typ, wm, iv, rep))
                    b = sess.run_impl(lmq, typ, qs, opts=extra + ["write_mmap=" + binf, "write_method=" + wm, "include_vocab=" + iv, "enumerate=1"])
                    stats["impl_runs"] += 1
                    rq = dict(base, type=typ, write_method=wm, include_vocab=iv, opts=extra)
                    if not b["head"].startswith("loaded"):
                        problems.append(("spec:build-fails:" + typ, "building the binary file fails although the ARPA loads: " + b["head"], rq))
                        break
                    # the model object that wrote the file answers like the plain ARPA model
                    if b["lines"] != ref["lines"]:
                        problems.append(("spec:writer-differs:" + typ, "the model constructed while writing the binary answers differently from the ARPA-built model", rq))
                    dg = hashlib.sha256(open(binf, "rb").read()).hexdigest()
                    if (wm, iv) in digests and digests[(wm, iv)] != dg:
                        problems.append(("spec:not-deterministic:" + typ, "building the same input twice gives different files", rq))
                    digests[(wm, iv)] = dg
                    if rep == 1:
                        os.remove(binf)
                        continue
                    stats["binaries"] += 1
                    file_image_check(ctx, stats, lmq, exe, sess, m, typ, extra, iv, binf, base, problems)
                    methods = ["lazy", "populate", "populate_read", "read"]
                    if ctx.quick:
                        methods = [methods[rng.below(4)], methods[rng.below(4)]]
                    for lmeth in methods:
                        for enum in (["enumerate=1"] if iv == "1" else []) + [None]:
                            o = ["load_method=" + lmeth] + ([enum] if enum else [])
                            r = sess.run_impl(lmq, typ, qs, model_file=binf, opts=o)
                            stats["impl_runs"] += 1
                            stats["load_variants"] += 1
                            rq2 = dict(rq, load_method=lmeth, enumerate=bool(enum))
                            if not r["head"].startswith("loaded"):
                                problems.append(("spec:reload-fails:" + typ, "the binary file does not load: %s %s" % (r["head"], r["err"][-200:]), rq2))
                                continue
                            h = head_fields(r["head"])
                            if r["lines"] != ref["lines"]:
                                i = next((i for i in range(min(len(r["lines"]), len(ref["lines"]))) if r["lines"][i] != ref["lines"][i]), -1)
                                problems.append(("spec:answers-differ:" + typ, "binary model answers differ from the ARPA-built model (first differing query %d)" % i, rq2))
                            if h.get("order") != rh.get("order") or h.get("bound") != rh.get("bound"):
                                problems.append(("spec:order-bound:" + typ, "order/bound %s/%s vs %s/%s" % (h.get("order"), h.get("bound"), rh.get("order"), rh.get("bound")), rq2))
                            if h.get("binary") != str(MODEL_TYPE_NO[typ]):
                                problems.append(("spec:recognize:" + typ, "file written by %s recognised as type %s" % (typ, h.get("binary")), rq2))
                            if enum and h.get("enum") != rh.get("enum"):
                                problems.append(("spec:enumerate:" + typ, "vocabulary enumeration differs after the round trip", rq2))
                    # the type-erased loader (lm::ngram::LoadVirtual: the Python module's and every type-agnostic program's entry point) must
                    # hand the caller's Config on: same enumeration, order, bound and answers as the typed class (sixth-round seeded change C04-18)
                    vo = ["load_method=" + rng.choice(["lazy", "populate", "populate_read", "read"])] + (["enumerate=1"] if iv == "1" else [])
                    rv = sess.run_impl(lmq, "virtual", qs, model_file=binf, opts=vo)
                    stats["impl_runs"] += 1
                    stats["virtual_loads"] = stats.get("virtual_loads", 0) + 1
                    rqv = dict(rq, loader="LoadVirtual", opts_virtual=vo)
                    if not rv["head"].startswith("loaded"):
                        problems.append(("spec:virtual-reload-fails:" + typ, "LoadVirtual does not load the binary file: %s" % rv["head"][:160], rqv))
                    else:
                        hv = head_fields(rv["head"])
                        if hv.get("order") != rh.get("order"):
                            problems.append(("spec:virtual-order:" + typ, "LoadVirtual order %s vs %s" % (hv.get("order"), rh.get("order")), rqv))
                        if iv == "1" and hv.get("enum") != rh.get("enum"):
                            problems.append(("spec:virtual-enumerate:" + typ, "vocabulary enumeration through LoadVirtual differs from the ARPA-built model's (%d vs %d characters)" % (len(hv.get("enum") or ""), len(rh.get("enum") or "")), rqv))
                        want = [[" ".join(item.split(" ; ")[0].split()[:3]) for item in l.split(" | ")] if l.strip() else [] for l in ref["lines"]]
                        got = [[x.strip() for x in l.split(" | ")] if l.strip() else [] for l in rv["lines"]]
                        if got != want:
                            i = next((i for i in range(min(len(got), len(want))) if got[i] != want[i]), -1)
                            problems.append(("spec:virtual-answers-differ:" + typ, "answers through LoadVirtual differ from the ARPA-built model (first differing query %d)" % i, rqv))
                        # a file without vocabulary must refuse enumerate_vocab
                    if iv == "0":
                        r = sess.run_impl(lmq, typ, qs[:1], model_file=binf, opts=["enumerate=1"])
                        stats["impl_runs"] += 1
                        if r["head"].startswith("loaded"):
                            problems.append(("spec:enumerate-without-vocab:" + typ, "binary without vocabulary strings loads although enumerate_vocab was requested", rq))
                    # another type must not load it
                    other = rng.choice([t for t in lc.TYPES if t != typ])
                    r = sess.run_impl(lmq, other, qs[:1], model_file=binf)
                    stats["impl_runs"] += 1
                    if r["head"].startswith("loaded"):
                        problems.append(("spec:wrong-type-loads:" + typ, "binary of type %s loads as %s" % (typ, other), rq))
                    os.remove(binf)
                # both write methods give the same bytes
            if len({d for d in digests.values()}) > 2:
                problems.append(("spec:write-method-bytes:" + typ, "more than two distinct files for one input (expected: with and without vocabulary)", dict(base, type=typ)))
            ks = {}
            for (wm, iv), d in digests.items():
                if iv in ks and ks[iv] != d:
                    problems.append(("spec:write-method-bytes:" + typ, "write_method mmap and after produce different files", dict(base, type=typ, include_vocab=iv)))
                ks[iv] = d
        nontrivial += 1 if (m.order >= 3) else 0
        if mi < 2:
            ctx.sample({"order": m.order, "vocab": len(m.vocab), "ngrams": len(m.grams), "saw_unk": m.saw_unk, "suffix_closed": m.suffix_closed()})
        shutil.rmtree(sess.dir, ignore_errors=True)
        if len(problems) > 15:
            break
    if not ctx.replay_model:
        big_file_stream(ctx, stats, lmq, problems)
        size_stream(ctx, stats, lmq, exe, problems)
    ctx.count("evaluations", stats["impl_runs"])
    ctx.coverage["models"] = nmodels
    ctx.coverage["distinct_nontrivial"] = nontrivial
    ctx.coverage["rule"] = ("random models as in C01 (incl. no-<unk>, pruned) x 6 types x write_method {mmap, after} x include_vocab {on, off} x built twice x load_method "
                            "{LAZY, POPULATE_OR_LAZY, POPULATE_OR_READ, READ} x enumerate_vocab {set, null}: transcripts of the C01 query script must be bit-identical to the ARPA-built "
                            "model, order/bound/enumeration equal, RecognizeBinary = writer's type, other types refuse the file, two builds byte-identical, both write "
                            "methods byte-identical; evaluations = implementation runs; non-trivial = distinct model of order >= 3")
    ctx.coverage.update(stats)
    ctx.assumptions += ["mmap/read system calls trusted", "as C01"]
    for sig, what, rq in problems:
        ctx.report(sig, what, rq, True)
    if not problems:
        for sig, what, rq in getattr(ctx, "file_image_breaks", [])[:5]:
            ctx.report(sig, what, rq, False)
        ctx.report_proof(pres)


def replay(ctx, obj):
    import sys
    return lc.lm_replay(sys.modules[__name__], ctx, obj)
