"""C04 -- binary model files round-trip exactly."""
import hashlib
import os
import shutil

import vlib
import lmcommon as lc

DRV = os.path.join(vlib.ROOT, "harness", "drivers", "lmq.cc")
MODEL_TYPE_NO = {"probing": 0, "rest": 1, "trie": 2, "qtrie": 3, "atrie": 4, "qatrie": 5}


def head_fields(head):
    d = {}
    for tok in head.split()[1:]:
        k, _, v = tok.partition("=")
        d[k] = v
    return d


def run(ctx):
    pres = vlib.coq_prove("C04")
    ctx.set_proof(pres)
    lmq = vlib.compile_driver("lmq", DRV)
    rng = ctx.rng
    stats = {"impl_runs": 0, "binaries": 0, "scores": 0, "load_variants": 0}
    problems = []
    nmodels = 1 if ctx.replay_model else ctx.pick(12, 400)
    nontrivial = 0
    for mi in range(nmodels):
        m = ctx.replay_model or lc.gen_model(rng, max_order=ctx.pick(4, 6), max_vocab=ctx.pick(8, 30))
        sess = lc.Session(ctx, m, "m%d" % mi)
        qs = lc.gen_queries(rng, m, ctx.pick(25, 100))
        base = {"arpa": m.arpa_bytes().decode("latin-1"), "vocab": m.vocab_bytes().decode("latin-1"), "queries": qs[:40]}
        for typ in lc.TYPES:
            extra = []
            if typ in ("probing", "rest") and rng.chance(1, 2):
                extra.append("mult=%s" % rng.choice(["1.01", "1.1", "1.3", "2", "3", "7.5"]))
            if typ in ("atrie", "qatrie") and rng.chance(1, 2):
                # the stored value is the configured maximum (build_binary's own help suggests 255), not the number of bits in use
                extra.append("bhiksha=%d" % rng.choice([0, 1, 3, 22, 57, 58, 64, 255]))
            if typ in ("qtrie", "qatrie") and rng.chance(1, 2):
                extra += ["probbits=%d" % rng.range(3, 12), "backoffbits=%d" % rng.range(3, 12)]
            ref = sess.run_impl(lmq, typ, qs, opts=extra + ["enumerate=1"])
            stats["impl_runs"] += 1
            if not ref["head"].startswith("loaded") or len(ref["lines"]) != len(qs):
                stats["not_accepted"] = stats.get("not_accepted", 0) + 1
                continue
            rh = head_fields(ref["head"])
            stats["scores"] += sum(len(s) for _, s in qs)
            variants = [(wm, iv) for wm in ("mmap", "after") for iv in ("1", "0")]
            if ctx.quick:
                variants = [variants[rng.below(4)], variants[rng.below(4)]]
            digests = {}
            for wm, iv in variants:
                for rep in (0, 1):
                    binf = os.path.join(sess.dir, "%s.%s.%s.%d.bin" % (typ, wm, iv, rep))
                    b = sess.run_impl(lmq, typ, qs, opts=extra + ["write_mmap=" + binf, "write_method=" + wm, "include_vocab=" + iv, "enumerate=1"])
                    stats["impl_runs"] += 1
                    rq = dict(base, type=typ, write_method=wm, include_vocab=iv, opts=extra)
                    if not b["head"].startswith("loaded"):
                        problems.append(("spec:build-fails:" + typ, "building the binary file fails although the ARPA loads: " + b["head"], rq))
                        break
                    # the model object that wrote the file answers like the plain ARPA model
                    if b["lines"] != ref["lines"]:
                        problems.append(("spec:writer-differs:" + typ, "the model constructed while writing the binary answers differently from the ARPA-built model", rq))
                    dg = hashlib.sha256(open(binf, "rb").read()).hexdigest()
                    if (wm, iv) in digests and digests[(wm, iv)] != dg:
                        problems.append(("spec:not-deterministic:" + typ, "building the same input twice gives different files", rq))
                    digests[(wm, iv)] = dg
                    if rep == 1:
                        os.remove(binf)
                        continue
                    stats["binaries"] += 1
                    methods = ["lazy", "populate", "populate_read", "read"]
                    if ctx.quick:
                        methods = [methods[rng.below(4)], methods[rng.below(4)]]
                    for lmeth in methods:
                        for enum in (["enumerate=1"] if iv == "1" else []) + [None]:
                            o = ["load_method=" + lmeth] + ([enum] if enum else [])
                            r = sess.run_impl(lmq, typ, qs, model_file=binf, opts=o)
                            stats["impl_runs"] += 1
                            stats["load_variants"] += 1
                            rq2 = dict(rq, load_method=lmeth, enumerate=bool(enum))
                            if not r["head"].startswith("loaded"):
                                problems.append(("spec:reload-fails:" + typ, "the binary file does not load: %s %s" % (r["head"], r["err"][-200:]), rq2))
                                continue
                            h = head_fields(r["head"])
                            if r["lines"] != ref["lines"]:
                                i = next((i for i in range(min(len(r["lines"]), len(ref["lines"]))) if r["lines"][i] != ref["lines"][i]), -1)
                                problems.append(("spec:answers-differ:" + typ, "binary model answers differ from the ARPA-built model (first differing query %d)" % i, rq2))
                            if h.get("order") != rh.get("order") or h.get("bound") != rh.get("bound"):
                                problems.append(("spec:order-bound:" + typ, "order/bound %s/%s vs %s/%s" % (h.get("order"), h.get("bound"), rh.get("order"), rh.get("bound")), rq2))
                            if h.get("binary") != str(MODEL_TYPE_NO[typ]):
                                problems.append(("spec:recognize:" + typ, "file written by %s recognised as type %s" % (typ, h.get("binary")), rq2))
                            if enum and h.get("enum") != rh.get("enum"):
                                problems.append(("spec:enumerate:" + typ, "vocabulary enumeration differs after the round trip", rq2))
                        # a file without vocabulary must refuse enumerate_vocab
                    if iv == "0":
                        r = sess.run_impl(lmq, typ, qs[:1], model_file=binf, opts=["enumerate=1"])
                        stats["impl_runs"] += 1
                        if r["head"].startswith("loaded"):
                            problems.append(("spec:enumerate-without-vocab:" + typ, "binary without vocabulary strings loads although enumerate_vocab was requested", rq))
                    # another type must not load it
                    other = rng.choice([t for t in lc.TYPES if t != typ])
                    r = sess.run_impl(lmq, other, qs[:1], model_file=binf)
                    stats["impl_runs"] += 1
                    if r["head"].startswith("loaded"):
                        problems.append(("spec:wrong-type-loads:" + typ, "binary of type %s loads as %s" % (typ, other), rq))
                    os.remove(binf)
                # both write methods give the same bytes
            if len({d for d in digests.values()}) > 2:
                problems.append(("spec:write-method-bytes:" + typ, "more than two distinct files for one input (expected: with and without vocabulary)", dict(base, type=typ)))
            ks = {}
            for (wm, iv), d in digests.items():
                if iv in ks and ks[iv] != d:
                    problems.append(("spec:write-method-bytes:" + typ, "write_method mmap and after produce different files", dict(base, type=typ, include_vocab=iv)))
                ks[iv] = d
        nontrivial += 1 if (m.order >= 3) else 0
        if mi < 2:
            ctx.sample({"order": m.order, "vocab": len(m.vocab), "ngrams": len(m.grams), "saw_unk": m.saw_unk, "suffix_closed": m.suffix_closed()})
        shutil.rmtree(sess.dir, ignore_errors=True)
        if len(problems) > 15:
            break
    ctx.count("evaluations", stats["impl_runs"])
    ctx.coverage["models"] = nmodels
    ctx.coverage["distinct_nontrivial"] = nontrivial
    ctx.coverage["rule"] = ("random models as in C01 (incl. no-<unk>, pruned) x 6 types x write_method {mmap, after} x include_vocab {on, off} x built twice x load_method "
                            "{LAZY, POPULATE_OR_LAZY, POPULATE_OR_READ, READ} x enumerate_vocab {set, null}: transcripts of the C01 query script must be bit-identical to the ARPA-built "
                            "model, order/bound/enumeration equal, RecognizeBinary = writer's type, other types refuse the file, two builds byte-identical, both write "
                            "methods byte-identical; evaluations = implementation runs; non-trivial = distinct model of order >= 3")
    ctx.coverage.update(stats)
    ctx.assumptions += ["mmap/read system calls trusted", "as C01"]
    for sig, what, rq in problems:
        ctx.report(sig, what, rq, True)
    if not problems:
        ctx.report_proof(pres)


def replay(ctx, obj):
    import sys
    return lc.lm_replay(sys.modules[__name__], ctx, obj)
