"""C19 -- number formatting is bounded by the reserved bytes, exact, and round-trips through the parser
(DESIGN.md section 4, C19).

Proof part (level "proof"): the layout function of DoubleToStringConverter::ToShortest as a function of the digit
generator's output, its maximal length as a closed form for all signs / digit strings / exponents, instantiated with the
converter parameters and the reserved sizes regenerated from the sources (coq/Gen/FloatToStringC19.v); decimal printing of
integers: length bounds and print-then-parse round trip through the input layer's strtol/strtoul grammar (the C18 model's
parse_long / parse_ulong).  Tie: the extracted layout / printing functions against util::ToString on boundary classes and
random values (floats: the digits come from the real DoubleToAscii).
Exploration part (decided by execution, NOT proved): the float round trip ToString -> FilePiece::ReadFloat, bit-identical,
over stratified (quick) or all 2^32 (thorough) float bit patterns, doubles by boundary classes x random mantissas."""
import ctypes
import os
import re
import struct
from fractions import Fraction

import vlib

DRIVER_SRC = os.path.join(vlib.ROOT, "harness", "drivers", "c19_driver.cc")
CONSTS_SRC = os.path.join(vlib.ROOT, "harness", "drivers", "c19_consts.cc")
THREADS = min(16, vlib.NPROC)


# ---------------------------------------------------------------------------------------------
# translator for the two size expressions of FileStream's constructor (util/file_stream.hh): what is malloc'ed and how far
# end_ is put from the start.  Tiny C++ expression subset -> Gallina over Z; anything else is reported, never skipped.
class Unsupported(Exception):
    pass


def _balanced(text, start):
    depth, i = 0, start
    while i < len(text):
        if text[i] == "(":
            depth += 1
        elif text[i] == ")":
            depth -= 1
            if depth == 0:
                return text[start + 1:i]
        i += 1
    raise Unsupported("unbalanced parentheses")


_TOK = re.compile(r"\s*(?:(\d+)[uUlL]*|([A-Za-z_][A-Za-z_0-9]*(?:::[A-Za-z_][A-Za-z_0-9]*)*)|(.))")
_IDENT = {"buffer_size": "buffer_size", "kToStringMaxBytes": "c19_ktostring_max_bytes", "util::kToStringMaxBytes": "c19_ktostring_max_bytes"}


def cxx_size_expr_to_gallina(src):
    toks = []
    pos = 0
    while pos < len(src):
        m = _TOK.match(src, pos)
        if not m or m.end() == pos:
            break
        pos = m.end()
        toks.append(("num", m.group(1)) if m.group(1) else ("id", m.group(2)) if m.group(2) else ("op", m.group(3)))
    toks = [x for x in toks if x[1] and x[1].strip()]
    i = [0]

    def peek():
        return toks[i[0]] if i[0] < len(toks) else ("end", "")

    def eat(v=None):
        tk = peek()
        if v is not None and tk[1] != v:
            raise Unsupported("expected %r, found %r in %r" % (v, tk[1], src))
        i[0] += 1
        return tk

    def skip_template():
        if peek()[1] == "<":
            depth = 0
            while True:
                tk = eat()
                if tk[1] == "<":
                    depth += 1
                elif tk[1] == ">":
                    depth -= 1
                    if depth == 0:
                        return
                elif tk[0] == "end":
                    raise Unsupported("unterminated template argument list")

    def atom():
        tk = eat()
        if tk[0] == "num":
            return tk[1]
        if tk[1] == "(":
            e = expr()
            eat(")")
            return "(%s)" % e
        if tk[0] == "id":
            if tk[1] in ("std::max", "std::min"):
                skip_template()
                eat("(")
                a = expr()
                eat(",")
                b = expr()
                eat(")")
                return "(Z.%s %s %s)" % (tk[1][5:], a, b)
            if tk[1] == "static_cast":
                skip_template()
                eat("(")
                e = expr()
                eat(")")
                return e
            if tk[1] in _IDENT:
                return _IDENT[tk[1]]
        raise Unsupported("cannot translate %r in %r" % (tk[1], src))

    def term():
        e = atom()
        while peek()[1] == "*":
            eat()
            e = "(%s * %s)" % (e, atom())
        return e

    def expr():
        e = term()
        while peek()[1] in ("+", "-"):
            op = eat()[1]
            e = "(%s %s %s)" % (e, op, term())
        return e

    e = expr()
    if peek()[0] != "end":
        raise Unsupported("trailing %r in %r" % (peek()[1], src))
    return e


def regenerate_file_stream(observed):
    """coq/Gen/FileStreamC19.v from util/file_stream.hh; returns None or a description of why the tie is broken"""
    src = open(os.path.join(vlib.REPO, "util", "file_stream.hh")).read()
    problem = None
    try:
        m = re.search(r"explicit\s+FileStream\s*\(\s*int\s+\w+\s*=\s*-1\s*,\s*std::size_t\s+buffer_size[^)]*\)\s*:", src)
        if not m:
            raise Unsupported("constructor FileStream(int, std::size_t buffer_size) not found")
        init = src[m.end():src.index("{", m.end())]
        a = init.find("MallocOrThrow")
        if a < 0:
            raise Unsupported("no MallocOrThrow(...) in the constructor's initialiser list")
        alloc = cxx_size_expr_to_gallina(_balanced(init, init.index("(", a)))
        e = re.search(r"end_\s*\(", init)
        if not e:
            raise Unsupported("no end_(...) initialiser")
        endx = _balanced(init, e.end() - 1).strip()
        if not endx.startswith("current_"):
            raise Unsupported("end_ is not current_ + <size>: %r" % endx)
        rest = endx[len("current_"):].strip()
        if not rest.startswith("+"):
            raise Unsupported("end_ is not current_ + <size>: %r" % endx)
        cap = cxx_size_expr_to_gallina(rest[1:])
    except (Unsupported, ValueError) as ex:
        problem = "util/file_stream.hh: %s" % ex
        alloc, cap = "0", "buffer_size"          # makes the reservation theorem fail: the tie is reported as broken
    body = ("(* GENERATED on every run by harness/py/props/c19.py (regenerate_file_stream) from the initialiser list of\n"
            "   util::FileStream::FileStream(int, std::size_t buffer_size) in util/file_stream.hh: the size handed to MallocOrThrow\n"
            "   and the distance from current_ to end_.  Do not edit. *)\n"
            "From Coq Require Import ZArith.\nFrom Kenlm Require Import Gen.FloatToStringC19.\nLocal Open Scope Z_scope.\n"
            "Definition c19_fs_alloc (buffer_size : Z) : Z := %s.\nDefinition c19_fs_capacity (buffer_size : Z) : Z := %s.\n" % (alloc, cap))
    vlib.write_if_changed(os.path.join(vlib.COQ, "Gen", "FileStreamC19.v"), body)
    if problem is None:
        # translation validation against what the compiled constructor does
        env = {"Z": type("Zs", (), {"max": staticmethod(max), "min": staticmethod(min)})}
        for n, al, cp in observed:
            scope = dict(env, buffer_size=n, c19_ktostring_max_bytes=observed.ktsmax)
            ta, tc = eval(_py(alloc), scope), eval(_py(cap), scope)
            if (ta, tc) != (al, cp):
                problem = ("translation of FileStream's constructor disagrees with the compiled code for buffer_size=%d: translated (alloc %d, capacity %d), observed (%d, %d)"
                           % (n, ta, tc, al, cp))
                break
    return problem


def _py(gallina):
    """the generated Gallina expression as a Python expression (prefix Z.max a b -> Z.max(a, b))"""
    s = gallina
    while True:
        m = re.search(r"\(Z\.(max|min) ", s)
        if not m:
            return s
        # split the two arguments at top level
        depth, j, args, start = 0, m.end(), [], m.end()
        while True:
            ch = s[j]
            if ch == "(":
                depth += 1
            elif ch == ")":
                if depth == 0:
                    args.append(s[start:j])
                    break
                depth -= 1
            elif ch == " " and depth == 0:
                args.append(s[start:j])
                start = j + 1
            j += 1
        s = s[:m.start()] + "Z_%s(%s)" % (m.group(1), ", ".join(a for a in args if a)) + s[j + 1:]
        s = s.replace("Z_max", "max").replace("Z_min", "min")


class Observed(list):
    ktsmax = 0


def regenerate():
    """coq/Gen/FloatToStringC19.v: converter parameters + reserved sizes printed by a program compiled against the sources"""
    bdir = vlib.build_repo(["kenlm_util"])
    out = os.path.join(vlib.CACHE, "drivers", "c19_consts")
    os.makedirs(os.path.dirname(out), exist_ok=True)
    rc, o, e = vlib.sh(["g++", "-std=c++11", "-w", "-I" + vlib.REPO, CONSTS_SRC, "-o", out, "-Wl,--wrap=malloc", "-L" + os.path.join(bdir, "lib"), "-lkenlm_util"], timeout=300)
    if rc != 0:
        raise vlib.InfraError("c19_consts does not compile against the current sources (the translator step of C19 is broken):\n" + (o + e)[-3000:])
    rc, o, e = vlib.sh([out], timeout=20, check=True)
    head = ("(* GENERATED on every run by harness/py/props/c19.py (regenerate): printed by harness/drivers/c19_consts.cc compiled against\n"
            "   the current util/float_to_string.{hh,cc}, util/integer_to_string.hh and util/double-conversion headers.  Do not edit. *)\n"
            "From Coq Require Import ZArith.\n")
    vlib.write_if_changed(os.path.join(vlib.COQ, "Gen", "FloatToStringC19.v"), head + o)
    consts = dict(re.findall(r"Definition (c19_\w+) : Z := \(?(-?\d+)\)?%Z", o))
    obs = Observed((int(a), int(b), int(c)) for a, b, c in re.findall(r"\(\* FS (\d+) (\d+) (-?\d+) \*\)", o))
    obs.ktsmax = int(consts["c19_ktostring_max_bytes"])
    consts["_file_stream_problem"] = regenerate_file_stream(obs)
    return consts


# ---------------------------------------------------------------------------------------------
def f2b(x):
    return struct.unpack("<I", struct.pack("<f", x))[0]


def b2f(b):
    return struct.unpack("<f", struct.pack("<I", b))[0]


def d2b(x):
    return struct.unpack("<Q", struct.pack("<d", x))[0]


def b2d(b):
    return struct.unpack("<d", struct.pack("<Q", b))[0]


_libc = ctypes.CDLL("libc.so.6")
_libc.strtof.restype = ctypes.c_float
_libc.strtof.argtypes = [ctypes.c_char_p, ctypes.c_void_p]


def gen_float_cases(rng, n):
    pats = {0, 0x80000000, 1, 0x80000001, 0x007fffff, 0x00800000, 0x7f7fffff, 0xff7fffff, 0x7f800000, 0xff800000, 0x7fc00000, 0xffc00000,
            0x7f800001, 0x3f800000, 0xbf800000}
    for e in range(-46, 40):                       # every power of ten and its neighbours: the notation thresholds are among them
        for m in ("1", "9.9999999", "1.2345678", "-1.2345678", "-9.999999", "5"):
            try:
                b = f2b(float("%se%d" % (m, e)))
            except OverflowError:
                continue
            pats.update({b, (b + 1) & 0xffffffff, (b - 1) & 0xffffffff})
    for e in range(0, 255):                        # powers of two, all-ones mantissas
        pats.update({e << 23, (e << 23) | 0x7fffff, (e << 23) | 0x80000000, (e << 23) | 1})
    while len(pats) < n:
        k = rng.below(4)
        if k == 0:
            pats.add(rng.below(1 << 32))
        elif k == 1:                                # log probabilities as lmplz writes them
            pats.add(f2b(-rng.below(10 ** 7) / 10.0 ** rng.range(4, 7)))
        elif k == 2:                                # magnitude around 1e20 / 1e-6: the longest decimal forms
            pats.add(f2b((-1) ** rng.below(2) * rng.range(10 ** 7, 10 ** 8 - 1) * 10.0 ** rng.choice([13, 12, -13, -14, -12])))
        else:
            pats.add((rng.below(255) << 23) | rng.below(1 << 23) | (rng.below(2) << 31))
    return ["F %x" % p for p in sorted(pats)]


def gen_double_cases(rng, n):
    pats = {0, 1 << 63, 1, (1 << 63) | 1, 0xfffffffffffff, 1 << 52, 0x7fefffffffffffff, 0xffefffffffffffff, 0x7ff0000000000000,
            0xfff0000000000000, 0x7ff8000000000000, 0x3ff0000000000000, d2b(-1.2345678901234567e-6), d2b(-1.2345678901234567e-5),
            d2b(-1.7976931348623157e308), d2b(-2.2250738585072014e-308), d2b(-4.9e-324), d2b(-1.2345678901234567e20), d2b(1e21), d2b(1e-7)}
    for e in range(-324, 309, 3):
        for m in ("1", "9.999999999999999", "-1.2345678901234567", "-9.8765432109876543"):
            try:
                b = d2b(float("%se%d" % (m, e)))
            except OverflowError:
                continue
            pats.update({b, b + 1, max(b - 1, 0)})
    for e in range(-8, 24):
        for m in ("1", "9.999999999999999", "-1.2345678901234567"):
            b = d2b(float("%se%d" % (m, e)))
            pats.update({b, b + 1, b - 1})
    while len(pats) < n:
        k = rng.below(3)
        if k == 0:
            pats.add(rng.below(1 << 64))
        elif k == 1:
            pats.add(d2b((-1) ** rng.below(2) * rng.range(10 ** 16, 10 ** 17 - 1) * 10.0 ** rng.choice([4, 3, 5, -22, -23, -21, -16, 0])))
        else:
            pats.add((rng.below(2047) << 52) | rng.below(1 << 52) | (rng.below(2) << 63))
    return ["D %x" % p for p in sorted(pats)]


INT_TYPES = {"U16": (16, False), "I16": (16, True), "U32": (32, False), "I32": (32, True), "U64": (64, False), "I64": (64, True)}


def gen_int_cases(rng, n):
    cases = []
    for t, (bits, signed) in INT_TYPES.items():
        vals = {0, 1, (1 << bits) - 1, 1 << (bits - 1), (1 << (bits - 1)) - 1, (1 << (bits - 1)) + 1}
        for k in range(0, 20):
            for d in (-1, 0, 1):
                v = 10 ** k + d
                if v < (1 << bits):
                    vals.add(v)
                    if signed:
                        vals.add(((1 << bits) - v) % (1 << bits))       # -(10^k + d)
        for k in range(bits):
            for d in (-1, 0, 1):
                vals.add(((1 << k) + d) % (1 << bits))
        for _ in range(n // 6):
            vals.add(rng.below(1 << rng.range(1, bits)))
            vals.add(rng.below(1 << bits))
        cases += ["%s %x" % (t, v) for v in sorted(vals)]
    ptrs = {0, 1, 0xf, 0x10, (1 << 64) - 1, 1 << 63, 0x7ffdeadbeef0} | {rng.below(1 << rng.range(1, 64)) for _ in range(60)}
    cases += ["P %x" % p for p in sorted(ptrs)]
    return cases


# ---------------------------------------------------------------------------------------------
# directed stream for the *parser* (inputs that are not outputs of the printer): decimal strings next to the midpoints
# between adjacent floats / doubles, where a reader that rounds twice, breaks ties the wrong way or drops digits goes wrong.
# The expected value is computed exactly with Fractions (round to nearest, ties to even), never with floating point.
def float_value(bits):
    """exact value of a non-negative finite float32 bit pattern"""
    e, m = bits >> 23, bits & 0x7fffff
    return Fraction(m, 1 << 149) if e == 0 else Fraction((1 << 23) | m) * Fraction(2) ** (e - 150)


def double_value(bits):
    e, m = bits >> 52, bits & 0xfffffffffffff
    return Fraction(m, 1 << 1074) if e == 0 else Fraction((1 << 52) | m) * Fraction(2) ** (e - 1075)


def nearest_bits(x, lo, valuef):
    """correctly rounded bit pattern for the exact non-negative value x, known to lie in [valuef(lo), valuef(lo + 1)]"""
    a, b = valuef(lo), valuef(lo + 1)
    if x - a < b - x:
        return lo
    if x - a > b - x:
        return lo + 1
    return lo if lo % 2 == 0 else lo + 1


def decimal_near(x, digits, up):
    """decimal string with `digits` significant digits: x rounded down (up=False) or up (up=True); returns (text, exact value)"""
    # scale so that x * 10^k has exactly `digits` integer digits
    k = 0
    y = x
    while y >= 10 ** digits:
        y /= 10
        k -= 1
    while y < 10 ** (digits - 1):
        y *= 10
        k += 1
    n = y.numerator // y.denominator
    if up and Fraction(n) != y:
        n += 1
    return "%de%d" % (n, -k), Fraction(n) / Fraction(10) ** k if k >= 0 else Fraction(n) * Fraction(10) ** (-k)


def correct_bits(text, dbl):
    """correctly rounded bit pattern of a finite decimal text, by exact rational arithmetic"""
    x = Fraction(text)
    neg = text.strip().startswith("-")
    x = abs(x)
    if dbl:
        c = d2b(abs(float(text)))
        valuef = double_value
    else:
        c = f2b(abs(_libc.strtof(text.encode(), None)))
        valuef = float_value
    best = min((b for b in (c - 1, c, c + 1) if b >= 0), key=lambda b: (abs(valuef(b) - x), b % 2))
    return best | ((1 << (63 if dbl else 31)) if neg else 0)


def gen_fs_cases(rng, extra):
    """util::FileStream with explicit buffer sizes: every size 1..64 with the longest outputs of each type first, then random
    sequences (numbers that begin at every fill level of the buffer, strings around the buffer size)"""
    longest = ["d:%x" % d2b(-1.2345678901234567e-6), "f:%x" % f2b(-1.2345678e20), "u:ffffffffffffffff", "i:8000000000000000",
               "p:ffffffffffffffff", "d:%x" % d2b(-1.7976931348623157e308)]
    cases = []
    for size in list(range(0, 65)) + [100, 127, 4096, 8192]:
        cases.append("FS %x %s" % (size, " ".join(longest)))
    for _ in range(extra):
        size = rng.choice([rng.range(0, 64), rng.range(0, 64), rng.range(65, 300)])
        items = []
        for _ in range(rng.range(1, 12)):
            k = rng.below(6)
            if k == 0:
                items.append("s:%x" % rng.choice([0, 1, size, max(size - 1, 0), size + 1, rng.range(0, 2 * size + 3)]))
            elif k == 1:
                items.append(rng.choice(longest))
            elif k == 2:
                items.append("d:%x" % rng.below(1 << 64))
            elif k == 3:
                items.append("f:%x" % rng.below(1 << 32))
            elif k == 4:
                items.append("u:%x" % rng.below(1 << rng.range(1, 64)))
            else:
                items.append("i:%x" % rng.below(1 << 64))
        cases.append("FS %x %s" % (size, " ".join(items)))
    return cases


def gen_irt_cases(rng, big):
    """integers written by the stream and read back by the input layer, the last value with NOTHING after it: files whose size is
    an exact multiple of the page size (mmap: nothing of the file follows the last digit), and read() backends (istream, gzip)
    whose buffer has been refilled, so that digits of earlier values lie behind the valid bytes -- with small buffers and with
    the default 1 MB one"""
    cases = []
    for kind in "UI":
        for pages in (1, 2, 3, 5):
            cases.append("IRT %s M 1 %x %x 0" % (kind, 4096 * pages, rng.below(1 << 30)))
        cases.append("IRT %s M 100000 %x %x 0" % (kind, 4096 * rng.range(1, 8), rng.below(1 << 30)))
        for _ in range(4 if not big else 30):
            cases.append("IRT %s M %x 0 %x %x" % (kind, rng.choice([1, 4096, 1 << 20]), rng.below(1 << 30), rng.range(1, 3000)))
        for backend in "SZ":
            for minb in (1, 4096, 1 << 16):
                window = 4096 * max(minb // 4096 + 1, 2)
                for _ in range(2 if not big else 10):
                    cases.append("IRT %s %s %x 0 %x %x" % (kind, backend, minb, rng.below(1 << 30), rng.range(window // 6, window // 2)))
            # the default buffer (1 MB + a page): more than a megabyte of digits in front of the last value
            for _ in range(1 if not big else 6):
                cases.append("IRT %s %s 100000 0 %x %x" % (kind, backend, rng.below(1 << 30), rng.range(110000, 160000)))
    return cases


def gen_parser_hazards(rng, n):
    """(case line, expected bits) for ReadFloat / ReadDouble"""
    out = []
    for _ in range(n):
        dbl = rng.chance(1, 3)
        if dbl:
            lo = rng.choice([rng.below(0x7fefffffffffffff), (rng.range(1, 2046) << 52) | rng.below(1 << 52), rng.below(1 << 52)])
            valuef, top = double_value, 0x7fefffffffffffff
        else:
            lo = rng.choice([rng.below(0x7f7fffff), (rng.range(1, 254) << 23) | rng.below(1 << 23), rng.below(1 << 23),
                             (rng.range(60, 200) << 23) | rng.choice([0x7fffff, 0, 1, 0x7ffffe])])
            valuef, top = float_value, 0x7f7fffff
        if lo >= top:
            lo = top - 1
        mid = (valuef(lo) + valuef(lo + 1)) / 2
        digits = rng.range(8, 17) if not dbl else rng.range(16, 24)
        for up in (False, True):
            text, val = decimal_near(mid, digits, up)
            if val < valuef(lo) or val > valuef(lo + 1):
                continue                # too few digits: the rounded decimal left the interval; not this stream's business
            exp = nearest_bits(val, lo, valuef)
            if rng.chance(1, 2):
                text, exp = "-" + text, exp | (1 << (63 if dbl else 31))
            if rng.chance(1, 3):
                # the same number written without an exponent where that stays short
                m, e = text.lstrip("-").split("e")
                if -8 <= int(e) <= 0 and len(m) + 2 < 40:
                    z = m.rjust(-int(e) + 1, "0")
                    plain = z[:len(z) + int(e)] + ("." + z[len(z) + int(e):] if int(e) else "")
                    text = ("-" if text[0] == "-" else "") + plain
            out.append((("RD " if dbl else "RF ") + text.encode().hex(), "%x" % exp, text))
    return out


FLOAT_ALPHABET = re.compile(rb"^-?(inf|NaN|[0-9]+(\.[0-9]+)?(e[+-]?[0-9]+)?)$")


def oracle_float(case, out, consts):
    """specification on the implementation's answer: inside the reservation, nothing but the number, reads back bit-identical"""
    f = case.split()
    dbl = f[0] == "D"
    bits = int(f[1], 16)
    o = out.split()
    if len(o) != 9:
        return "reserved", "unexpected driver answer %r" % out[:200]
    text = bytes.fromhex(o[0]) if o[0] != "-" else b""
    reserved = int(consts["c19_kbytes_double" if dbl else "c19_kbytes_float"])
    if o[7] != "ok" or len(text) + 1 > reserved:
        return "reserved", "ToString wrote %d characters (+ terminating null) into %d reserved bytes: %r" % (len(text), reserved, text)
    if not FLOAT_ALPHABET.match(text):
        return "chars", "output %r is not a plain number" % text
    v = b2d(bits) if dbl else b2f(bits)
    back = int(o[6], 16)
    if v != v:
        if not ((back & (0x7ff0000000000000 if dbl else 0x7f800000)) == (0x7ff0000000000000 if dbl else 0x7f800000) and back & (0xfffffffffffff if dbl else 0x7fffff)):
            return "roundtrip", "NaN written as %r reads back as %x" % (text, back)
    elif back != bits:
        return "roundtrip", "%x written as %r reads back as %x" % (bits, text, back)
    # independent reading of the text
    if v == v:
        ind = d2b(float(text)) if dbl else f2b(_libc.strtof(text, None))
        if ind != bits:
            return "value", "%r is not the value %x (libc reads %x)" % (text, bits, ind)
    if o[8] != o[0]:
        return "stream", "StringStream wrote %s, ToString %s" % (o[8], o[0])
    if dbl and v == v and abs(v) != float("inf") and v != 0:
        # shortest digits: Python's repr is the shortest round-tripping digit string as well
        dig = re.sub(rb"[-.]|e.*", b"", text).strip(b"0")
        ref = re.sub(r"[-.]|e.*", "", repr(v)).strip("0").encode()
        if len(dig) != len(ref):
            return "shortest", "%r has %d significant digits, %d suffice (%s)" % (text, len(dig), len(ref), repr(v))
    return None


def oracle_int(case, out, consts):
    f = case.split()
    o = out.split()
    if f[0] == "P":
        exp = ("0x%x" % int(f[1], 16)).encode()
        if len(o) != 2 or o[1] != "ok" or bytes.fromhex(o[0]) != exp:
            return "pointer", "pointer %s printed as %r" % (f[1], out)
        if len(exp) > int(consts["c19_kbytes_ptr"]):
            return "reserved", "pointer text longer than the reservation"
        return None
    bits, signed = INT_TYPES[f[0]]
    raw = int(f[1], 16)
    v = raw - (1 << bits) if signed and raw >> (bits - 1) else raw
    if len(o) != 3:
        return "int", "unexpected driver answer %r" % out
    text = bytes.fromhex(o[0])
    if text != str(v).encode():
        return "int:text", "%s %d printed as %r" % (f[0], v, text)
    if o[2] != "ok" or len(text) > int(consts["c19_kbytes_" + f[0].lower()]):
        return "int:reserved", "%s %d: %r does not fit the reservation / stream text differs" % (f[0], v, text)
    back = int(o[1], 16)
    if back != raw % (1 << 64) and back != (v % (1 << 64)):
        return "int:roundtrip", "%s %d reads back as %x" % (f[0], v, back)
    return None


def model_case_for(case, out):
    """the model's input: for floats the digit generator's answer as reported by the driver"""
    f = case.split()
    if f[0] in ("F", "D"):
        o = out.split()
        if len(o) != 9:
            return None
        if o[2] == "S":
            bits = int(f[1], 16)
            nan = (bits & (0xfffffffffffff if f[0] == "D" else 0x7fffff)) != 0
            neg = bits >> (63 if f[0] == "D" else 31)
            return "S %d %d" % (1 if nan else 0, neg)
        return "L %s %s %s %s" % (o[2], o[3], o[4], o[5])
    if f[0] == "P":
        return "P " + f[1]
    bits, signed = INT_TYPES[f[0]]
    raw = int(f[1], 16)
    if signed:
        v = raw - (1 << bits) if raw >> (bits - 1) else raw
        return "I %x" % (v % (1 << 64))
    return "U %x" % raw


def run(ctx):
    import time
    T = [time.time()]

    def lap(what):
        T.append(time.time())
        ctx.coverage.setdefault("phase_s", {})[what] = round(T[-1] - T[-2], 1)
    consts = regenerate()
    pres = vlib.coq_prove("C19")
    ctx.set_proof(pres)
    lap("proof")
    rng = ctx.rng
    cases = [l.strip() for l in open(os.path.join(vlib.ROOT, "corpus", "C19", "cases.txt")) if l.strip() and not l.startswith("#")] \
        if os.path.exists(os.path.join(vlib.ROOT, "corpus", "C19", "cases.txt")) else []
    hp = os.path.join(vlib.ROOT, "corpus", "C19", "double_rounding_hazards.txt")
    if os.path.exists(hp):
        for l in open(hp):
            if l.strip() and not l.startswith("#"):
                b = int(l.split()[0], 16)
                cases += ["F %x" % b, "F %x" % (b | 0x80000000)]
    ctx.count("corpus_cases", len(cases))
    cases += gen_float_cases(rng, ctx.pick(4000, 40000)) + gen_double_cases(rng, ctx.pick(4000, 40000)) + gen_int_cases(rng, ctx.pick(1200, 12000))
    impl = vlib.compile_driver("c19_driver", DRIVER_SRC, libs=("kenlm_util",), extra=("-DNDEBUG", "-Wl,--wrap=malloc"))
    iout = vlib.run_lines(impl, cases, timeout=900)
    lap("impl")
    fails = []
    kinds = {}
    for c, o in zip(cases, iout):
        k = c.split()[0]
        kinds[k] = kinds.get(k, 0) + 1
        if o.startswith("DRIVER-DIED") or o == "<no answer>" or o.startswith("EXC:"):
            fails.append((k.lower() + ":crash", c, o, "driver died / exception: " + o[:200]))
            continue
        r = oracle_float(c, o, consts) if k in ("F", "D") else oracle_int(c, o, consts)
        if r:
            fails.append((("float" if k == "F" else "double" if k == "D" else k.lower()) + ":" + r[0], c, o, r[1]))
    # ---- the committed double-rounding hazards (corpus/C19/double_rounding_hazards.txt) run as ordinary F cases above;
    # ---- here: the per-run directed stream for the parser
    hz = gen_parser_hazards(rng, ctx.pick(6000, 60000))
    hout = vlib.run_lines(impl, [c for c, _, _ in hz], timeout=900)
    nh = 0
    for (c, exp, text), o in zip(hz, hout):
        if o != exp:
            kind = "double" if c.startswith("RD") else "float"
            fails.append((kind + ":parse:midpoint", c, o, "Read%s(%r) = %s, the correctly rounded value (exact rational arithmetic, ties to even) is %s"
                          % ("Double" if kind == "double" else "Float", text, o, exp)))
        else:
            nh += 1
    # ---- FileStream with explicit (small) buffer sizes: the text stays inside what the stream allocated
    fsc = gen_fs_cases(rng, ctx.pick(600, 6000))
    fout = vlib.run_lines(impl, fsc, timeout=900)
    for c, o in zip(fsc, fout):
        f = o.split()
        if len(f) != 3 or f[0] != "ok" or f[2] != "1":
            size = int(c.split()[1], 16)
            what = ("FileStream(fd, %d) allocated %s bytes and wrote %s bytes past their end" % (size, f[1], f[0].split(":")[1])) if len(f) == 3 and f[0].startswith("OVERRUN") \
                else "FileStream(fd, %d): %s" % (size, "file content differs from the StringStream text" if len(f) == 3 else o[:200])
            fails.append(("filestream:" + ("overrun" if "OVERRUN" in o else "content"), c, o, what))
    ctx.coverage["filestream_cases"] = len(fsc)
    # ---- integers through the streams and back, ending without a newline
    irt = gen_irt_cases(rng, not ctx.quick)
    iro = vlib.run_lines(impl, irt, timeout=900)
    for c, o in zip(irt, iro):
        if not o.startswith("ok "):
            f = c.split()
            fails.append(("int-roundtrip:%s:%s" % ({"M": "mmap", "S": "istream", "Z": "gzip"}[f[2]], f[1].lower()), c, o,
                          "integers written with FileStream << and read back with %s (%s, min_buffer %s): %s" % ("ReadLong" if f[1] == "I" else "ReadULong", f[2], f[3], o[:200])))
    ctx.coverage["integer_stream_roundtrips"] = len(irt)
    if consts.get("_file_stream_problem"):
        fails.append(("translator:file_stream", "regenerate", "", "the tie to util/file_stream.hh is broken: " + consts["_file_stream_problem"]))
    ctx.coverage["parser_midpoint_cases"] = len(hz)
    ctx.coverage["parser_midpoint_cases_ok"] = nh
    lap("oracle")
    # ---- exploration by execution: sweeps inside the driver (multi-threaded), see the driver's header comment
    sweeps = []
    if ctx.quick:
        stride = 256
        sweeps.append(("SWEEPF %x %x %x %d" % (rng.below(stride), (1 << 32) // stride, stride, THREADS), "float", False))
        sweeps.append(("SWEEPD %x %x %d" % (ctx.seed, 2 * 10 ** 6, THREADS), "double", False))
        sweeps.append(("SWEEPI U32 %x %x %x %d" % (rng.below(256), 1 << 24, 256, THREADS), "u32", False))
        sweeps.append(("SWEEPI I32 %x %x %x %d" % (rng.below(256), 1 << 24, 256, THREADS), "i32", False))
    else:
        sweeps.append(("SWEEPF 0 100000000 1 %d" % THREADS, "float", True))
        sweeps.append(("SWEEPD %x %x %d" % (ctx.seed, 10 ** 8, THREADS), "double", False))
        sweeps.append(("SWEEPI U32 0 100000000 1 %d" % THREADS, "u32", True))
        sweeps.append(("SWEEPI I32 0 100000000 1 %d" % THREADS, "i32", True))
    sweeps.append(("SWEEPI U16 0 10000 1 %d" % THREADS, "u16", True))
    sweeps.append(("SWEEPI I16 0 10000 1 %d" % THREADS, "i16", True))
    for base in (0, (1 << 63) - (1 << 20), (1 << 64) - (1 << 21), 10 ** 19 - (1 << 19)):
        sweeps.append(("SWEEPI U64 %x %x 1 %d" % (base, 1 << 20, THREADS), "u64", False))
        sweeps.append(("SWEEPI I64 %x %x 1 %d" % (base, 1 << 20, THREADS), "i64", False))
    sweeps.append(("SWEEPI U64 %x %x %x %d" % (rng.below(1 << 40), ctx.pick(1 << 22, 10 ** 7), rng.below(1 << 40) * 2 + 1, THREADS), "u64", False))
    sweeps.append(("SWEEPI I64 %x %x %x %d" % (rng.below(1 << 40), ctx.pick(1 << 22, 10 ** 7), rng.below(1 << 40) * 2 + 1, THREADS), "i64", False))
    sout = vlib.run_lines(impl, [s for s, _, _ in sweeps], timeout=3000)
    expl = {}
    for (s, kind, exhaustive), o in zip(sweeps, sout):
        f = o.split()
        if len(f) != 3:
            fails.append((kind + ":sweep", s, o, "sweep did not finish: " + o[:200]))
            continue
        n, maxlen, bad = int(f[0], 16), int(f[1], 16), f[2]
        e = expl.setdefault(kind, {"checked": 0, "max_length": 0, "exhaustive": False})
        e["checked"] += n
        e["max_length"] = max(e["max_length"], maxlen)
        e["exhaustive"] = e["exhaustive"] or exhaustive
        if bad != "-":
            bits, _, why = bad.partition(":")
            if kind in ("float", "double"):
                c = ("F " if kind == "float" else "D ") + bits
                o1 = vlib.run_lines(impl, [c])[0]
                r = oracle_float(c, o1, consts) or (why or "sweep", "the sweep reports %s for bit pattern %s" % (why, bits))
                fails.append((kind + ":" + r[0], c, o1, r[1]))
            else:
                fails.append((kind + ":int:sweep", "%s %s" % (kind.upper(), bits), o, "ToString / snprintf / strtol disagree for %s value %s" % (kind, bits)))
    lap("sweeps")
    # ---- correspondence: the extracted layout / printing functions on the same values
    mismatches = []
    model_broken = None
    try:
        model = vlib.ocaml_model("C19")
        mcases, idx = [], []
        for i, (c, o) in enumerate(zip(cases, iout)):
            m = model_case_for(c, o)
            if m:
                mcases.append(m)
                idx.append(i)
        mout = vlib.run_lines(model, mcases, timeout=900)
        for i, m, mo in zip(idx, mcases, mout):
            o = iout[i].split()
            if m.startswith("S "):
                ok = len(o) > 1 and int(mo, 16) == int(o[1], 16)
            else:
                ok = len(o) > 0 and mo == o[0]
            if not ok:
                mismatches.append((cases[i], iout[i], m, mo))
    except vlib.ModelBroken as e:
        model_broken = str(e)
    lap("model")
    ctx.count("evaluations", len(cases))
    nontrivial = {c for c, o in zip(cases, iout) if c[0] in "FD" and len(o.split()) == 9 and o.split()[2] != "S"} | \
        {c for c in cases if c[0] not in "FD" and int(c.split()[1], 16) > 9}
    ctx.coverage["distinct_nontrivial"] = len(nontrivial)
    ctx.coverage["rule"] = ("line cases = corpus + boundary classes + random: floats/doubles at every power of ten and its neighbours (the notation "
                            "thresholds 1e-6 and 1e21 among them), powers of two, subnormals, extremes, +-0, +-inf, NaN, values shaped like log "
                            "probabilities; integers of every width at 10^n+-1, 2^n+-1, min, max and random; pointers.  Non-trivial: a finite "
                            "float/double (the layout function is exercised with real digit strings) or an integer with more than one digit.  "
                            "Distinct = distinct case line.  The sweeps (exploration) are counted separately in `exploration`.")
    ctx.coverage["case_kinds"] = kinds
    ctx.coverage["traces_validated_against_impl"] = len(cases) - len(mismatches)
    ctx.coverage["exploration"] = expl
    ctx.coverage["exploration_note"] = ("decided by execution, not by proof: ToString -> FilePiece::ReadFloat/ReadDouble bit-identical, output within the "
                                        "reserved bytes; float: %s; double: boundary classes x random mantissas; integers vs snprintf and strtol/strtoul"
                                        % ("all 2^32 bit patterns" if not ctx.quick else "2^24 bit patterns, stride 256 from a seeded offset"))
    ctx.coverage["regenerated_constants"] = {k: v for k, v in consts.items() if not k.startswith("_")}
    for c, o in list(zip(cases, iout))[:2] + [(c, o) for c, o in zip(cases, iout) if c.startswith("D ")][:2] + [(c, o) for c, o in zip(cases, iout) if c.startswith("I64")][:1]:
        ctx.sample({"case": c, "impl": o})
    ctx.assumptions += ["x86-64 Linux; IEEE binary32/binary64", "the digit generator (Grisu3 / bignum DoubleToAscii) and double-conversion's StringToDouble are "
                        "not modelled: the float round trip is decided by execution (exploration), the proof covers the layout bound and the integers",
                        "the converter parameters and reserved sizes are read from the sources by compiling harness/drivers/c19_consts.cc (private members "
                        "made visible by a #define)", "extraction (ExtrOcamlBasic only) and the OCaml/C++ drivers are trusted"]
    seen = set()
    for sig, c, o, msg in fails:
        if sig in seen:
            continue
        seen.add(sig)
        if sig.startswith("translator:"):
            ctx.report(sig, msg, {"tie": "coq/Gen/FileStreamC19.v <- util/file_stream.hh", "problem": msg}, found=False)
            continue
        ctx.report("spec:" + sig, msg, {"case": c, "impl_output": o, "how": "./check C19 --replay <this file>"})
    if not fails:
        if mismatches:
            c, o, m, mo = mismatches[0]
            ctx.report("correspondence:" + c.split()[0], "model and implementation disagree (the specification oracle accepts the implementation's answer)",
                       {"correspondence": "C19 extracted model vs c19_driver", "case": c, "impl": o, "model_case": m, "model": mo, "n_mismatches": len(mismatches)}, found=False)
        elif model_broken:
            ctx.report("model-broken", "executable model no longer builds", {"log": model_broken[-2000:]}, found=False)
        ctx.report_proof(pres)
    ctx.coverage["spec_oracle_failures"] = len(fails)
    ctx.coverage["correspondence_mismatches"] = len(mismatches)


def replay(ctx, obj):
    consts = regenerate()
    impl = vlib.compile_driver("c19_driver", DRIVER_SRC, libs=("kenlm_util",), extra=("-DNDEBUG", "-Wl,--wrap=malloc"))
    c = obj["replay"]["case"]
    o = vlib.run_lines(impl, [c])[0]
    k = c.split()[0]
    if k == "IRT":
        print("case:", c, "\nimpl:", o)
        return 0 if o.startswith("ok ") else 1
    if k == "FS":
        print("case:", c, "\nimpl:", o)
        f = o.split()
        return 0 if len(f) == 3 and f[0] == "ok" and f[2] == "1" else 1
    if k in ("RF", "RD"):
        text = bytes.fromhex(c.split()[1]).decode()
        exp = "%x" % correct_bits(text, k == "RD")
        print("case:", c, "text:", text, "\nimpl:", o, "\ncorrectly rounded (exact rational arithmetic):", exp)
        return 0 if o == exp else 1
    r = oracle_float(c, o, consts) if k in ("F", "D") else oracle_int(c, o, consts) if k in INT_TYPES or k == "P" else ("sweep", o)
    print("case:", c, "\nimpl:", o, "\noracle:", r[1] if r else "ok")
    return 1 if r else 0
