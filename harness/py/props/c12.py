"""C12 -- filter output does not depend on thread count, batch size or scheduling.

Proof: coq/C12 (Controller protocol: sequence numbers, recycled batches, OutputWorker reorder deque, Flush, and the
MultipleOutputBuffer coalescing through a remembered pointer; for all inputs, batch sizes, batch counts, schedules).
Tie (correspondence): (1) the real lm::Controller + InputBuffer + MultipleOutputBuffer run with real threads under
seeded jitter at the PCQueue scheduling points (harness/drivers/c12_driver.cc) against the extracted model and against
the sequential specification; (2) implementation oracle on the tool: bin/filter threads:k batch_size:b byte-identical to
threads:1 for all modes / formats, under a timeout (a hang is a violation, with gdb back-traces in the replay)."""
import os
import shutil
import subprocess
import sys
import time

import vlib

DRIVER = os.path.join(vlib.ROOT, "harness", "drivers", "c12_driver.cc")
JITTER = os.path.join(vlib.ROOT, "harness", "drivers", "c12_filter_jitter.cc")
LIBS = ("kenlm_filter", "kenlm", "kenlm_util")


# ---------------------------------------------------------------------------------------------
# Controller-level cases
def gen_ctl(rng, n):
    cases = []
    for _ in range(n):
        threads = rng.choice([2, 2, 3, 4, rng.range(2, 8)])
        q = 2 * threads
        b = rng.choice([1, 1, 2, 3, rng.range(1, 6)])
        nsys = rng.range(1, 3)
        nsec = rng.choice([1, 2, 3, rng.range(1, 5)])
        raw = rng.chance(1, 5)
        equal_len = rng.chance(2, 3)
        big = rng.chance(1, 8)
        if big:
            nsys, nsec = 3, rng.range(1, 2)
        toks, lid = [], 0
        for sct in range(1 if raw else nsec):
            size = rng.choice([0, b - 1, b, b + 1, 2 * b, q * b, q * b + 1, (q + 1) * b, rng.range(0, 3 * q * b + 2)])
            if big:
                size = rng.range(6 * q * b, 12 * q * b + 40)       # every batch object recycled several times, all workers busy
            style = rng.choice(["all", "single", "mixed", "mixed", "sparse"])
            for _ in range(size):
                if style == "all":
                    calls = "A"
                elif style == "single":
                    calls = str(rng.below(nsys))
                elif style == "sparse":
                    calls = rng.choice(["-", "-", "A", ".".join(str(o) for o in range(nsys) if rng.chance(1, 2)) or "-"])
                else:
                    calls = rng.choice(["A", "-", ".".join(str(o) for o in range(nsys) if rng.chance(2, 3)) or "-"])
                natural = len(str(lid)) + 3          # "<id> n<TAB>"
                ln = 12 if equal_len else rng.range(natural, 30)
                toks.append("L%d:%d:%s" % (lid, max(ln, natural), calls))
                lid += 1
            toks.append("F" if raw else "E")
        # CTLC: the filter sits behind the real lm::ContextFilter and keeps per-call scratch state (every worker needs its own copy)
        cases.append("%s %d %d %d %s" % (rng.choice(["CTL", "CTL", "CTLC"]), threads, b, rng.below(1 << 30) + 1, " ".join(toks)))
    return cases


def sequential_events(case):
    """the specification: what the single-threaded filter writes, in order"""
    ev = []
    for t in case.split()[4:]:
        if t == "E":
            ev.append("M")
        elif t == "F":
            pass
        else:
            lid, _, calls = t[1:].split(":")
            if calls == "A":
                ev.append("A" + lid)
            elif calls != "-":
                ev += ["%s:%s" % (o, lid) for o in calls.split(".")]
    return ev


def oracle_ctl(case, out):
    if out == "SKIPPED":
        return None
    if not out.startswith("ok"):
        return out[:300]
    got = out.split()[1:]
    exp = sequential_events(case)
    if got == exp:
        return None
    # an unflushed tail is legitimate only if the caller never called Flush after the last lines (no E/F at the end)
    toks = case.split()[4:]
    if toks and toks[-1] not in ("E", "F") and got == exp[:len(got)]:
        tail_start = max([i for i, t in enumerate(toks) if t in ("E", "F")] + [-1]) + 1
        if len(got) >= len(sequential_events(" ".join(case.split()[:4] + toks[:tail_start]))):
            return None
    for i, (a, b) in enumerate(zip(got + ["<end>"], exp + ["<end>"])):
        if a != b:
            return "event %d is %s, the sequential filter writes %s (%d events written, %d expected)" % (i, a, b, len(got), len(exp))
    return "output differs from the sequential filter"


def ctl_nontrivial(case):
    f = case.split()
    threads, b = int(f[1]), int(f[2])
    nl = sum(1 for t in f[4:] if t[0] == "L")
    return nl > 2 * threads * b      # at least one batch object is recycled


def run_lines_restart(exe, cases, timeout=600, max_restarts=5):
    """run_lines, restarting the driver after a case that ended it (HANG -> exit 3); after max_restarts such cases the
    remaining ones are skipped (a broken tree would otherwise cost one watchdog period per case)"""
    out, rest = [], list(cases)
    restarts = 0
    while rest:
        if restarts > max_restarts:
            out += ["SKIPPED"] * len(rest)
            break
        restarts += 1
        rc, o, e = vlib.sh([exe], input=("\n".join(rest) + "\n").encode(), timeout=timeout)
        lines = o.split("\n")
        if lines and lines[-1] == "":
            lines.pop()
        lines = lines[:len(rest)]
        out += lines
        if len(lines) == len(rest):
            break
        if rc == 3 and lines:
            rest = rest[len(lines):]
        else:
            out.append("DRIVER-DIED rc=%d %s" % (rc, e.strip()[-300:].replace("\n", " | ")))
            rest = rest[len(lines) + 1:]
    return out


# ---------------------------------------------------------------------------------------------
# tool-level cases
WORDS = ["aa", "bb", "cc", "dd", "ee", "ff", "gg", "hh", "ab", "ba", "xyz", "w", "longerword", "kk", "mm", "nn"]


def gen_tool_input(rng, d, idx):
    """an ARPA or count file plus a vocabulary; section sizes aimed at batch boundaries"""
    nw = rng.range(3, len(WORDS))
    words = WORDS[:nw]
    order = rng.choice([1, 2, 2, 3])
    fmt = rng.choice(["arpa", "arpa", "raw"])
    target = rng.choice([1, 2, 3, 4, 6, 8, 12])        # some section will have a multiple of this many entries
    sections = []
    vocab_all = ["<unk>", "<s>", "</s>"] + words
    for n in range(1, order + 1):
        if n == 1:
            grams = [(w,) for w in vocab_all]
            if rng.chance(1, 2):
                while len(grams) % target:
                    grams.append(("u%d" % len(grams),))
        else:
            want = rng.choice([0, 1, target, target + 1, 2 * target, 4 * target, rng.range(0, 40)])
            seen, grams = set(), []
            tries = 0
            while len(grams) < want and tries < 500:
                tries += 1
                g = tuple(rng.choice(vocab_all) for _ in range(n))
                if g not in seen and g[0] != "</s>" and g[-1] != "<s>":
                    seen.add(g)
                    grams.append(g)
        sections.append(grams)
    model = os.path.join(d, "in%d.%s" % (idx, fmt))
    with open(model, "w") as f:
        if fmt == "arpa":
            f.write("\\data\\\n")
            for n, g in enumerate(sections):
                f.write("ngram %d=%d\n" % (n + 1, len(g)))
            for n, g in enumerate(sections):
                f.write("\n\\%d-grams:\n" % (n + 1))
                for x in g:
                    p = -(1 + rng.below(64) / 16.0)
                    if n + 1 < len(sections):
                        f.write("%g\t%s\t%g\n" % (p, " ".join(x), -(rng.below(16) / 16.0)))
                    else:
                        f.write("%g\t%s\n" % (p, " ".join(x)))
            f.write("\n\\end\\\n")
        else:
            # count files: the orders are mixed (most count tools emit them that way) in 3 of 4 inputs, and a few lines have an
            # empty n-gram field (a line starting with the tab)
            lines = ["%s\t%d\n" % (" ".join(x), rng.range(1, 99)) for g in sections for x in g]
            if rng.chance(3, 4):
                rng.shuffle(lines)
            if rng.chance(1, 3):
                for _ in range(rng.range(1, 3)):
                    lines.insert(rng.below(len(lines) + 1), "\t%d\n" % rng.range(1, 99))
            f.write("".join(lines))
    nsent = rng.range(1, 4)
    vocab = os.path.join(d, "vocab%d.txt" % idx)
    phrase_vocab = os.path.join(d, "pvocab%d.txt" % idx)
    with open(vocab, "w") as f, open(phrase_vocab, "w") as pf:
        for _ in range(nsent):
            ws = [rng.choice(words) for _ in range(rng.range(1, 6))]
            f.write(" ".join(ws) + "\n")
            # phrases: tab separated groups
            groups, cur = [], []
            for w in ws:
                cur.append(w)
                if rng.chance(1, 2):
                    groups.append(" ".join(cur)); cur = []
            if cur:
                groups.append(" ".join(cur))
            pf.write("\t".join(groups) + "\n")
    sizes = [len(g) for g in sections]
    return {"model": model, "fmt": fmt, "vocab": vocab, "pvocab": phrase_vocab, "nsent": nsent, "sizes": sizes}


def proc_tree_idle(pid):
    """every thread of the process and of its descendants sleeps ('S'): a deadlock looks like this sample after sample, a run
    that is merely slow on a loaded machine has a runnable ('R') thread"""
    pids, todo = [], [pid]
    while todo:
        q = todo.pop()
        pids.append(q)
        try:
            for t in os.listdir("/proc/%d/task" % q):
                try:
                    todo += [int(x) for x in open("/proc/%d/task/%s/children" % (q, t)).read().split()]
                except (OSError, ValueError):
                    pass
        except OSError:
            pass
    for q in pids:
        try:
            for t in os.listdir("/proc/%d/task" % q):
                st = open("/proc/%d/task/%s/stat" % (q, t)).read()
                if st[st.rindex(")") + 2] not in "SZX":
                    return False
        except (OSError, ValueError, IndexError):
            pass
    return True


def communicate_progress(p, soft_limit, hard_factor=40):
    """p.communicate() that reports a hang (raises TimeoutExpired) only when, after soft_limit seconds, the process tree has
    been asleep for 15 consecutive samples (3 s), or after hard_factor * soft_limit seconds"""
    t0 = time.time()
    idle = 0
    while True:
        try:
            return p.communicate(timeout=soft_limit if idle == 0 and time.time() - t0 < soft_limit else 0.2)
        except subprocess.TimeoutExpired:
            el = time.time() - t0
            if el < soft_limit:
                continue
            idle = idle + 1 if proc_tree_idle(p.pid) else 0
            if idle >= 15 or el > hard_factor * soft_limit:
                raise


def read_outputs(prefix, n):
    res = []
    for i in range(n):
        p = prefix + (str(i) if n > 1 or prefix.endswith(".") else "")
        try:
            res.append(open(p, "rb").read())
        except OSError:
            res.append(None)
    return res


def order_independence(stock, base_args, model, vocab, ref, nout, multi, d):
    """Whether an n-gram is kept, and for which outputs, is a function of that n-gram alone: the single-threaded filter applied to
    the same count lines in reverse order must keep the same lines (as a multiset) per output.  (It is what makes the result
    independent of batch boundaries and of which worker filters which batch.)"""
    rev = os.path.join(d, "reversed.raw")
    lines = open(model, "rb").read().split(b"\n")
    if lines and lines[-1] == b"":
        lines.pop()
    open(rev, "wb").write(b"\n".join(reversed(lines)) + b"\n")
    outp = os.path.join(d, "rev.")
    for f in os.listdir(d):
        if f.startswith("rev."):
            os.remove(os.path.join(d, f))
    cmd = "exec %s %s threads:1 model:%s %s < %s" % (stock, " ".join(base_args), rev, outp, vocab)
    rc, _, _ = vlib.sh(["timeout", "60", "sh", "-c", cmd], timeout=70)
    got = read_outputs(outp, nout) if multi else [open(outp, "rb").read() if os.path.exists(outp) else None]
    for i, (a, b) in enumerate(zip(got, ref)):
        if a is None or b is None or sorted(a.split(b"\n")) != sorted(b.split(b"\n")):
            la, lb = (len(a.split(b"\n")) - 1 if a is not None else None), (len(b.split(b"\n")) - 1 if b is not None else None)
            return "threads:1 keeps %s lines for output %d from the count file and %s from the same lines in reverse order: the verdict for an n-gram depends on the lines before it" % (lb, i, la)
    return None


def tool_checks(ctx, stock, jitter, n_inputs):
    rng = ctx.rng
    d = os.path.join(ctx.scratch, "tool")
    os.makedirs(d, exist_ok=True)
    fails, runs, nontrivial = [], 0, 0
    dist = {}
    for idx in range(n_inputs):
        if len(fails) >= 3:
            break
        inp = gen_tool_input(rng, d, idx)
        modes = [["single"], ["union"], ["multiple"], ["single", "context"], ["union", "context"], ["multiple", "context"],
                 ["union", "phrase"], ["multiple", "phrase"], ["multiple", "phrase", "context"], ["union", "phrase", "context"]]
        rng.shuffle(modes)
        if inp["fmt"] == "raw":      # filters with scratch state + empty token ranges (context of a unigram): always with mixed-order counts
            modes.sort(key=lambda m: 0 if ("phrase" in m and "context" in m) else 1)
        for mode in modes[:ctx.pick(3, 9)]:
            if len(fails) >= 3:
                break
            multi = mode[0] == "multiple"
            nout = inp["nsent"] if multi else 1
            vocab = inp["pvocab"] if "phrase" in mode else inp["vocab"]
            base_args = mode + [inp["fmt"]]
            ref_prefix = os.path.join(d, "ref%d." % idx)
            for f in os.listdir(d):
                if f.startswith("ref%d." % idx) or f.startswith("thr%d." % idx):
                    os.remove(os.path.join(d, f))
            # the model is given as a file, the vocabulary on stdin (the tool supports both orders)
            cmdref = "exec %s %s threads:1 model:%s %s < %s" % (stock, " ".join(base_args), inp["model"], ref_prefix, vocab)
            t0 = time.time()
            rc1, o1, err1 = vlib.sh(["timeout", "30", "sh", "-c", cmdref], timeout=40)
            t1 = time.time() - t0
            runs += 1
            ref = read_outputs(ref_prefix, nout) if multi else [open(ref_prefix, "rb").read() if os.path.exists(ref_prefix) else None]
            key = "%s:%s" % (inp["fmt"], "+".join(mode))
            dist[key] = dist.get(key, 0) + 1
            if inp["fmt"] == "raw" and rc1 == 0:
                m = order_independence(stock, base_args, inp["model"], vocab, ref, nout, multi, d)
                runs += 1
                if m:
                    keep = os.path.join(ctx.replay_dir, "files-%d-%d" % (ctx.seed, len(fails)))
                    os.makedirs(keep, exist_ok=True)
                    shutil.copy(inp["model"], keep)
                    shutil.copy(vocab, keep)
                    fails.append(("filter:raw:%s:verdict-depends-on-line-order" % "+".join(mode), m,
                                  {"reference_cmd": cmdref.replace(d, keep).replace(stock, "bin/filter"), "files": keep,
                                   "how": "run the reference command on the count file and on the same lines in reverse order (threads:1); compare the kept lines as multisets"}))
                    continue
            secs = inp["sizes"]
            bs = sorted(set([1, 2, 3, 5000, 25000] + [max(1, s + dlt) for s in secs for dlt in (-1, 0, 1) if s + dlt >= 1]))
            ks = list(range(2, 9))
            combos = [(k, b) for k in ks for b in bs]
            rng.shuffle(combos)
            # always include the smallest batch sizes with 2 threads (most recycling)
            combos = [(2, 1), (2, 2), (3, 1)] + combos
            for k, b in combos[:ctx.pick(7, 40)]:
                exe, env = (jitter, {"KPU_VERIF_JITTER": str(rng.below(1 << 30) + 1)}) if rng.chance(2, 3) else (stock, None)
                thr_prefix = os.path.join(d, "thr%d." % idx)
                for f in os.listdir(d):
                    if f.startswith("thr%d." % idx):
                        os.remove(os.path.join(d, f))
                cmd = "exec %s %s threads:%d batch_size:%d model:%s %s < %s" % (exe, " ".join(base_args), k, b, inp["model"], thr_prefix, vocab)
                limit = max(8.0, 50 * t1)
                e = dict(os.environ)
                if env:
                    e.update(env)
                p = subprocess.Popen(["sh", "-c", cmd], stdout=subprocess.PIPE, stderr=subprocess.PIPE, env=e)
                bt = None
                try:
                    o, err = communicate_progress(p, limit)
                    rc = p.returncode
                except subprocess.TimeoutExpired:
                    rcg, bt, _ = vlib.sh(["gdb", "-p", str(p.pid), "-batch", "-ex", "thread apply all bt 8"], timeout=40)
                    bt = "\n".join(l for l in bt.split("\n") if l.startswith("#") or l.startswith("Thread"))[-3000:]
                    p.kill()
                    p.communicate()
                    rc = 124
                runs += 1
                got = read_outputs(thr_prefix, nout) if multi else [open(thr_prefix, "rb").read() if os.path.exists(thr_prefix) else None]
                if any(s and s % b == 0 for s in secs) or any(s > 2 * k * b for s in secs):
                    nontrivial += 1
                what = None
                if rc == 124:
                    what = ("hang", "threads:%d batch_size:%d did not terminate within %.0f s (threads:1 took %.2f s)" % (k, b, limit, t1))
                elif rc != rc1:
                    what = ("exit-status", "threads:%d batch_size:%d exits %d, threads:1 exits %d" % (k, b, rc, rc1))
                elif got != ref:
                    which = [i for i, (a, bb) in enumerate(zip(got, ref)) if a != bb]
                    what = ("output-differs", "threads:%d batch_size:%d: output file(s) %s differ from the threads:1 result" % (k, b, which))
                if what:
                    keep = os.path.join(ctx.replay_dir, "files-%d-%d" % (ctx.seed, len(fails)))
                    os.makedirs(keep, exist_ok=True)
                    shutil.copy(inp["model"], keep)
                    shutil.copy(vocab, keep)
                    fails.append(("filter:%s:%s:%s" % (inp["fmt"], mode[0], what[0]), what[1],
                                  {"cmd": cmd.replace(d, keep).replace(exe, "bin/filter" if exe == stock else "c12_filter_jitter"), "reference_cmd": cmdref.replace(d, keep),
                                   "env": env, "section_sizes": secs, "files": keep, "backtrace": bt,
                                   "model": os.path.join(keep, os.path.basename(inp["model"])), "vocab": os.path.join(keep, os.path.basename(vocab)),
                                   "args": base_args, "threads": k, "batch_size": b, "nout": nout}))
                    break
    return fails, runs, nontrivial, dist


# ---------------------------------------------------------------------------------------------
# tool-level cases on inputs larger than the reader's window
def big_tool_checks(ctx, stock, jitter):
    """One model of about 2.5 MB (more than two util::FilePiece windows of 1 MiB, so the reader's window moves while batches
    are in flight; sections of 30 000 and 90 000 n-grams, so that many batches are filtered at the same time), every mode
    incl. context / phrase, both formats, threads 2..8 with tiny and default batch sizes, file and pipe input, each threaded
    configuration repeated; byte-for-byte against threads:1."""
    rng = ctx.rng.fork()
    d = os.path.join(ctx.scratch, "big")
    os.makedirs(d, exist_ok=True)
    nw = 30000
    words = ["w%05d" % i for i in range(nw)]
    nb = ctx.pick(90000, 250000)
    arpa, raw = os.path.join(d, "big.arpa"), os.path.join(d, "big.raw")
    with open(arpa, "w") as f, open(raw, "w") as g:
        f.write("\\data\\\nngram 1=%d\nngram 2=%d\n\n\\1-grams:\n" % (nw + 3, nb))
        for w in ["<unk>", "<s>", "</s>"] + words:
            f.write("-%d.%03d\t%s\t-0.5\n" % (rng.range(1, 5), rng.below(1000), w))
        f.write("\n\\2-grams:\n")
        for i in range(nb):
            a, b = words[rng.below(3000)], words[rng.below(nw)]
            f.write("-0.%03d\t%s %s\n" % (rng.below(1000), a, b))
            g.write("%s %s\t%d\n" % (a, b, rng.range(1, 99)))
            if i % 5 == 0:       # the count file mixes the orders: unigrams and trigrams between the bigrams
                g.write("%s\t%d\n" % (words[rng.below(nw)], rng.range(1, 99)))
            elif i % 7 == 0:
                g.write("%s %s %s\t%d\n" % (a, b, words[rng.below(3000)], rng.range(1, 99)))
        f.write("\n\\end\\\n")
    nsent = 4
    vocab, pvocab = os.path.join(d, "vocab.txt"), os.path.join(d, "pvocab.txt")
    with open(vocab, "w") as f, open(pvocab, "w") as pf:
        for _ in range(nsent):
            ws = [words[rng.below(3000)] for _ in range(400)]
            f.write(" ".join(ws) + "\n")
            pf.write("\t".join(" ".join(ws[i:i + 2]) for i in range(0, len(ws), 2)) + "\n")
    modes = [(["single"], "arpa"), (["union", "context"], "arpa"), (["multiple", "context"], "arpa"), (["union", "phrase", "context"], "raw"),
             (["multiple", "phrase", "context"], "raw"), (["union", "phrase", "context"], "arpa"), (["multiple", "phrase", "context"], "arpa"),
             (["union"], "raw"), (["multiple", "context"], "raw"), (["union", "phrase"], "arpa"),
             (["multiple"], "arpa"), (["single", "context"], "raw"), (["union", "context"], "raw")]
    configs = [(2, 1000), (4, 200), (8, 50), (3, 7), (4, 25000), (2, 5000), (8, 1000), (5, 100), (4, None), (2, None)]
    fails, runs = [], 0
    for mode, fmt in modes[:ctx.pick(9, 13)]:
        if len(fails) >= 2:
            break
        model = arpa if fmt == "arpa" else raw
        voc = pvocab if "phrase" in mode else vocab
        multi = mode[0] == "multiple"
        nout = nsent if multi else 1
        refp = os.path.join(d, "ref.")
        for f in os.listdir(d):
            if f.startswith("ref.") or f.startswith("thr."):
                os.remove(os.path.join(d, f))
        cmdref = "exec %s %s %s threads:1 model:%s %s < %s" % (stock, " ".join(mode), fmt, model, refp, voc)
        t0 = time.time()
        rc1, _, _ = vlib.sh(["timeout", "60", "sh", "-c", cmdref], timeout=70)
        t1 = time.time() - t0
        runs += 1
        ref = read_outputs(refp, nout)
        cfgs = list(configs)
        rng.shuffle(cfgs)
        bad = None
        for k, b in cfgs[:ctx.pick(3, 8)]:
            for rep in range(ctx.pick(2, 4)):
                for f in os.listdir(d):
                    if f.startswith("thr."):
                        os.remove(os.path.join(d, f))
                thrp = os.path.join(d, "thr.")
                exe, env = (jitter, {"KPU_VERIF_JITTER": str(rng.below(1 << 30) + 1)}) if rep % 2 else (stock, None)
                opts = "threads:%d%s" % (k, "" if b is None else " batch_size:%d" % b)
                pipe = rng.chance(1, 5)
                if pipe:     # the model through a pipe (FilePiece falls back to read()), the vocabulary as a file
                    cmd = "cat %s | %s %s %s %s vocab:%s %s" % (model, exe, " ".join(mode), fmt, opts, voc, thrp)
                else:
                    cmd = "exec %s %s %s %s model:%s %s < %s" % (exe, " ".join(mode), fmt, opts, model, thrp, voc)
                limit = max(15.0, 50 * t1)
                e = dict(os.environ)
                if env:
                    e.update(env)
                p = subprocess.Popen(["sh", "-c", cmd], stdout=subprocess.PIPE, stderr=subprocess.PIPE, env=e, start_new_session=True)
                try:
                    communicate_progress(p, limit)
                    rc = p.returncode
                except subprocess.TimeoutExpired:
                    try:
                        os.killpg(p.pid, 9)
                    except OSError:
                        pass
                    p.communicate()
                    rc = 124
                runs += 1
                got = read_outputs(thrp, nout)
                what = None
                if rc == 124:
                    what = ("hang", "%s did not terminate within %.0f s (threads:1 took %.2f s)" % (opts, limit, t1))
                elif rc != rc1:
                    what = ("exit-status", "%s exits %d, threads:1 exits %d" % (opts, rc, rc1))
                elif got != ref:
                    which = [i for i, (a, bb) in enumerate(zip(got, ref)) if a != bb]
                    what = ("output-differs", "%s: output file(s) %s differ from the threads:1 result" % (opts, which))
                if what:
                    bad = (what, cmd, cmdref, exe, env, k, b, rep)
                    break
            if bad:
                break
        if bad:
            what, cmd, cmdref, exe, env, k, b, rep = bad
            keep = os.path.join(ctx.replay_dir, "bigfiles-%d-%d" % (ctx.seed, len(fails)))
            os.makedirs(keep, exist_ok=True)
            shutil.copy(model, keep)
            shutil.copy(voc, keep)
            fails.append(("filter:%s:%s:%s" % (fmt, "+".join(mode), what[0]), what[1] + " (input larger than the reader's window; run %d of the configuration)" % (rep + 1),
                          {"cmd": cmd.replace(d, keep).replace(exe, "bin/filter" if exe == stock else "c12_filter_jitter"), "reference_cmd": cmdref.replace(d, keep).replace(stock, "bin/filter"),
                           "env": env, "files": keep, "model": os.path.join(keep, os.path.basename(model)), "vocab": os.path.join(keep, os.path.basename(voc)),
                           "args": mode + [fmt], "threads": k, "batch_size": b if b is not None else 25000, "nout": nout, "model_bytes": os.path.getsize(model),
                           "note": "scheduling dependent: replay repeats the run"}))
    return fails, runs, os.path.getsize(arpa)


def run_filter(cmd, limit, env=None):
    """sh -c cmd in its own process group under a wall-clock limit; returns (rc, stderr); rc 124 = did not terminate"""
    e = dict(os.environ)
    if env:
        e.update(env)
    p = subprocess.Popen(["sh", "-c", cmd], stdout=subprocess.PIPE, stderr=subprocess.PIPE, env=e, start_new_session=True)
    try:
        o, err = communicate_progress(p, limit)
        return p.returncode, err.decode("utf-8", "replace")
    except subprocess.TimeoutExpired:
        try:
            os.killpg(p.pid, 9)
        except OSError:
            pass
        o, err = p.communicate()
        return 124, err.decode("utf-8", "replace")


def huge_batch_checks(ctx, stock):
    """batch_size far above the default (70000 .. 200000) with sections larger than that, made mostly of SHORT lines (<= 15 bytes:
    the std::string small-buffer case, where the characters live inside the InputBuffer's vector element) mixed with long ones;
    raw and ARPA; stock build and the AddressSanitizer variant.  Oracle: threaded output = threads:1 output, same exit status,
    no sanitizer report."""
    rng = ctx.rng.fork()
    d = os.path.join(ctx.scratch, "huge")
    os.makedirs(d, exist_ok=True)
    short = ["%c%d" % (chr(97 + i % 26), i % 10) for i in range(260)]          # 2-byte words
    keep = set(short[:130])
    longw = ["longword%04d" % i for i in range(50)]
    nlines = ctx.pick(230000, 450000)
    raw, arpa = os.path.join(d, "short.raw"), os.path.join(d, "short.arpa")
    with open(raw, "w") as g, open(arpa, "w") as f:
        uni = ["<unk>", "<s>", "</s>"] + short + longw
        f.write("\\data\\\nngram 1=%d\nngram 2=%d\n\n\\1-grams:\n" % (len(uni), nlines))
        for w in uni:
            f.write("-1.5\t%s\t-0.5\n" % w)
        f.write("\n\\2-grams:\n")
        for i in range(nlines):
            r = rng.below(10)
            if r < 6:
                a, b = short[rng.below(130)], short[rng.below(130)]       # kept, 7..9 byte line
            elif r < 8:
                a, b = short[rng.below(260)], short[130 + rng.below(130)]  # removed, short
            else:
                a, b = longw[rng.below(50)], short[rng.below(260)]        # removed, long (heap string)
            g.write("%s %s\t%d\n" % (a, b, rng.range(1, 9)))
            f.write("-0.5\t%s %s\n" % (a, b))
        f.write("\n\\end\\\n")
    vocab = os.path.join(d, "vocab.txt")
    open(vocab, "w").write(" ".join(sorted(keep)) + "\n" + " ".join(sorted(keep)[:60]) + "\n")
    try:
        asan = vlib.tool("filter", variant="asan")
    except vlib.InfraError:
        asan = None
    fails, runs = [], 0
    plans = [(["single"], "raw"), (["union"], "arpa"), (["single"], "arpa"), (["multiple"], "raw"), (["union", "context"], "raw")]
    rng.shuffle(plans)
    for mode, fmt in plans[:ctx.pick(2, 5)]:
        if fails:
            break
        model = raw if fmt == "raw" else arpa
        multi = mode[0] == "multiple"
        nout = 2 if multi else 1
        refp = os.path.join(d, "ref.")
        for f in os.listdir(d):
            if f.startswith("ref.") or f.startswith("thr."):
                os.remove(os.path.join(d, f))
        cmdref = "exec %s %s %s threads:1 model:%s %s < %s" % (stock, " ".join(mode), fmt, model, refp, vocab)
        t0 = time.time()
        rc1, _ = run_filter(cmdref, 120)
        t1 = time.time() - t0
        runs += 1
        ref = read_outputs(refp, nout)
        cfgs = [(2, 70000), (2, 100000), (4, 100000), (3, 200000), (2, 200000), (4, 65537), (8, 70000)]
        rng.shuffle(cfgs)
        todo = [(stock, k, b) for k, b in cfgs[:ctx.pick(2, 4)]]
        if asan:
            todo += [(asan, k, b) for k, b in cfgs[-ctx.pick(1, 2):]]
        for exe, k, b in todo:
            for f in os.listdir(d):
                if f.startswith("thr."):
                    os.remove(os.path.join(d, f))
            thrp = os.path.join(d, "thr.")
            cmd = "exec %s %s %s threads:%d batch_size:%d model:%s %s < %s" % (exe, " ".join(mode), fmt, k, b, model, thrp, vocab)
            rc, err = run_filter(cmd, max(60.0, 80 * t1), env={"ASAN_OPTIONS": "detect_leaks=0"})
            runs += 1
            got = read_outputs(thrp, nout)
            what = None
            if "ERROR: AddressSanitizer" in err:
                what = ("asan", "AddressSanitizer: %s" % (err[err.index("ERROR: AddressSanitizer"):].split("\n")[0][:200]))
            elif rc == 124:
                what = ("hang", "did not terminate")
            elif rc != rc1 and not (exe == asan and rc1 == 0 and rc == 0):
                what = ("exit-status", "exits %d, threads:1 exits %d" % (rc, rc1))
            elif got != ref:
                which = [i for i, (a, bb) in enumerate(zip(got, ref)) if a != bb]
                what = ("output-differs", "output file(s) %s differ from the threads:1 result (%s vs %s bytes)" %
                        (which, [len(x) if x is not None else None for x in got], [len(x) if x is not None else None for x in ref]))
            if what:
                keepd = os.path.join(ctx.replay_dir, "hugefiles-%d-%d" % (ctx.seed, len(fails)))
                os.makedirs(keepd, exist_ok=True)
                shutil.copy(model, keepd)
                shutil.copy(vocab, keepd)
                fails.append(("filter:%s:%s:huge-batch:%s" % (fmt, "+".join(mode), what[0]),
                              "threads:%d batch_size:%d (section of %d mostly short lines)%s: %s" % (k, b, nlines, " [asan build]" if exe == asan else "", what[1]),
                              {"cmd": cmd.replace(d, keepd).replace(exe, "<asan build>/bin/filter" if exe == asan else "bin/filter"),
                               "reference_cmd": cmdref.replace(d, keepd).replace(stock, "bin/filter"), "files": keepd,
                               "model": os.path.join(keepd, os.path.basename(model)), "vocab": os.path.join(keepd, os.path.basename(vocab)),
                               "args": mode + [fmt], "threads": k, "batch_size": b, "nout": nout, "stderr_tail": err[-1500:]}))
                break
    return fails, runs


def very_large_batch_checks(ctx, stock):
    """The property ranges over batch_size 1..large: batch sizes around and far above 2^20 with threads >= 2 on a small model
    (a batch only *reserves* batch_size entries per buffer -- about 90 bytes each, untouched -- so these sizes cost address space,
    not memory).  Runs under an address-space limit; a refused allocation (std::bad_alloc) is not a verdict.  Oracle unchanged:
    output and exit status equal to threads:1, no crash, no hang."""
    rng = ctx.rng.fork()
    d = os.path.join(ctx.scratch, "vlarge")
    os.makedirs(d, exist_ok=True)
    inp = gen_tool_input(rng, d, 0)
    sizes = [1 << 20, (1 << 20) + 1, 1500000, 2000000, 3000000, 1 << 22]
    plans = [(["union"], inp["vocab"]), (["single"], inp["vocab"]), (["multiple"], inp["vocab"]), (["union", "phrase", "context"], inp["pvocab"])]
    rng.shuffle(plans)
    fails, runs, skipped = [], 0, 0
    for mode, voc in plans[:ctx.pick(2, 4)]:
        multi = mode[0] == "multiple"
        nout = inp["nsent"] if multi else 1
        args = mode + [inp["fmt"]]
        refp = os.path.join(d, "ref.")
        for f in os.listdir(d):
            if f.startswith("ref.") or f.startswith("thr."):
                os.remove(os.path.join(d, f))
        b1 = rng.choice(sizes)
        cmdref = "exec %s %s threads:1 batch_size:%d model:%s %s < %s" % (stock, " ".join(args), b1, inp["model"], refp, voc)
        rc1, _ = run_filter(cmdref, 60)
        runs += 1
        ref = read_outputs(refp, nout) if multi else [open(refp, "rb").read() if os.path.exists(refp) else None]
        cfgs = [(k, b) for k in (2, 3) for b in sizes]
        rng.shuffle(cfgs)
        cfgs = [(2, (1 << 20) + 1)] + cfgs if mode == plans[0][0] else cfgs
        for k, b in cfgs[:ctx.pick(4, 10)]:
            for f in os.listdir(d):
                if f.startswith("thr."):
                    os.remove(os.path.join(d, f))
            thrp = os.path.join(d, "thr.")
            cmd = "ulimit -v 12000000; exec %s %s threads:%d batch_size:%d model:%s %s < %s" % (stock, " ".join(args), k, b, inp["model"], thrp, voc)
            rc, err = run_filter(cmd, 60)
            runs += 1
            if "bad_alloc" in err or "annot allocate" in err:
                skipped += 1          # the sandbox refused the reservation: no verdict
                continue
            got = read_outputs(thrp, nout) if multi else [open(thrp, "rb").read() if os.path.exists(thrp) else None]
            what = None
            if rc == 124:
                what = ("hang", "did not terminate")
            elif rc != rc1:
                what = ("exit-status", "exits %d, threads:1 exits %d" % (rc, rc1))
            elif got != ref:
                what = ("output-differs", "output differs from the threads:1 result")
            if what:
                keepd = os.path.join(ctx.replay_dir, "vlargefiles-%d-%d" % (ctx.seed, len(fails)))
                os.makedirs(keepd, exist_ok=True)
                shutil.copy(inp["model"], keepd)
                shutil.copy(voc, keepd)
                fails.append(("filter:%s:%s:very-large-batch:%s" % (inp["fmt"], "+".join(mode), what[0]),
                              "threads:%d batch_size:%d on a small model: %s" % (k, b, what[1]),
                              {"cmd": cmd.replace(d, keepd).replace(stock, "bin/filter"), "reference_cmd": cmdref.replace(d, keepd).replace(stock, "bin/filter"),
                               "files": keepd, "model": os.path.join(keepd, os.path.basename(inp["model"])), "vocab": os.path.join(keepd, os.path.basename(voc)),
                               "args": args, "threads": k, "batch_size": b, "nout": nout, "stderr_tail": err[-800:]}))
                break
        if fails:
            break
    return fails, runs, skipped


def output_fault_checks(ctx, stock):
    """The output device fails while the filter runs: /dev/full (every write: ENOSPC) and a regular file under a small `ulimit -f`
    with SIGXFSZ ignored (EFBIG part-way).  The property's oracle: the run terminates for every thread count (the limit is the
    observation), and fails like the single-threaded run (zero / non-zero exit alike)."""
    rng = ctx.rng.fork()
    d = os.path.join(ctx.scratch, "fault")
    os.makedirs(d, exist_ok=True)
    words = ["w%03d" % i for i in range(400)]
    nl = 30000
    raw, arpa = os.path.join(d, "f.raw"), os.path.join(d, "f.arpa")
    with open(raw, "w") as g, open(arpa, "w") as f:
        f.write("\\data\\\nngram 1=%d\nngram 2=%d\n\n\\1-grams:\n" % (len(words) + 3, nl))
        for w in ["<unk>", "<s>", "</s>"] + words:
            f.write("-1.5\t%s\t-0.5\n" % w)
        f.write("\n\\2-grams:\n")
        for _ in range(nl):
            a, b = words[rng.below(400)], words[rng.below(400)]
            g.write("%s %s\t%d\n" % (a, b, rng.range(1, 99)))
            f.write("-0.5\t%s %s\n" % (a, b))
        f.write("\n\\end\\\n")
    vocab = os.path.join(d, "vocab.txt")
    open(vocab, "w").write(" ".join(words[:300]) + "\n" + " ".join(words[100:400]) + "\n")
    faults = [("dev-full", ["single"], "raw"), ("dev-full", ["union"], "arpa"), ("fsize-limit", ["union"], "raw"), ("fsize-limit", ["multiple"], "arpa"),
              ("fsize-limit", ["single", "context"], "arpa"), ("dev-full", ["union", "context"], "raw")]
    rng.shuffle(faults)
    fails, runs = [], 0
    for kind, mode, fmt in faults[:ctx.pick(3, 6)]:
        model = raw if fmt == "raw" else arpa
        res = {}
        cmds = {}
        for k in (1, 2, 4):
            b = rng.choice([1000, 5000, 200])
            if kind == "dev-full":
                cmd = "exec %s %s %s threads:%d batch_size:%d model:%s /dev/full < %s" % (stock, " ".join(mode), fmt, k, b, model, vocab)
            else:
                outp = os.path.join(d, "lim%d." % k)
                cmd = "trap '' XFSZ; ulimit -f 64; exec %s %s %s threads:%d batch_size:%d model:%s %s < %s" % (stock, " ".join(mode), fmt, k, b, model, outp, vocab)
            rc, err = run_filter(cmd, 12)
            runs += 1
            res[k], cmds[k] = rc, cmd
            for f in os.listdir(d):
                if f.startswith("lim"):
                    os.remove(os.path.join(d, f))
        bad = [k for k in (2, 4) if res[k] == 124 and res[1] != 124] + [k for k in (2, 4) if res[k] != 124 and (res[k] == 0) != (res[1] == 0)]
        if res[1] == 124:
            bad = [1]
        if bad:
            k = bad[0]
            keepd = os.path.join(ctx.replay_dir, "faultfiles-%d-%d" % (ctx.seed, len(fails)))
            os.makedirs(keepd, exist_ok=True)
            shutil.copy(model, keepd)
            shutil.copy(vocab, keepd)
            what = "did not terminate within 12 s" if res[k] == 124 else "exits %d" % res[k]
            fails.append(("filter:%s:%s:output-fault:%s:%s" % (fmt, "+".join(mode), kind, "hang" if res[k] == 124 else "exit-status"),
                          "output %s: threads:%d %s, threads:1 exits %d (exit codes by thread count: %s)" %
                          ("to /dev/full" if kind == "dev-full" else "file under ulimit -f 64 with SIGXFSZ ignored", k, what, res[1], res),
                          {"fault_cmds": {str(kk): cmds[kk].replace(d, keepd).replace(stock, "bin/filter") for kk in cmds}, "files": keepd, "exit_codes": res,
                           "how": "run each command under `timeout 12`; 124 = hang"}))
            break
    return fails, runs


def tsan_checks(ctx, inputs_dir_seed):
    """The threaded filter under ThreadSanitizer (variant build of the tree under test): the protocol model assumes that a batch,
    and every filter object, is touched by one thread at a time; a reported data race is an interleaving-dependent defect
    even when this particular run's output is right.  Medium-sized model so that many batches are in flight."""
    try:
        exe = vlib.tool("filter", variant="tsan")
    except vlib.InfraError as e:
        return [], 0, "tsan build unavailable: %s" % str(e)[:200]
    rng = ctx.rng.fork()
    d = os.path.join(ctx.scratch, "tsan")
    os.makedirs(d, exist_ok=True)
    words = ["w%04d" % i for i in range(3000)]
    nb = 20000
    arpa, raw = os.path.join(d, "m.arpa"), os.path.join(d, "m.raw")
    with open(arpa, "w") as f, open(raw, "w") as g:
        f.write("\\data\\\nngram 1=%d\nngram 2=%d\n\n\\1-grams:\n" % (len(words) + 3, nb))
        for w in ["<unk>", "<s>", "</s>"] + words:
            f.write("-1.5\t%s\t-0.5\n" % w)
        f.write("\n\\2-grams:\n")
        for _ in range(nb):
            a, b = words[rng.below(300)], words[rng.below(3000)]
            f.write("-0.5\t%s %s\n" % (a, b))
            g.write("%s %s\t7\n" % (a, b))
        f.write("\n\\end\\\n")
    vocab, pvocab = os.path.join(d, "v.txt"), os.path.join(d, "pv.txt")
    with open(vocab, "w") as f, open(pvocab, "w") as pf:
        for _ in range(3):
            ws = [words[rng.below(300)] for _ in range(100)]
            f.write(" ".join(ws) + "\n")
            pf.write("\t".join(" ".join(ws[i:i + 2]) for i in range(0, len(ws), 2)) + "\n")
    modes = [(["union", "context"], "arpa"), (["multiple", "context"], "arpa"), (["multiple", "phrase", "context"], "arpa"), (["union", "phrase", "context"], "raw"),
             (["single"], "arpa"), (["multiple"], "raw"), (["union", "phrase"], "arpa"), (["single", "context"], "arpa")]
    rng.shuffle(modes)
    fails, runs = [], 0
    for mode, fmt in modes[:ctx.pick(5, 8)]:
        k, b = rng.choice([(2, 100), (4, 50), (4, 200), (8, 25), (3, 1000)])
        model = arpa if fmt == "arpa" else raw
        voc = pvocab if "phrase" in mode else vocab
        cmd = "exec %s %s %s threads:%d batch_size:%d model:%s %s < %s" % (exe, " ".join(mode), fmt, k, b, model, os.path.join(d, "o."), voc)
        rc, o, e = vlib.sh(["timeout", "120", "sh", "-c", cmd], timeout=130, env={"TSAN_OPTIONS": "halt_on_error=0 report_signal_unsafe=0"})
        runs += 1
        if "WARNING: ThreadSanitizer: data race" in e:
            rep = e[e.index("WARNING: ThreadSanitizer: data race"):][:3000]
            keep = os.path.join(ctx.replay_dir, "tsanfiles-%d-%d" % (ctx.seed, len(fails)))
            os.makedirs(keep, exist_ok=True)
            shutil.copy(model, keep)
            shutil.copy(voc, keep)
            fails.append(("filter:tsan:data-race", "ThreadSanitizer reports a data race in `filter %s %s threads:%d batch_size:%d` (%d reports): two threads touch the same "
                          "filter / batch memory without ordering, so the output depends on the interleaving" % (" ".join(mode), fmt, k, b, e.count("WARNING: ThreadSanitizer")),
                          {"tsan_cmd": cmd.replace(d, keep).replace(exe, "<tsan build>/bin/filter"), "files": keep, "report": rep,
                           "how": "build variant 'tsan' (vlib.tool('filter', variant='tsan')), run the command, read stderr"}))
            break
    return fails, runs, None


# ---------------------------------------------------------------------------------------------
def corpus_cases():
    p = os.path.join(vlib.ROOT, "corpus", "C12", "cases.txt")
    return [l.rstrip("\n") for l in open(p) if l.strip() and not l.startswith("#")] if os.path.exists(p) else []


def run(ctx):
    pres = vlib.coq_prove("C12")
    ctx.set_proof(pres)
    exe = vlib.compile_driver("c12_driver", DRIVER, libs=LIBS)
    jitter = vlib.compile_driver("c12_filter_jitter", JITTER, libs=LIBS)
    stock = vlib.tool("filter")
    cases = corpus_cases()
    ctx.count("corpus_cases", len(cases))
    cases += gen_ctl(ctx.rng, ctx.pick(250, 6000))
    iout = run_lines_restart(exe, cases)
    while len(iout) < len(cases):
        iout.append("<no answer>")
    spec_fail = []
    for c, o in zip(cases, iout):
        m = oracle_ctl(c, o)
        if m:
            sig = "controller:" + ("hang" if o.startswith("HANG") else "driver-died" if o.startswith("DRIVER") else "output-differs-from-sequential")
            spec_fail.append((sig, m, {"case": c, "impl_output": o[:1500], "expected": " ".join(sequential_events(c))[:1500],
                                       "how": "echo '<case>' | c12_driver (harness/drivers/c12_driver.cc)"}))
    mismatches, model_broken = [], None
    try:
        model = vlib.ocaml_model("C12")
        mout = vlib.run_lines(model, cases)
        for c, a, b in zip(cases, iout, mout):
            if a != b and a != "SKIPPED":
                mismatches.append((c, a, b))
    except vlib.ModelBroken as e:
        model_broken = str(e)
    tfails, truns, tnon, dist = tool_checks(ctx, stock, jitter, ctx.pick(4, 40))
    bfails, bruns, bbytes = big_tool_checks(ctx, stock, jitter)
    tfails += bfails
    truns += bruns
    tnon += bruns
    hfails, hruns = huge_batch_checks(ctx, stock)
    vfails, vruns, vskipped = very_large_batch_checks(ctx, stock)
    tfails += vfails
    truns += vruns
    ctx.coverage["very_large_batch_runs"] = vruns
    ctx.coverage["very_large_batch_runs_without_verdict_allocation_refused"] = vskipped
    ofails, oruns = output_fault_checks(ctx, stock)
    tfails += hfails + ofails
    truns += hruns + oruns
    ctx.coverage["huge_batch_runs"] = hruns
    ctx.coverage["output_fault_runs"] = oruns
    sfails, sruns, snote = tsan_checks(ctx, None)
    tfails += sfails
    truns += sruns
    ctx.coverage["tsan_runs"] = sruns
    if snote:
        ctx.coverage["tsan_note"] = snote
    ctx.coverage["big_input_runs"] = bruns
    ctx.coverage["big_input_bytes"] = bbytes
    nontriv = {c for c in cases if ctl_nontrivial(c)}
    ctx.count("evaluations", len(cases) + truns)
    ctx.coverage["distinct_nontrivial"] = len(nontriv) + tnon
    ctx.coverage["rule"] = ("evaluations = Controller-level cases (real lm::Controller, real threads, seeded jitter) + bin/filter runs.  Non-trivial: a "
                            "Controller case with more lines than 2*threads*batch_size (some batch object is recycled), or a tool run in which some "
                            "section size is a multiple of batch_size or exceeds 2*threads*batch_size.  Distinct = distinct case line / distinct "
                            "(input, mode, threads, batch_size).")
    ctx.coverage["controller_cases"] = len(cases)
    ctx.coverage["tool_runs"] = truns
    ctx.coverage["tool_mode_distribution"] = dist
    ctx.coverage["traces_validated_against_impl"] = len(cases) - len(mismatches)
    ctx.coverage["input_distribution"] = ("Controller: threads 2..8, batch_size 1..5, 1..4 sections (or one raw section) of size in {0, b-1, b, b+1, 2b, Qb, Qb+1, (Q+1)b, random}, "
                                          "lines of equal length in 2/3 of the cases, calls all / single / mixed / sparse over 1..3 outputs.  Tool: ARPA order 1..3 or raw counts, "
                                          "3..16 words, 1..3 sentences, section sizes aimed at multiples of 1..12; threads 2..8 x batch_size in {1,2,3, section size, +-1, 5000, 25000}; "
                                          "2/3 of the threaded runs with jitter at the PCQueue scheduling points; plus one ~2.5 MB model (> 2 FilePiece windows) in 8-11 mode/format combinations x threads 2..8 x batch 7..25000 x 2-4 repetitions (file and pipe input), 5-8 runs of a ThreadSanitizer build, batch sizes 65537..200000 on a 230000-line section of mostly <= 15-byte lines (stock and AddressSanitizer builds), output faults (/dev/full, ulimit -f) for threads 1, 2, 4, and batch sizes 2^20 .. 2^22 with threads 2, 3 on a small model")
    for c, o in list(zip(cases, iout))[:3]:
        ctx.sample({"case": c[:300], "impl": o[:300]})
    ctx.assumptions += ["PCQueue delivers every batch exactly once (property C17); boost primitives, sequential consistency",
                        "a FilterWorker / the OutputWorker owns a batch exclusively between Consume and Produce (ownership transfer through queues); data races on other memory are not modelled",
                        "the bag-of-in-flight-batches model over-approximates every interleaving of FilterWorkers and queues; the refinement from the queue-level system to it is argued, not proved",
                        "filters call either AddNGram(line) once or SingleAddNGram(o, line) for distinct o, never both, for one line (true of vocab::Multiple, phrase::Multiple, BinaryFilter by inspection)",
                        "schedules of the real threads are perturbed by seeded jitter, not enumerated",
                        "what a FilterWorker decides for a line depends only on the batch's own copy of the line and on that worker's own filter object (memory "
                        "ownership is assumed by the model; exercised by the reader window that is overwritten, the scratch-state filter behind lm::ContextFilter, "
                        "inputs larger than the FilePiece window, and the ThreadSanitizer build)"]
    for sig, what, rep in spec_fail[:4]:
        ctx.report(sig, what, rep)
    for sig, what, rep in tfails[:10]:
        ctx.report(sig, what, rep)
    if not spec_fail and not tfails:
        if mismatches:
            c, a, b = mismatches[0]
            ctx.report("correspondence:controller", "extracted model and lm::Controller disagree (the specification oracle accepts the implementation's output)",
                       {"correspondence": "C12 extracted model vs c12_driver", "case": c, "impl": a[:1500], "model": b[:1500], "n_mismatches": len(mismatches)}, found=False)
        elif model_broken:
            ctx.report("model-broken", "executable model no longer builds", {"log": model_broken[-2000:]}, found=False)

        def search():
            wide = gen_ctl(ctx.rng.fork(), 3000)
            wo = run_lines_restart(exe, wide)
            found = False
            for c, o in zip(wide, wo):
                m = oracle_ctl(c, o)
                if m:
                    ctx.report("controller:output-differs-from-sequential", m, {"case": c, "impl_output": o[:1500], "found_by": "search after broken proof"})
                    found = True
                    break
            return found
        ctx.report_proof(pres, search=search)
    ctx.coverage["spec_oracle_failures"] = len(spec_fail) + len(tfails)
    ctx.coverage["correspondence_mismatches"] = len(mismatches)


def replay(ctx, obj):
    r = obj["replay"]
    if "case" in r:
        exe = vlib.compile_driver("c12_driver", DRIVER, libs=LIBS)
        bad = 0
        for rep in range(20):      # scheduling is perturbed, not controlled: repeat with different jitter seeds
            f = r["case"].split()
            f[3] = str(int(f[3]) + rep)
            c = " ".join(f)
            o = run_lines_restart(exe, [c])[0]
            m = oracle_ctl(c, o)
            if m:
                print("case:", c, "\nimpl:", o[:1000], "\noracle:", m)
                bad = 1
                break
        if not bad:
            print("20 repetitions with different jitter seeds: output equals the sequential filter")
        return bad
    if "cmd" in r:
        stock = vlib.tool("filter")
        jitter = vlib.compile_driver("c12_filter_jitter", JITTER, libs=LIBS)
        d = ctx.scratch
        n = r["nout"]
        multi = r["args"][0] == "multiple"
        refp, thrp = os.path.join(d, "ref."), os.path.join(d, "thr.")
        vlib.sh(["timeout", "30", "sh", "-c", "exec %s %s threads:1 model:%s %s < %s" % (stock, " ".join(r["args"]), r["model"], refp, r["vocab"])], timeout=40)
        ref = read_outputs(refp, n) if multi else [open(refp, "rb").read() if os.path.exists(refp) else None]
        for rep in range(10):
            exe = jitter if rep else stock
            rc, o, e = vlib.sh(["timeout", "20", "sh", "-c", "exec %s %s threads:%d batch_size:%d model:%s %s < %s" % (exe, " ".join(r["args"]), r["threads"], r["batch_size"], r["model"], thrp, r["vocab"])],
                               timeout=30, env={"KPU_VERIF_JITTER": str(rep + 1)})
            got = read_outputs(thrp, n) if multi else [open(thrp, "rb").read() if os.path.exists(thrp) else None]
            if rc == 124 or got != ref:
                print("threads:%d batch_size:%d: %s" % (r["threads"], r["batch_size"], "hang" if rc == 124 else "output differs from threads:1"))
                return 1
        print("10 repetitions: identical to threads:1")
        return 0
    if "tsan_cmd" in r:
        exe = vlib.tool("filter", variant="tsan")
        cmd = r["tsan_cmd"].replace("<tsan build>/bin/filter", exe).replace(os.path.join(r["files"], "o."), os.path.join(ctx.scratch, "o."))
        rc, o, e = vlib.sh(["timeout", "120", "sh", "-c", cmd], timeout=130, env={"TSAN_OPTIONS": "halt_on_error=0 report_signal_unsafe=0"})
        n = e.count("WARNING: ThreadSanitizer: data race")
        print("%d data race reports" % n)
        if n:
            print(e[e.index("WARNING: ThreadSanitizer: data race"):][:1500])
        return 1 if n else 0
    print("no concrete input in this replay file:", obj.get("what"))
    return 1
