"""C05 -- lmplz computes interpolated modified Kneser-Ney estimates (DESIGN.md section 4, C05).

proof step      : coq/C05 (kn_spec over Q, streaming AdjustCounts model, refinement, refuted witnesses)
correspondence  : extracted model (ocaml/c05_driver.ml) against `lmplz --arpa` at tool level
spec oracle     : kn.kn_oracle -- an independent exact-fraction Kneser-Ney written from the property text
"""
import json
import os

import vlib
import kn

CORPUS_DIR = os.path.join(vlib.ROOT, "corpus", "C05")


def corpus_cases():
    out = []
    if os.path.isdir(CORPUS_DIR):
        for f in sorted(os.listdir(CORPUS_DIR)):
            if f.endswith(".json"):
                c = kn.Case.from_json(json.load(open(os.path.join(CORPUS_DIR, f))))
                c.tag = "corpus:" + f
                out.append(c)
    return out


def borderline(ids, case, prune):
    """float32 and exact arithmetic disagree on whether some order's closed-form discounts are in range (a genuine
    rounding artefact, e.g. exact D2 = 0 computed as -2.4e-7).  A discount that is exactly on the boundary in BOTH
    arithmetics (D2 = 0 for n = 2,3,8; D3 = 3 for n4 = 0) is NOT borderline: the closed form must be used."""
    return kn.rounding_borderline(ids, case.order)


def judge(case, run, model_out):
    """-> (oracle_failure, correspondence_failure, info).  Each failure is None or (signature, message)."""
    info = {"accepted": False}
    sents = kn.tokenize(case.data)
    numbered = kn.number(sents, case.skip)
    prune = kn.pad_prune(case.prune, case.order)
    # ---- documented refusals that do not depend on the estimate
    if prune is None:
        info["kind"] = "prune-rejected"
        ok_impl = run.refused in ("prune-order", "prune-len")
        ok_model = model_out.startswith("REJECT-PRUNING") or numbered is None
        return (None if ok_impl else ("spec:prune-order-accepted", "pruning thresholds %s are decreasing or too many for order %d, lmplz exit status %d"
                                      % (case.prune, case.order, run.rc)),
                None if ok_model else ("correspondence:parse-pruning", "model answered %r" % model_out[:80]), info)
    if numbered is None:
        info["kind"] = "special-token-refused"
        ok = run.refused == "special-token"
        return (None if ok else ("spec:special-token-accepted", "the corpus contains <s>, </s> or <unk> and --skip_symbols is off; lmplz exit status %d" % run.rc), None, info)
    if run.refused == "memory" and case.mem:
        # the memory configuration itself is refused (documented: estimate or block minimum above -S): nothing was estimated
        info["kind"] = "memory-config-refused"
        return None, None, info
    ids, words = numbered
    clean = [[w for w in s if w > 2] for s in ids]
    allowed = None
    if case.limit is not None:
        index = {w: i for i, w in enumerate(words)}
        allowed = {index[w] for w in case.limit if w in index}
    fb = None
    if case.fallback is not None:
        from fractions import Fraction
        vals = case.fallback or [0.5, 1, 1.5]
        fb = [Fraction(kn.F32(vals[i] if i < len(vals) else vals[-1])) for i in range(3)]
    bl = borderline(clean, case, prune)
    if bl:
        # float32 and exact arithmetic disagree on the range test of some order's closed form: judge lmplz against the estimate
        # that takes the closed-form-or-fallback decision from the float32 test (everything else exact); the extracted model
        # (exact decision) is not compared on such a case
        force = [kn.float32_closed_form(n) is not None for n in kn.count_of_counts(clean, case.order)]
        oracle = kn.kn_oracle(clean, case.order, prune, allowed, case.interp, fb, force_closed=force)
        model_out = None
        info["borderline"] = True
    else:
        oracle = kn.kn_oracle(clean, case.order, prune, allowed, case.interp, fb)
    model = kn.parse_model(model_out) if model_out is not None else ("not-run",)
    corr = None
    if model_out is None:
        pass
    elif model[0] != oracle[0] or (model[0] == "refused" and model[1] != oracle[1]):
        corr = ("correspondence:refusal", "model %s, independent oracle %s" % (model[:2], oracle[:2]))
    # ---- refusal because the closed-form discounts do not exist
    if oracle[0] == "refused":
        info["kind"] = "discount-refused"
        if run.refused == "discount" and run.refused_order == oracle[1]:
            return None, corr, info
        return (("spec:refusal", "no closed-form discount exists for order %d and no fallback was given, lmplz: exit status %d refused=%s order=%s"
                 % (oracle[1], run.rc, run.refused, run.refused_order)), corr, info)
    if run.rc != 0 or run.arpa_path is None:
        return (("spec:not-built", "the estimate exists (discounts %s) but lmplz failed: exit status %d refused=%s: %s"
                 % ([[float(x) for x in d] for d in oracle[2]], run.rc, run.refused, run.err[-300:])), corr, info)
    info["accepted"] = True
    info["kind"] = "built"
    try:
        header, orders = kn.parse_arpa(run.arpa_path)
    except (ValueError, IndexError) as e:
        return (("spec:arpa-syntax", "the ARPA file does not parse: %s" % e), corr, info)
    info["ngrams"] = sum(len(o) for o in orders)
    ren = kn.renumbering(words) if (case.renumber or case.intermediate) else None
    # ---- oracle against the file
    ofail = None
    msg = kn.compare_discounts(run.stats, oracle[2])
    if msg:
        ofail = ("spec:discounts", msg)
    if not ofail and header != oracle[1]:
        ofail = ("spec:header-counts", "header counts %s, estimate has %s n-grams per order" % (header, oracle[1]))
    if not ofail:
        exact = []
        for k in range(1, case.order + 1):
            gs = kn.suffix_sorted(oracle[3][k].keys())
            exact.append([(g, oracle[3][k][g][0], oracle[3][k][g][1]) for g in gs])
        msg = kn.compare_with_exact(orders, words, exact, what="estimate", ren=ren)
        if msg:
            cls = "line-order" if "line order" in msg else "ngram-set" if "sets differ" in msg or "not in the corpus" in msg else \
                "backoff" if "back-off" in msg else "probability"
            ofail = ("spec:" + cls, msg)
    # ---- extracted model against the file
    if corr is None and model[0] == "built":
        msg = kn.compare_discounts(run.stats, model[2]) or (None if header == model[1] else "header counts %s, model %s" % (header, model[1])) or \
            kn.compare_with_exact(orders, words, model[3], what="model", ren=ren)
        if msg:
            corr = ("correspondence:" + ("discounts" if "printed D" in msg else "arpa"), msg)
    info["pruned"] = any(oracle[1][k] < len(o) for k, o in enumerate([[1] * c for c in run_counts(run)]))
    info["fallback_used"] = ("Substituting fallback discounts" in run.err)
    return ofail, corr, info


def run_counts(run):
    return [s[1] for s in run.stats]


def check_cases(ctx, cases, lmplz, model):
    """runs everything; returns list of (case, run, ofail, corr, info)"""
    lines = []
    prepared = []
    for c in cases:
        sents = kn.tokenize(c.data)
        numbered = kn.number(sents, c.skip)
        if c.tag.startswith("gen:wide"):
            lines.append("NOP")           # too wide for the quadratic exact model: oracles only
        elif numbered is None:
            lines.append("PRUNE %d %s" % (c.order, "-" if not c.prune else ",".join("%x" % x for x in c.prune)))
        else:
            lines.append(kn.model_line("I", c, numbered[0], numbered[1]))
    mout = vlib.run_lines(model, lines, timeout=ctx.pick(600, 3000)) if model else ["MODEL-BROKEN"] * len(lines)
    res = []
    hangs = 0
    for i, (c, mo) in enumerate(zip(cases, mout)):
        if hangs >= 2:
            break          # lmplz keeps hanging: reported below, the remaining runs would only burn the time budget
        run = kn.run_lmplz(lmplz, c, ctx.scratch, i, tmo=ctx.pick(30, 120))
        if run.hung:
            hangs += 1
            ctx.report("spec:no-termination", "lmplz does not terminate (killed after %d s; corpora of this size take well under a second)" % ctx.pick(30, 120),
                       {"case": c.to_json(), "lmplz_cmd": " ".join(run.cmd), "stderr_tail": run.err[-300:]})
        try:
            if c.tag.startswith("gen:wide"):
                ofail, corr, info = judge(c, run, None)
            elif model is None:
                # the model does not build: judge with the oracle only
                ofail, corr, info = judge(c, run, "REFUSED 0")
                corr = None
            else:
                ofail, corr, info = judge(c, run, mo)
        except ValueError as e:
            ofail, corr, info = None, ("correspondence:model-output", str(e)), {"accepted": False, "kind": "model-error"}
        kn.cleanup(run)
        res.append((c, run, ofail, corr, info))
    return res


def adjf_line(case):
    """component case: the sorted padded order-N n-grams of the corpus with counts, for the real AdjustCounts and the model"""
    numbered = kn.number(kn.tokenize(case.data), case.skip)
    prune = kn.pad_prune(case.prune, case.order)
    if numbered is None or prune is None:
        return None
    ids, words = numbered
    N = case.order
    counts = {}
    for s in ids:
        toks = [1] * (N - 1) + [w for w in s if w > 2] + [2]
        for i in range(N - 1, len(toks)):
            g = tuple(toks[i - N + 1:i + 1])
            counts[g] = counts.get(g, 0) + 1
    if not counts:
        return None
    pruned = "-"
    if case.limit is not None:
        index = {w: i for i, w in enumerate(words)}
        allowed = {index[w] for w in case.limit if w in index}
        pr = [i for i in range(3, len(words)) if i not in allowed]
        pruned = ",".join("%x" % i for i in pr) if pr else "-"
    fulls = " ".join("%s=%x" % (".".join("%x" % w for w in g), counts[g]) for g in kn.suffix_sorted(counts.keys()))
    return "ADJF %x %s %s %x %s" % (N, ",".join("%x" % t for t in prune), pruned, len(words), fulls)


def component_check(ctx, cases, model):
    """the real AdjustCounts class on a chain per order against the extracted `adjust`: streams (n-gram, adjusted count,
    pruning mark, in stream order), counts / counts_pruned exactly; discounts within float32 tolerance"""
    import struct
    drv = vlib.compile_driver("c05_adjust_driver", os.path.join(vlib.ROOT, "harness", "drivers", "c05_adjust_driver.cc"),
                              libs=("kenlm_builder", "kenlm", "kenlm_util"))
    pairs = [(l, c) for l, c in ((adjf_line(c), c) for c in cases) if l and len(l) < 400000 and not c.tag.startswith("gen:wide")]
    lines = [l for l, _ in pairs]
    case_of = dict(pairs)
    if not lines:
        return 0, []
    iout = vlib.run_lines(drv, lines, timeout=ctx.pick(300, 1500))
    mout = vlib.run_lines(model, lines, timeout=ctx.pick(300, 1500))
    bad = []
    for i, (l, a, b) in enumerate(zip(lines, iout, mout)):
        if a.startswith("DRIVER-DIED") or a.startswith("THROW"):
            # the real class crashed or threw on a legal input: that is a failing input by itself
            alone = vlib.run_lines(drv, [l], timeout=120)[0]
            ctx.report("spec:adjust-counts-crash", "lm::builder::AdjustCounts crashes on a legal sorted n-gram stream (%s)" % a[:120],
                       {"case": l[:20000], "crashes_alone": alone.startswith("DRIVER-DIED"), "batch_prefix": [x[:20000] for x in lines[max(0, i - 3):i + 1]],
                        "how": "printf '%s\\n' <batch_prefix...> | c05_adjust_driver (harness/drivers/c05_adjust_driver.cc; ASan variant shows the access)"})
            break
        pa, pb = a.split(" #"), b.split(" #")
        if len(pa) != 3 or len(pb) != 3:
            bad.append((l, a[:300], b[:300], "unexpected answer"))
            continue
        if pa[0] != pb[0] or pa[1] != pb[1]:
            k = next((i for i, (x, y) in enumerate(zip(pa[0].split(" ; "), pb[0].split(" ; "))) if x != y), None)
            bad.append((l, a[:300], b[:300], "streams or counts differ" + ("" if k is None else " at order %d" % (k + 1))))
            continue
        da, db = pa[2].split(), pb[2].split()
        if len(da) != len(db):
            bad.append((l, pa[2], pb[2], "number of discounts"))
            continue
        for x, y in zip(da, db):
            fx = [struct.unpack("<f", struct.pack("<I", int(h, 16)))[0] for h in x.split(":")]
            fy = [float(kn.parse_q(q)) for q in y.split(":")]
            if any(abs(u - v) > 2e-5 * max(abs(v), 1e-3) + 1e-6 for u, v in zip(fx, fy)):
                # float32 and exact arithmetic may legitimately choose differently between closed form and fallback, but only
                # when they disagree on the range test itself
                cc = case_of[l]
                numbered = kn.number(kn.tokenize(cc.data), cc.skip)
                if numbered and kn.rounding_borderline([[w for w in s_ if w > 2] for s_ in numbered[0]], cc.order):
                    continue
                bad.append((l, pa[2], pb[2], "discounts differ"))
                break
    return len(lines), bad


def run(ctx):
    pres = vlib.coq_prove("C05")
    ctx.set_proof(pres)
    lmplz = vlib.tool("lmplz")
    model_broken = None
    try:
        model = vlib.ocaml_model("C05")
    except vlib.ModelBroken as e:
        model, model_broken = None, str(e)
    rng = ctx.rng
    cases = corpus_cases()
    ctx.count("corpus_cases", len(cases))
    ngen = ctx.pick(700, 8000)
    big = not ctx.quick
    cases += [kn.gen_case(rng, big) for _ in range(ngen)]
    # corpora with prescribed counts of counts on the case splits of the discount formula (D_j = 0, just in/out, D3 = 3, n_j = 0)
    cases += [kn.gen_profile_case(rng) for _ in range(ctx.pick(160, 2000))]
    # wide corpora (6500-9000 distinct bigram contexts): every stream between the stages spans many buffers / chain blocks
    cases += [kn.gen_wide_case(rng, k) for k in ("limit-few", "step")] + [kn.gen_wide_case(rng) for _ in range(ctx.pick(0, 40))]
    res = check_cases(ctx, cases, lmplz, model)
    kinds, nontrivial, spec_fail, corr_fail = {}, set(), [], []
    orders = {}
    for c, run_, ofail, corr, info in res:
        kinds[info.get("kind", "?")] = kinds.get(info.get("kind", "?"), 0) + 1
        if info.get("borderline"):
            ctx.count("cases_judged_with_the_float32_range_decision(rounding borderline)")
        if info.get("accepted"):
            orders[c.order] = orders.get(c.order, 0) + 1
            if c.order >= 2 and info.get("ngrams", 0) >= 8:
                nontrivial.add((c.data, c.order, str(c.prune), str(c.limit), c.interp, str(c.fallback)))
        if ofail:
            spec_fail.append((c, run_, ofail))
        if corr:
            corr_fail.append((c, run_, corr))
    ncomp, comp_bad = (0, [])
    if model:
        ncomp, comp_bad = component_check(ctx, cases[:ctx.pick(400, 3000)], model)
    ctx.coverage["component_cases_adjust_counts"] = ncomp
    ctx.coverage["component_mismatches"] = len(comp_bad)
    ctx.coverage["configuration_classes"] = {
        "memory_one_block(-S 20M)": sum(1 for c in cases if not c.mem),
        "memory_small(-S 64K..250K)": sum(1 for c in cases if c.mem and c.mem[1] in ("64K", "250K")),
        "memory_tiny(-S 600b..8K: blocks of tens of records, multi-run merges)": sum(1 for c in cases if c.mem and c.mem[1] not in ("64K", "250K")),
        "output_files_pre_existing": sum(1 for c in cases if c.stale),
        "wide_corpus(>6500 contexts at one order; oracle only)": sum(1 for c in cases if c.tag.startswith("gen:wide")),
        "degenerate_corpus_without_words": sum(1 for c in cases if c.tag == "gen:degenerate"),
        "renumbered(--renumber/--intermediate)": sum(1 for c in cases if c.renumber or c.intermediate),
        "renumbered_with_word_sorting_before_<s>": sum(1 for c in cases if (c.renumber or c.intermediate) and
                                                      any(kn.murmur64a(t) < kn.murmur64a(b"<s>") for t in set(c.data.split()) if t not in kn.SPECIALS)),
        "interpolate_unigrams_0": sum(1 for c in cases if not c.interp),
        "short_and_interrupted_io(shim, every read/write/pread/pwrite)": sum(1 for c in cases if c.io),
        "corpus_on_stdin(pipe)": sum(1 for c in cases if c.stdin),
        "corpus_on_stdin_with_short_reads(window ends anywhere)": sum(1 for c in cases if c.stdin and c.io),
        "arpa_to_a_pipe_with_short_writes": sum(1 for c in cases if c.io and c.io[2]),
        "word_longer_than_8192_bytes": sum(1 for c in cases if any(len(t) > 8192 for t in c.data.split())),
        "word_of_8191_or_8192_bytes": sum(1 for c in cases if any(len(t) in (8191, 8192) for t in c.data.split()))}
    prof = {}
    for c in cases:
        if c.tag.startswith("gen:profile:"):
            k = c.tag.split(":")[2] + (" +fallback" if c.fallback is not None else " no fallback")
            prof[k] = prof.get(k, 0) + 1
    ctx.coverage["discount_boundary_profiles(highest order has exactly these counts of counts)"] = prof
    ctx.count("evaluations", len(cases))
    ctx.coverage["distinct_nontrivial"] = len(nontrivial)
    ctx.coverage["rule"] = ("one evaluation = one lmplz run on a generated corpus (5-400 sentences, 1-60 word types, Zipf-like repetition, repeated "
                            "sentences, empty lines, TAB/CR/NUL separators, special tokens under --skip_symbols, directed F1-class corpora) with "
                            "order 1-6 and random --prune / --limit_vocab_file / --interpolate_unigrams / --discount_fallback / --renumber / "
                            "--intermediate; the ARPA file and the Statistics lines are compared with the extracted Coq model (n-gram set and "
                            "line order exactly, 10^logp and 10^backoff within 2e-5 relative, discounts to 6 digits) and with an independent "
                            "exact-fraction oracle.  Non-trivial: accepted run of order >= 2 whose output has >= 8 n-grams; distinct = distinct "
                            "(corpus bytes, options).")
    ctx.coverage["case_kinds"] = kinds
    ctx.coverage["accepted_by_order"] = orders
    ctx.coverage["spec_oracle_failures"] = len(spec_fail)
    ctx.coverage["correspondence_mismatches"] = len(corr_fail)
    ctx.coverage["traces_validated_against_impl"] = sum(1 for r in res if r[4].get("accepted") and not r[2] and not r[3])
    for c, run_, ofail, corr, info in res[:60]:
        if info.get("accepted"):
            ctx.sample({"order": c.order, "prune": c.prune, "interp": c.interp, "fallback": c.fallback, "corpus": c.data[:120].decode("utf-8", "replace"),
                        "ngrams": info.get("ngrams"), "statistics": run_.stats}, limit=4)
    ctx.assumptions += ["float32 rounding of lmplz is not modelled: values are compared within 2e-5 relative (+3e-7 absolute)",
                        "corpus_count/sort are represented in the model by their result (sorted distinct padded n-grams with counts); C07/C16 cover them",
                        "counts < 2^63, thresholds < 2^64-1; corpus has at least one line; --vocab_pad, --collapse_values out of scope",
                        "extraction (ExtrOcamlBasic only), the OCaml driver and the Python tokeniser/ARPA parser are trusted"]
    seen = set()
    for c, run_, (sig, msg) in spec_fail:
        if sig in seen:
            continue
        seen.add(sig)
        ctx.report(sig, msg, {"case": c.to_json(), "lmplz_cmd": " ".join(run_.cmd), "statistics": run_.stats, "how": "./check C05 --replay <this file>"})
    if not spec_fail and comp_bad and not corr_fail:
        l, a, b, why = comp_bad[0]
        ctx.report("correspondence:adjust-counts-component", "the real AdjustCounts and the extracted `adjust` disagree (%s); the tool-level oracle finds no wrong output" % why,
                   {"correspondence": "lm::builder::AdjustCounts on chains vs extracted adjust", "case": l[:20000], "impl": a, "model": b,
                    "n_mismatches": len(comp_bad), "how": "echo '<case>' | c05_adjust_driver"}, found=False)
    if not spec_fail:
        if corr_fail:
            c, run_, (sig, msg) = corr_fail[0]
            ctx.report(sig, "extracted model and lmplz disagree; the independent oracle accepts lmplz's output: " + msg,
                       {"correspondence": "C05 kn_impl (extracted) vs lmplz --arpa", "case": c.to_json(), "n_mismatches": len(corr_fail)}, found=False)
        elif model_broken:
            ctx.report("model-broken", "executable model no longer builds", {"log": model_broken[-2000:]}, found=False)
        ctx.report_proof(pres)


def replay(ctx, obj):
    lmplz = vlib.tool("lmplz")
    model = vlib.ocaml_model("C05")
    c = kn.Case.from_json(obj["replay"]["case"])
    (c, run_, ofail, corr, info), = check_cases(ctx, [c], lmplz, model)
    print("case   :", json.dumps({k: v for k, v in c.to_json().items() if k != "corpus_hex"}))
    print("lmplz  : exit status %d, refused=%s, statistics %s" % (run_.rc, run_.refused, run_.stats))
    print("oracle :", ofail or "ok")
    print("model  :", corr or "ok")
    import shutil
    shutil.rmtree(ctx.scratch, ignore_errors=True)
    return 1 if (ofail or corr) else 0
