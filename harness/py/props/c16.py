"""C16 -- external sort returns the sorted (and combined) multiset of its input (DESIGN.md section 4, C16).

Pipeline: proof step (coq/C16) ; implementation driver (Chain >> producer >> util::stream::Sort >> output, real
lm::SuffixOrder/ContextOrder/PrefixOrder and lm::builder::CombineCounts) ; specification oracle written from the
property text (sorted, multiset equal, per-key totals equal, duplicate-free when every input block is) ; extracted
model on the same cases (records up to key order, and -- behind the KPU_KENLM_VERIF observer hook -- the grouping
decisions of every merge pass) ; the real util::stream::Offsets against its model."""
import hashlib
import os
import struct
import sys
from array import array

import vlib

DRIVER = os.path.join(vlib.ROOT, "harness", "drivers", "c16_driver.cc")
M64 = (1 << 64) - 1


def hx(x):
    return "%x" % x


def build_shim():
    """harness/shim/io_shim.c (shared with C15/C09): oracle mode = dictated return lengths on one descriptor, storm mode =
    every read/write/pread/pwrite of the process is randomly shortened (1 byte, arbitrary counts) or interrupted"""
    src = os.path.join(vlib.ROOT, "harness", "shim", "io_shim.c")
    outdir = os.path.join(vlib.CACHE, "shim")
    os.makedirs(outdir, exist_ok=True)
    key = hashlib.sha256(open(src, "rb").read()).hexdigest()[:16]
    so = os.path.join(outdir, "io_shim-%s.so" % key)
    if not os.path.exists(so):
        tmp = so + ".%d.tmp" % os.getpid()
        vlib.sh(["gcc", "-O2", "-shared", "-fPIC", "-o", tmp, src, "-ldl"], timeout=120, check=True)
        os.replace(tmp, so)
    return so


# ---------------------------------------------------------------------------------------------
# case representation
class Case:
    __slots__ = ("kind", "n", "pw", "comb", "cbc", "cmem", "fill", "buf", "tot", "lazy", "mode", "blocks", "why")

    def es(self):
        return (self.n if self.kind == "I" else 4 * self.n) + self.pw

    def line(self):
        toks = []
        for i, b in enumerate(self.blocks):
            if i:
                toks.append("/")
            toks += [".".join(hx(w) for w in k) + ":" + hx(p) for k, p in b]
        if self.fill == "F":
            toks = [t for t in toks if t != "/"]
        head = "S %s %x %x %d %x %x %s %x %x %x %s" % (self.kind, self.n, self.pw, 1 if self.comb else 0, self.cbc, self.cmem,
                                                       self.fill, self.buf, self.tot, self.lazy, self.mode)
        return head + (" " + " ".join(toks) if toks else "")


def parse_case(line):
    f = line.split()
    c = Case()
    c.kind, c.n, c.pw, c.comb = f[1], int(f[2], 16), int(f[3], 16), f[4] == "1"
    c.cbc, c.cmem, c.fill, c.buf, c.tot, c.lazy, c.mode = int(f[5], 16), int(f[6], 16), f[7], int(f[8], 16), int(f[9], 16), int(f[10], 16), f[11]
    c.blocks = [[]]
    for t in f[12:]:
        if t == "/":
            c.blocks.append([])
        else:
            k, p = t.split(":")
            c.blocks[-1].append((tuple(int(w, 16) for w in k.split(".")), int(p, 16)))
    c.why = "corpus"
    return c


def chain_cap(c):
    """records per chain block, from the documented Chain arithmetic; None = configuration rejected"""
    es = c.es()
    if es == 0 or c.cbc == 0 or c.cmem < es * c.cbc:
        return None
    return (c.cmem // (c.cbc * es) * es) // es


def input_blocks(c):
    """the blocks the sort sees (fill F: the Stream producer fills every block completely)"""
    if c.fill == "E":
        return c.blocks
    cap = chain_cap(c)
    recs = [r for b in c.blocks for r in b]
    if not cap:
        return [recs]
    return [recs[i:i + cap] for i in range(0, len(recs), cap)] or [[]]


def order_key(c):
    n = c.n
    if c.kind in ("I", "P"):
        return lambda k: k
    if c.kind == "S":                      # SuffixOrder: last word first
        return lambda k: tuple(reversed(k))
    return lambda k: tuple(reversed(k[:n - 1])) + (k[n - 1],)     # ContextOrder: context (reversed), then the last word


def parse_out(o):
    """-> (status, ret, records, trace or None)"""
    main, sep, tr = o.partition(" | T")
    f = main.split()
    if not f or f[0] != "OK":
        return (f[0] if f else "<empty>"), None, None, None
    recs = []
    for t in f[2:]:
        if t == "RAGGED":
            return "RAGGED", None, None, None
        k, p = t.split(":")
        recs.append((tuple(int(w, 16) for w in k.split(".")), int(p, 16)))
    return "OK", int(f[1], 16), recs, (tr.strip() if sep else None)


# ---------------------------------------------------------------------------------------------
# specification oracle (from the property text)
def oracle(c, o):
    st, ret, out, _ = parse_out(o)
    if st in ("BADSORT", "BADCHAIN"):
        return None                              # configuration not accepted: the property says nothing
    if st != "OK":
        return "sort did not deliver a result: %s" % o[:200]
    blocks = input_blocks(c)
    inp = [r for b in blocks for r in b]
    ok = order_key(c)
    for i in range(1, len(out)):
        if ok(out[i][0]) < ok(out[i - 1][0]):
            return "output not in non-decreasing order at position %d: %s after %s" % (i, out[i], out[i - 1])
    if not c.comb:
        if sorted(out) != sorted(inp):
            return "output multiset differs from the input's (%d records in, %d out)" % (len(inp), len(out))
        return None
    tin, tout = {}, {}
    for k, p in inp:
        tin[k] = (tin.get(k, 0) + p) & M64
    for k, p in out:
        tout[k] = (tout.get(k, 0) + p) & M64
    if set(tin) != set(tout):
        return "key set changed: %d keys in, %d keys out" % (len(tin), len(tout))
    for k in tin:
        if tin[k] != tout[k]:
            return "per-key total of %s changed: %d in, %d out" % (k, tin[k], tout[k])
    if all(len({k for k, _ in b}) == len(b) for b in blocks):
        for i in range(1, len(out)):
            if out[i][0] == out[i - 1][0]:
                return "every input block is duplicate-free but the output holds key %s twice" % (out[i][0],)
    return None


def canon(c, recs):
    """records up to the order of equal keys (std::sort / the priority queue are not stable)"""
    res, i = [], 0
    while i < len(recs):
        j = i
        while j < len(recs) and recs[j][0] == recs[i][0]:
            j += 1
        res += sorted(recs[i:j])
        i = j
    return res


def norm_trace_impl(tr, es):
    """impl: bytes, ';' after every pass -> records, ';' between passes"""
    if tr.endswith(";"):
        tr = tr[:-1]
    passes = []
    for p in tr.split(";"):
        gs = []
        for g in p.split(","):
            if g:
                a, b = g.split(":")
                b = int(b, 16)
                gs.append("%s:%s" % (a, hx(b // es) if b % es == 0 else "RAGGED%x" % b))
        passes.append(",".join(gs))
    return ";".join(passes)


# ---------------------------------------------------------------------------------------------
# generators
def gen_key(rng, c, keyspace, style, i, n_total):
    if c.kind == "I":
        top = (1 << (8 * c.n)) - 1
        if style == "sorted":
            v = i
        elif style == "reversed":
            v = n_total - i
        elif style == "equal":
            v = 7
        elif style == "edges":
            v = rng.choice([0, 1, top, top - 1, top >> 1])
        else:
            v = rng.below(keyspace)
        return (v & top,)
    if style == "sorted":
        base = i
    elif style == "reversed":
        base = n_total - i
    elif style == "equal":
        base = 0
    else:
        base = None
    words = []
    for j in range(c.n):
        if base is None:
            words.append(rng.choice([0, 1, 0xffffffff]) if style == "edges" else rng.below(keyspace))
        else:
            words.append((base >> (4 * j)) & 0xf)
    return tuple(words)


def shape_for_size(rng, c, es):
    """choose key kind / width / payload so that the record is exactly es bytes"""
    if es >= 4 and rng.chance(1, 2):
        c.kind = rng.choice(["S", "C", "P"])
        c.n = rng.range(1, min(6, es // 4))
        c.pw = es - 4 * c.n
    else:
        c.kind = "I"
        c.n = rng.range(1, min(8, es))
        c.pw = es - c.n
    c.comb = c.pw == 8 and rng.chance(1, 2)


def gen_case(rng, big, es=None):
    c = Case()
    if es is not None:
        shape_for_size(rng, c, es)
    else:
        c.kind = rng.choice(["I", "I", "S", "S", "C", "P"])
        c.comb = rng.chance(2, 5)
        if c.kind == "I":
            c.n = rng.choice([1, 2, 3, 4, 5, 8, rng.range(1, 8)])
        else:
            c.n = rng.range(1, 6)
        kb = c.n if c.kind == "I" else 4 * c.n
        if c.comb:
            c.pw = 8
        else:
            c.pw = rng.choice([0, 0, 1, 4, 8, rng.range(0, 64 - kb), 64 - kb])
    es = c.es()
    # sort configuration: boundaries first
    bq = rng.choice([1, 1, 2, 3, rng.range(1, 12), rng.range(1, 60)])
    b = bq * es
    c.buf = b + (rng.below(es) if rng.chance(1, 2) else 0)
    tsel = rng.below(10)
    if tsel < 4:
        c.tot = 4 * b                                  # the minimum the constructor accepts
    elif tsel < 5:
        c.tot = 4 * b + rng.below(es + 1)
    elif tsel < 6:
        c.tot = max(0, 4 * b - 1 - rng.below(3))       # rejected
    elif tsel < 8:
        c.tot = 4 * b + rng.below(6 * b + 1)
    else:
        c.tot = 4 * b + rng.below(40 * b + 1)
    # chain
    c.cbc = rng.choice([1, 1, 2, 3, 4])
    cap = rng.choice([1, 1, 2, 3, 5, 8, rng.range(1, 40), rng.range(1, 300 if big else 100)])
    c.cmem = cap * es * c.cbc + (rng.below(es * c.cbc) if rng.chance(1, 2) else 0)
    if rng.chance(1, 40):
        c.cmem = rng.below(es * c.cbc + 1)             # probably rejected
    cap = chain_cap(c) or 1
    # input size relative to the block and to the merge arity
    nsel = rng.below(12)
    arity = max(2, (c.tot - 2 * b) // b) if c.tot >= 4 * b else 2
    if nsel == 0:
        n = 0
    elif nsel == 1:
        n = 1
    elif nsel == 2:
        n = cap
    elif nsel == 3:
        n = cap + 1
    elif nsel == 4:
        n = cap * arity + rng.choice([0, 1, -1])        # runs == arity (one pass vs. lazy only)
    elif nsel == 5:
        n = cap * (arity + 1) + rng.choice([0, 1])      # arity exceeded: an extra pass
    elif nsel == 6:
        n = cap * arity * arity + rng.choice([0, 1, cap])
    else:
        n = rng.range(0, 4000 if big else 700)
    n = max(0, min(n, 30000 if big else 5000))
    style = rng.choice(["random", "random", "dups", "dups", "sorted", "reversed", "equal", "edges", "straddle"])
    keyspace = {"dups": rng.range(1, 6), "straddle": rng.range(2, 4)}.get(style, rng.choice([50, 1000, 1 << 20]))
    recs = []
    for i in range(n):
        k = gen_key(rng, c, keyspace, "random" if style in ("dups", "straddle") else style, i, n)
        if c.comb:
            p = rng.choice([1, 1, 1, 2, 3, rng.below(1000)])
            if rng.chance(1, 300):
                p = M64 - rng.below(3)                  # wrap-around of the 64-bit count
        else:
            p = i & ((1 << (8 * c.pw)) - 1) if c.pw else 0      # a tag: makes the multiset check see a duplicated / lost record
        recs.append((k, p))
    # lazy memory
    size = n * es
    c.lazy = rng.choice([0, 0, 1, b - 1 if b else 0, b, 2 * b, 3 * b, rng.below(c.tot + 1), c.tot, size, max(0, size - 1), size + 1, rng.below(2 * size + 2)])
    c.mode = rng.choice(["O", "O", "M", "S"])
    # block structure
    if rng.chance(1, 4) and chain_cap(c):
        c.fill = "E"
        blocks, i = [], 0
        while i < n:
            take = rng.choice([0, 1, cap, cap, rng.range(0, cap)])
            take = min(take, cap, n - i)
            if style == "straddle" or rng.chance(1, 3):
                take = take                      # may contain duplicates inside the block
            blocks.append(recs[i:i + take])
            i += take
        if rng.chance(1, 3):
            blocks.append([])
        c.blocks = blocks or [[]]
        if c.comb and rng.chance(1, 2):
            # make every block duplicate-free so that the duplicate-freedom clause applies
            c.blocks = [dedupe_block(blk) for blk in c.blocks]
    else:
        c.fill = "F"
        if c.comb and rng.chance(1, 2) and chain_cap(c):
            # duplicate-free blocks under the Stream split: dedupe chunk by chunk
            out, cur, seen = [], 0, set()
            for r in recs:
                if cur == cap:
                    cur, seen = 0, set()
                if r[0] in seen:
                    continue
                seen.add(r[0])
                out.append(r)
                cur += 1
            recs = out
        c.blocks = [recs]
    c.why = "%s n=%d cap=%d arity=%d" % (style, n, cap, arity)
    return c


def dedupe_block(blk):
    seen, out = set(), []
    for r in blk:
        if r[0] not in seen:
            seen.add(r[0])
            out.append(r)
    return out


# ---- block contents that stress the in-memory block sort (SizedSort = std::sort = introsort) ----------------------
def pattern_keys(rng, name, n, killers):
    if name == "killer":                      # McIlroy's adversary against this std::sort: forces the heapsort fallback
        return list(killers[n])
    if name == "organ":
        return [min(i, n - 1 - i) for i in range(n)]
    if name == "equal-runs":
        out, v = [], 0
        while len(out) < n:
            out += [v] * rng.range(1, max(1, n // 3))
            v = rng.below(5)
        return out[:n]
    if name == "one-swap":
        a = list(range(n))
        if n > 1:
            i, j = rng.below(n), rng.below(n)
            a[i], a[j] = a[j], a[i]
        return a
    if name == "median3":                     # Musser's median-of-3 killer: 1 k+1 3 k+3 ... 2 4 6 ...
        k = max(1, n // 2)
        a = [0] * (2 * k + 2)
        for i in range(1, k + 1):
            if i % 2 == 1:
                a[i - 1] = i
                a[i] = k + i
            a[k + i - 1] = 2 * i
        return a[:n]
    return [rng.below(n) for _ in range(n)]


KILLER_LENGTHS = (48, 120, 250, 1000, 3000)


def gen_adversarial(rng, killers, big):
    """every record size 1..40 (the sizes without a std::sort specialisation go through SizedIterator / FreePool) x block
    contents on which introsort exhausts its depth limit, one adversarial sequence per chain block"""
    cases = []
    sizes = list(range(1, 41)) + [1, 2, 3, 5, 6, 7, 9, 10, 11] * (2 if big else 1)
    for es in sizes:
        for rep in range(2):
            c = Case()
            c.kind = "I"
            c.n = rng.range(1, min(8, es)) if rep else min(8, es)
            c.pw = es - c.n
            c.comb = False
            top = (1 << (8 * c.n)) - 1
            pat = "killer" if rep == 0 else rng.choice(["killer", "organ", "equal-runs", "one-swap", "median3"])
            L = rng.choice([l for l in KILLER_LENGTHS if l - 1 <= top and (big or l <= 1000)])
            nblocks = rng.choice([1, 1, 2, 5]) if L <= 250 else 1
            c.blocks = []
            tag = 0
            for _b in range(nblocks):
                keys = pattern_keys(rng, pat, L, killers)
                blk = []
                for k in keys:
                    blk.append(((k & top,), tag & ((1 << (8 * c.pw)) - 1) if c.pw else 0))
                    tag += 1
                c.blocks.append(blk)
            c.fill = "E"
            c.cbc = rng.range(1, 3)
            c.cmem = L * es * c.cbc
            b = es * rng.choice([1, 3, 10])
            c.buf, c.tot = b, 4 * b + rng.below(3 * b + 1)
            c.lazy = rng.choice([0, b, c.tot])
            c.mode = rng.choice(["O", "M", "S"])
            c.why = "adversarial %s L=%d es=%d" % (pat, L, es)
            cases.append(c)
    return cases


def gen_pread(rng, n):
    cases = []
    for _ in range(n):
        flen = rng.choice([0, 1, 2, rng.range(0, 40), rng.range(0, 200)])
        data = bytes(rng.below(256) for _ in range(flen))
        off = rng.choice([0, rng.below(flen + 1), flen])
        size = rng.choice([0, 1, flen - off, rng.below(flen - off + 1), flen - off + rng.choice([0, 0, 1, 5])])
        size = max(0, size)
        script = []
        for _i in range(rng.range(0, 12)):
            script.append(rng.choice(["i", "d1", "d1", "d2", "d3", "d%d" % max(1, size // 2), "d%d" % rng.range(1, 9), "d100000"]))
        script += ["d1"] * (size + 2) if rng.chance(1, 2) else ["d%d" % rng.range(1, 7) for _i in range(size + 2)]
        cases.append("PR %s %x %x %s" % (data.hex() or "-", off, size, ",".join(script)))
    return cases


def oracle_pread(case, o):
    """specification: ErsatzPRead(to, size, off) delivers bytes [off, off+size) of the file, whatever lengths pread returns"""
    f = case.split()
    data = bytes.fromhex(f[1]) if f[1] != "-" else b""
    off, size = int(f[2], 16), int(f[3], 16)
    r = o.split()
    if not r or r[0] == "NOSHIM":
        return "I/O shim not loaded: %s" % o
    if "WROTE-PAST-BUFFER" in o:
        return "ErsatzPRead wrote beyond the buffer"
    if off + size <= len(data):
        exp = data[off:off + size].hex() or "-"
        if r[0] != "OK" or r[1] != exp:
            return "ErsatzPRead delivered %s, bytes [off, off+size) are %s" % (" ".join(r[:2])[:120], exp[:100])
    elif r[0] == "OK":
        return "ErsatzPRead returned although the range reaches beyond the end of the file"
    return None


def gen_offsets(rng, n):
    cases = []
    for _ in range(n):
        segs = []
        for _s in range(rng.choice([1, 1, 2, 3])):
            ln = rng.choice([0, 1, 2, rng.range(0, 12), rng.range(0, 60)])
            style = rng.choice(["runs", "runs", "random", "zeros", "same"])
            cur = rng.range(1, 5)
            lens = []
            for _i in range(ln):
                if style == "runs":
                    if rng.chance(1, 3):
                        cur = rng.range(1, 5)
                    v = 0 if rng.chance(1, 8) else cur
                elif style == "random":
                    v = rng.below(1 << rng.choice([2, 8, 40]))
                elif style == "zeros":
                    v = 0 if rng.chance(3, 4) else rng.range(1, 3)
                else:
                    v = cur
                lens.append(v)
            segs.append(" ".join(hx(v) for v in lens))
        cases.append(("OFF " + " R ".join(segs)).rstrip())
    return cases


def oracle_offsets(case, o):
    """specification: the log hands back exactly the non-zero lengths, in order, with their running sum"""
    segs = case[3:].split(" R ") if " R " in case or case.strip() != "OFF" else [""]
    segs = case[4:].split("R") if len(case) > 3 else [""]
    outs = o.split(" R ")
    if len(outs) != len(segs):
        return "expected %d segments, got %r" % (len(segs), o[:200])
    for s, r in zip(segs, outs):
        lens = [int(x, 16) for x in s.split()]
        nzl = [x for x in lens if x]
        exp, tot = [hx(len(nzl))], 0
        for x in nzl:
            exp.append("%x:%x" % (tot, x))
            tot += x
        if r.split() != exp:
            return "Offsets returned %r, appended non-zero lengths are %r" % (r[:200], exp[:40])
    return None


def corpus_cases():
    p = os.path.join(vlib.ROOT, "corpus", "C16", "cases.txt")
    return [l.rstrip("\n") for l in open(p) if l.strip() and not l.startswith("#")] if os.path.exists(p) else []


# ---------------------------------------------------------------------------------------------
# large inputs (thorough tier): raw files, 8-byte integer keys, optional 8-byte count
def big_case(ctx, impl, idx, n, comb, style, buf, tot, lazy, cbc, cmem, mode):
    rng = ctx.rng.fork()      # vlib.Rng(seed) streams of neighbouring seeds are shifted copies of one another (they re-synchronise); a forked stream starts far away
    es = 16 if comb else 8
    inp = os.path.join(ctx.scratch, "big%d.in" % idx)
    outp = os.path.join(ctx.scratch, "big%d.out" % idx)
    keyspace = rng.choice([1000, 1 << 20, 1 << 62])
    keys = array("Q", [0]) * n
    for i in range(n):
        if style == "sorted":
            keys[i] = i
        elif style == "reversed":
            keys[i] = n - i
        else:
            keys[i] = rng.next() % keyspace
    if comb:
        flat = array("Q", [0]) * (2 * n)
        flat[0::2] = keys
        flat[1::2] = array("Q", [1]) * n
    else:
        flat = keys
    with open(inp, "wb") as f:
        flat.tofile(f)
    line = "SF I 8 %x %d %x %x F %x %x %x %s %s %s" % (8 if comb else 0, 1 if comb else 0, cbc, cmem, buf, tot, lazy, mode, inp, outp)
    o = vlib.run_lines(impl, [line], timeout=900, env={"VERIF_TMP": os.path.join(ctx.scratch, "tmp-")})[0]
    msg = None
    f = o.split()
    if not f or f[0] != "OK":
        msg = None if f and f[0] in ("BADSORT", "BADCHAIN") else "sort did not deliver a result: %s" % o[:200]
    else:
        got = array("Q")
        with open(outp, "rb") as fh:
            got.frombytes(fh.read())
        if comb:
            ok_, oc = got[0::2], got[1::2]
            if any(ok_[i] >= ok_[i + 1] for i in range(len(ok_) - 1)):
                # strictly increasing is only claimed for duplicate-free blocks; here: at least non-decreasing
                if any(ok_[i] > ok_[i + 1] for i in range(len(ok_) - 1)):
                    msg = "output not sorted"
            tin = {}
            for k in keys:
                tin[k] = tin.get(k, 0) + 1
            tout = {}
            for k, cnt in zip(ok_, oc):
                tout[k] = tout.get(k, 0) + cnt
            if msg is None and tin != tout:
                msg = "per-key totals changed (%d keys in, %d out)" % (len(tin), len(tout))
        else:
            if len(got) != n or got != array("Q", sorted(keys)):
                msg = "output is not the sorted input (%d records in, %d out)" % (n, len(got))
    for p in (inp, outp):
        try:
            os.remove(p)
        except OSError:
            pass
    return line, o, msg


# ---------------------------------------------------------------------------------------------
def run(ctx):
    pres = vlib.coq_prove("C16")
    ctx.set_proof(pres)
    big = not ctx.quick
    rng = ctx.rng.fork()      # vlib.Rng(seed) streams of neighbouring seeds are shifted copies of one another (they re-synchronise); a forked stream starts far away
    impl = vlib.compile_driver("c16_driver", DRIVER, libs=("kenlm", "kenlm_util"))
    env = {"VERIF_TMP": os.path.join(ctx.scratch, "tmp-")}

    sort_cases = [parse_case(l) for l in corpus_cases() if l.startswith("S ")]
    off_cases = [l for l in corpus_cases() if l.startswith("OFF")]
    ctx.count("corpus_cases", len(sort_cases) + len(off_cases))
    n_gen = ctx.pick(700, 6000)
    # every record size 1..40 occurs (the first cases cycle through them), the rest draws sizes at random up to 64
    sort_cases += [gen_case(rng, big, es=(1 + i % 40) if i < ctx.pick(120, 800) else None) for i in range(n_gen)]
    # adversarial block contents: the killer sequences are computed by the driver against the std::sort it is linked with
    kl = [l for l in KILLER_LENGTHS if big or l <= 1000]
    kout = vlib.run_lines(impl, ["KILLER %x" % l for l in kl], timeout=300, env=env)
    killers = {}
    for l, o in zip(kl, kout):
        killers[l] = [int(x, 16) for x in o.split()]
        if len(killers[l]) != l:
            raise vlib.InfraError("KILLER %d: %s" % (l, o[:200]))
    adv_cases = gen_adversarial(rng, killers, big)
    adv_start = len(sort_cases)
    sort_cases += adv_cases
    off_cases += gen_offsets(rng, ctx.pick(400, 4000))
    lines = [c.line() for c in sort_cases]
    iout = vlib.run_lines(impl, lines + off_cases, timeout=ctx.pick(300, 1500), env=env)
    sout, oout = iout[:len(lines)], iout[len(lines):]

    # step 5: specification oracle on the implementation
    spec_fail = []
    stats = {"OK": 0, "BADSORT": 0, "BADCHAIN": 0, "other": 0}
    for c, l, o in zip(sort_cases, lines, sout):
        st = o.split()[0] if o.split() else "<empty>"
        stats[st if st in stats else "other"] += 1
        msg = oracle(c, o)
        if msg:
            spec_fail.append(("sort:%s:%s:%s" % (c.kind, "combine" if c.comb else "plain", c.mode), l, o, msg))
    for l, o in zip(off_cases, oout):
        msg = oracle_offsets(l, o)
        if msg:
            spec_fail.append(("offsets", l, o, msg))

    # step 4: correspondence with the extracted model
    mismatches, trace_mismatches = [], []
    model_broken = None
    nontrivial = set()
    multi_pass = 0
    hook_seen = 0
    try:
        model = vlib.ocaml_model("C16")
        stack = ["sh", "-c", 'ulimit -s unlimited 2>/dev/null || ulimit -s 4000000 2>/dev/null; exec "$0"']
        mout = vlib.run_lines(model, lines + off_cases, timeout=ctx.pick(300, 1500), prefix=stack)
        for c, l, a, b in zip(sort_cases, lines, sout, mout[:len(lines)]):
            sa, ra, reca, tra = parse_out(a)
            sb, rb, recb, trb = parse_out(b)
            if sa != sb:
                mismatches.append((l, a, b, "status"))
                continue
            if sa != "OK":
                continue
            if ra != rb:
                mismatches.append((l, a, b, "Merge() return value"))
            elif canon(c, reca) != canon(c, recb):      # also with a combiner: a single run is handed out uncombined (ReadSingle)
                mismatches.append((l, a, b, "records"))
            passes = trb.split(";") if trb else []
            if len(passes) >= 2 and any("," in p or p.split(":")[0] not in ("", "1") for p in passes[:-1]):
                multi_pass += 1
                nontrivial.add(l)
            elif len([blk for blk in input_blocks(c) if blk]) >= 2:
                nontrivial.add(l)
            if tra is not None:
                hook_seen += 1
                ta = norm_trace_impl(tra, c.es())
                if ta != (trb or ""):
                    trace_mismatches.append((l, ta, trb))
        for l, a, b in zip(off_cases, oout, mout[len(lines):]):
            if a != b:
                mismatches.append((l, a, b, "offsets"))
            if len(l.split()) > 3:
                nontrivial.add(l)
    except vlib.ModelBroken as e:
        model_broken = str(e)

    # ---- the same sorts with every read()/write()/pread()/pwrite() randomly shortened (down to 1 byte) or interrupted:
    #      the output must still be the sorted multiset (oracle) and equal to the undisturbed run up to equal keys
    shim = build_shim()
    storm_idx = [i for i, c in enumerate(sort_cases) if sum(len(b) for b in c.blocks) <= 1500 and sout[i].startswith("OK")]
    storm_idx = storm_idx[:ctx.pick(260, 2000)]
    storm_runs = 0
    for sseed, permille in ((ctx.seed * 7 + 1, 1000), (ctx.seed * 7 + 2, 400)):
        senv = dict(env, LD_PRELOAD=shim, IO_SHIM_STORM="%d:%d" % (sseed, permille), VERIF_ALARM="60")
        half = storm_idx[0::2] if permille == 1000 else storm_idx[1::2]
        so = vlib.run_lines(impl, [lines[i] for i in half], timeout=ctx.pick(400, 1500), env=senv)
        for i, o in zip(half, so):
            storm_runs += 1
            c = sort_cases[i]
            msg = oracle(c, o)
            if not msg:
                st1, r1, rec1, _ = parse_out(sout[i])
                st2, r2, rec2, _ = parse_out(o)
                if st2 != st1 or canon(c, rec1 or []) != canon(c, rec2 or []):
                    msg = "output differs from the run with full-length reads/writes"
            if msg:
                spec_fail.append(("sort:short-io:%s" % c.mode, lines[i], o, "with reads/writes transferring fewer bytes than requested: " + msg,
                                  {"kind": "storm", "seed": sseed, "permille": permille, "how": "LD_PRELOAD=io_shim.so IO_SHIM_STORM=%d:%d c16_driver" % (sseed, permille)}))
    # ---- the same sorts with a temporary directory that cannot punch holes (fallocate(PUNCH_HOLE) -> EOPNOTSUPP): the sort
    #      ignores that failure by design, the output must not change
    nsrc = os.path.join(vlib.ROOT, "harness", "shim", "c07_nopunch.c")
    nso = os.path.join(vlib.CACHE, "shim", "c07_nopunch-%s.so" % hashlib.sha256(open(nsrc, "rb").read()).hexdigest()[:16])
    if not os.path.exists(nso):
        os.makedirs(os.path.dirname(nso), exist_ok=True)
        vlib.sh(["gcc", "-O2", "-shared", "-fPIC", "-o", nso + ".%d.tmp" % os.getpid(), nsrc, "-ldl"], timeout=120, check=True)
        os.replace(nso + ".%d.tmp" % os.getpid(), nso)
    np_idx = [i for i, c in enumerate(sort_cases) if sout[i].startswith("OK") and len([b for b in input_blocks(c) if b]) >= 2][:ctx.pick(300, 2500)]
    npo = vlib.run_lines(impl, [lines[i] for i in np_idx], timeout=ctx.pick(300, 1200), env=dict(env, LD_PRELOAD=nso))
    for i, o in zip(np_idx, npo):
        c = sort_cases[i]
        msg = oracle(c, o)
        if not msg:
            st1, r1, rec1, _ = parse_out(sout[i])
            st2, r2, rec2, _ = parse_out(o)
            if st2 != st1 or canon(c, rec1 or []) != canon(c, rec2 or []):
                msg = "output differs from the run on a file system with hole punching"
        if msg:
            spec_fail.append(("sort:no-hole-punch:%s" % c.mode, lines[i], o, "temporary files on a file system without hole punching: " + msg,
                              {"kind": "nopunch", "how": "LD_PRELOAD=c07_nopunch.so c16_driver"}))
    nopunch_runs = len(np_idx)
    # ---- util::ErsatzPRead driven directly with dictated pread return lengths (oracle mode of the shim)
    pr_cases = gen_pread(rng, ctx.pick(400, 4000))
    pr_out = vlib.run_lines(impl, pr_cases, timeout=300, env=dict(env, LD_PRELOAD=shim))
    for l, o in zip(pr_cases, pr_out):
        msg = oracle_pread(l, o)
        if msg:
            spec_fail.append(("ersatz_pread", l, o, msg, {"kind": "shim", "how": "LD_PRELOAD=io_shim.so c16_driver"}))
    try:
        pr_model = vlib.run_lines(vlib.ocaml_model("C16"), pr_cases, timeout=300)
        for l, a_, b_ in zip(pr_cases, pr_out, pr_model):
            if a_ != b_:
                mismatches.append((l, a_, b_, "pread"))
    except vlib.ModelBroken as e:
        model_broken = str(e)
    # ---- the adversarial block contents again under AddressSanitizer + UBSan: a stray free-list link or a wild copy in the
    #      generic SizedSort path is observed even when it does not crash
    asan_runs = 0
    impl_asan = vlib.compile_driver("c16_driver", DRIVER, libs=("kenlm", "kenlm_util"), variant="asan")
    aenv = dict(env, ASAN_OPTIONS="detect_leaks=0:abort_on_error=0:exitcode=99", VERIF_ALARM="120")
    alines = [lines[adv_start + i] for i in range(len(adv_cases))]
    ao = vlib.run_lines(impl_asan, alines, timeout=ctx.pick(600, 1800), env=aenv)
    for c, l, o in zip(adv_cases, alines, ao):
        asan_runs += 1
        msg = oracle(c, o)
        if msg:
            spec_fail.append(("sort:asan:%s" % c.why.split()[1], l, o, "under AddressSanitizer: " + msg, {"kind": "asan", "how": "c16_driver built with the asan variant"}))

    # large inputs: oracle only
    big_runs = []
    if big:
        plan = [(2000000, False, "random", 1 << 16, 1 << 19, 0, 2, 1 << 17, "O"),
                (1500000, True, "random", 4096, 4 * 4096, 4096, 3, 3 * 64 * 1024, "M"),
                (1000000, False, "reversed", 1 << 12, 1 << 15, 1 << 14, 1, 1 << 13, "S"),
                (700000, True, "sorted", 1 << 10, 1 << 14, 1 << 30, 2, 1 << 12, "O"),
                (300000, False, "random", 64, 256, 0, 1, 8 * 50, "O")]
        for i, (n, comb, style, buf, tot, lazy, cbc, cmem, mode) in enumerate(plan):
            line, o, msg = big_case(ctx, impl, i, n, comb, style, buf, tot, lazy, cbc, cmem, mode)
            big_runs.append({"records": n, "combine": comb, "answer": o[:80]})
            if msg:
                spec_fail.append(("sort:big:%s" % ("combine" if comb else "plain"), line, o, msg))

    ctx.count("evaluations", len(lines) + len(off_cases) + len(big_runs) + storm_runs + nopunch_runs + len(pr_cases) + asan_runs)
    ctx.coverage["short_io_runs"] = storm_runs
    ctx.coverage["no_hole_punch_runs"] = nopunch_runs
    ctx.coverage["ersatz_pread_cases"] = len(pr_cases)
    ctx.coverage["adversarial_block_cases"] = len(adv_cases)
    ctx.coverage["asan_runs"] = asan_runs
    ctx.coverage["record_sizes_covered"] = sorted({c.es() for c in sort_cases})
    ctx.coverage["distinct_nontrivial"] = len(nontrivial)
    ctx.coverage["rule"] = ("cases = corpus + generated.  Sort case: record size 1..64 bytes (integer keys of 1..8 bytes, or 1..6 32-bit words under "
                            "SuffixOrder/ContextOrder/PrefixOrder), optional combiner (the real CombineCounts for SuffixOrder), buffer_size from one entry "
                            "up, total_memory at/around the constructor's minimum 4*buffer_size, lazy memory 0/1/around buffer multiples/around the data "
                            "size, chain blocks of 1..300 records with 1..4 blocks, Stream-filled or explicit partial/empty blocks, input sizes 0, 1, one "
                            "block, one block+1, runs == arity, arity+1, arity^2, heavy duplicates, sorted, reversed, all equal, 0/max words; modes "
                            "Output, Merge-then-Output (lmplz), StealCompleted.  Non-trivial: at least two runs reach the disk (distinct case lines); "
                            "multi_pass_cases counts those whose Merge performed a real merge pass before the lazy merge.  Offsets case non-trivial: >= 3 appended lengths.")
    ctx.coverage["status_distribution"] = stats
    ctx.coverage["multi_pass_cases"] = multi_pass
    ctx.coverage["cases_with_observer_trace"] = hook_seen
    ctx.coverage["big_runs"] = big_runs
    ctx.coverage["traces_validated_against_impl"] = len(lines) + len(off_cases) - len(mismatches)
    for c, l, o in list(zip(sort_cases, lines, sout))[:200]:
        if o.startswith("OK") and len(l) < 300 and ";" in o:
            ctx.sample({"case": l, "impl": o[:300], "why": c.why}, limit=4)
    ctx.sample({"case": off_cases[-1], "impl": oout[-1][:200]}, limit=5)
    ctx.assumptions += ["disk = lists of records; HolePunch ignored; no uint64/size_t overflow in the sizing arithmetic (sizes are bounded by data size and configured memory)",
                        "equal records leave std::sort / std::priority_queue in unspecified order: outputs are compared up to the order of records with equal keys",
                        "extraction (ExtrOcamlBasic only), the OCaml and C++ drivers and the Python oracle are trusted",
                        "the observer hook (KPU_KENLM_VERIF) reports (runs merged, bytes written) per merge group; it is a second, white-box correspondence"]
    # decide
    seen_sigs = []
    for sig, l, o, msg, *rest in spec_fail:          # one report per signature, at most 8 signatures
        if sig in seen_sigs or len(seen_sigs) >= 8:
            continue
        seen_sigs.append(sig)
        ctx.report("spec:" + sig, msg, {"case": l[:200000], "impl_output": o[:2000], "variant": rest[0] if rest else None,
                                        "how": "echo '<case>' | c16_driver (harness/drivers/c16_driver.cc); ./check C16 --replay <this file>"})
    if not spec_fail:
        if mismatches:
            l, a, b, what = mismatches[0]
            ctx.report("correspondence:" + what.split()[0], "model and implementation disagree on %s (the specification oracle accepts the implementation's answer)" % what,
                       {"correspondence": "C16 extracted model vs c16_driver", "case": l[:200000], "impl": a[:3000], "model": b[:3000], "n_mismatches": len(mismatches)}, found=False)
        if trace_mismatches:
            l, a, b = trace_mismatches[0]
            ctx.report("correspondence:grouping", "merge-pass grouping (runs merged : records written, per pass) differs between sort.hh and the model's sizing arithmetic",
                       {"correspondence": "observer hook trace vs model trace", "case": l[:200000], "impl_trace": a, "model_trace": b, "n_mismatches": len(trace_mismatches)}, found=False)
        if model_broken:
            ctx.report("model-broken", "executable model no longer builds", {"log": model_broken[-2000:]}, found=False)
        ctx.report_proof(pres)
    ctx.coverage["spec_oracle_failures"] = len(spec_fail)
    ctx.coverage["correspondence_mismatches"] = len(mismatches)
    ctx.coverage["grouping_trace_mismatches"] = len(trace_mismatches)


def replay(ctx, obj):
    r = obj["replay"]
    v = r.get("variant") or {}
    env = {"VERIF_TMP": os.path.join(ctx.scratch, "tmp-")}
    if v.get("kind") == "asan":
        impl = vlib.compile_driver("c16_driver", DRIVER, libs=("kenlm", "kenlm_util"), variant="asan")
        env.update(ASAN_OPTIONS="detect_leaks=0:abort_on_error=0:exitcode=99", VERIF_ALARM="120")
    else:
        impl = vlib.compile_driver("c16_driver", DRIVER, libs=("kenlm", "kenlm_util"))
        if v.get("kind") == "storm":
            env.update(LD_PRELOAD=build_shim(), IO_SHIM_STORM="%d:%d" % (v["seed"], v["permille"]), VERIF_ALARM="60")
        elif v.get("kind") == "shim":
            env.update(LD_PRELOAD=build_shim())
        elif v.get("kind") == "nopunch":
            import glob as _g
            so = sorted(_g.glob(os.path.join(vlib.CACHE, "shim", "c07_nopunch-*.so")))
            if so:
                env.update(LD_PRELOAD=so[-1])
    l = r["case"]
    o = vlib.run_lines(impl, [l], env=env)[0]
    if l.startswith("OFF"):
        msg = oracle_offsets(l, o)
    elif l.startswith("PR "):
        msg = oracle_pread(l, o)
    elif l.startswith("S "):
        msg = oracle(parse_case(l), o)
    else:
        msg = None
        print("large-input case: rerun ./check C16 --tier thorough with VERIF_SEED=%s" % obj.get("seed"))
    print("case:", l[:500], "\nvariant:", v.get("how", "plain"), "\nimpl:", o[:500], "\noracle:", msg or "ok")
    return 1 if msg else 0
