"""C11 -- filtering keeps exactly the n-grams a restricted decoder can query (DESIGN.md section 4, C11).

Implementation under test: bin/filter (always threads:1, always under timeout), util/multi_intersection.hh
through harness/drivers/c11_driver.cc, and bin/query for the query-equivalence clause.
Model: coq/C11 (extracted to ocaml/_build/C11/c11_model).  The specification oracle below is written from the
property text and judges the implementation's files directly."""
import os

import vlib

HERE = os.path.dirname(os.path.abspath(__file__))
DRIVER = os.path.join(vlib.ROOT, "harness", "drivers", "c11_driver.cc")


# ---------------------------------------------------------------------------------------------
# specification oracle (property text)
def is_tag(w):
    return len(w) >= 1 and w[:1] == b"<" and w[-1:] == b">"


def spec_vocab_sentences(data):
    """one vocabulary per non-blank line; words are separated by ASCII white space"""
    return [set(l.split()) for l in data.split(b"\n") if l.split()]


def spec_phrase_sentences(data):
    """phrase mode vocabulary: sentences end at \\n (the tool also ends them at \\f and \\r); phrases are
    separated by tab / vertical tab; words by spaces"""
    out = []
    for line in data.replace(b"\f", b"\n").replace(b"\r", b"\n").split(b"\n"):
        phrases = [tuple(p.split(b" ")) for p in line.replace(b"\v", b"\t").split(b"\t")]
        phrases = [tuple(w for w in p if w) for p in phrases]
        phrases = [p for p in phrases if p]
        if phrases:
            out.append(phrases)
    return out


def derivable(ng, phrases):
    """ng can be read off a concatenation of phrases (any order, repetition): infix of one phrase, or
    (non-empty suffix of a phrase)(whole phrases)*(prefix of a phrase or nothing)"""
    ng = tuple(ng)
    n = len(ng)
    for p in phrases:
        for i in range(len(p) - n + 1):
            if p[i:i + n] == ng:
                return True
    suffixes = set(p[k:] for p in phrases for k in range(len(p)))
    prefixes = set(p[:k] for p in phrases for k in range(1, len(p) + 1))
    full = set(phrases)
    reach = [False] * (n + 1)
    for i in range(1, n + 1):
        if ng[:i] in suffixes:
            reach[i] = True
    for i in range(1, n + 1):
        if reach[i]:
            for j in range(i + 1, n + 1):
                if ng[i:j] in full:
                    reach[j] = True
    if reach[n]:
        return True
    return any(reach[i] and ng[i:] in prefixes for i in range(1, n))


def phrase_words(ws):
    ws = list(ws)
    if ws and is_tag(ws[0]):
        ws = ws[1:]
    out = []
    for w in ws:
        if w == b"</s>":
            break
        out.append(w)
    return out


def spec_targets(case, ngram):
    """set of outputs (indices) that must receive the n-gram, and whether 'only these' is claimed"""
    mode, ctx, phrase = case["mode"], case["ctx"], case["phrase"]
    if mode == "copy":
        return {0}, True
    ws = [w for w in ngram.split(b" ") if w]
    if ctx:
        ws = ws[:-1]
    if phrase:
        sents = spec_phrase_sentences(case["vocab"])
        g = phrase_words(ws)
        n = len(sents)
        ok = [(not g) or derivable(g, s) for s in sents]
        if mode == "union":
            return ({0} if (not g or any(ok)) else set()), False
        return {j for j in range(n) if ok[j]}, False
    nt = [w for w in ws if not is_tag(w)]
    if mode == "single":
        vocab = set(case["vocab"].split())
        return ({0} if all(w in vocab for w in nt) else set()), True
    sents = spec_vocab_sentences(case["vocab"])
    if mode == "union":
        return ({0} if (not nt or any(all(w in s for w in nt) for s in sents)) else set()), True
    return {j for j in range(len(sents)) if all(w in sents[j] for w in nt)}, True


def spec_noutputs(case):
    if case["mode"] != "multiple":
        return 1
    if case["phrase"]:
        return len(spec_phrase_sentences(case["vocab"]))
    return len(spec_vocab_sentences(case["vocab"]))


def parse_arpa_output(data):
    """-> (counts, sections) or raises ValueError: the header must count the lines of each section"""
    lines = data.split(b"\n")
    i = 0
    while i < len(lines) and lines[i] == b"":
        i += 1
    if i >= len(lines) or lines[i] != b"\\data\\":
        raise ValueError("no \\data\\ line")
    i += 1
    counts = []
    while i < len(lines) and lines[i].startswith(b"ngram "):
        k, _, c = lines[i][6:].partition(b"=")
        if int(k) != len(counts) + 1:
            raise ValueError("count lines not consecutive")
        counts.append(int(c))
        i += 1
    sections = []
    for k in range(1, len(counts) + 1):
        while i < len(lines) and lines[i] == b"":
            i += 1
        if i >= len(lines) or lines[i] != b"\\%d-grams:" % k:
            raise ValueError("expected \\%d-grams: got %r" % (k, lines[i] if i < len(lines) else None))
        i += 1
        sec = []
        while i < len(lines) and lines[i] != b"":
            sec.append(lines[i])
            i += 1
        sections.append(sec)
    while i < len(lines) and lines[i] == b"":
        i += 1
    if i >= len(lines) or lines[i] != b"\\end\\":
        raise ValueError("no \\end\\")
    if any(l != b"" for l in lines[i + 1:]):
        raise ValueError("text after \\end\\")
    return counts, sections


def line_ngram(case, line):
    f = line.split(b"\t")
    return f[1] if case["fmt"] == "arpa" else f[0]


def oracle(case, rc, files):
    """None if the implementation's files satisfy the property on this case, else a message"""
    if rc != 0:
        return "filter exited with status %d on a well-formed input" % rc
    n = spec_noutputs(case)
    if len(files) != n:
        return "%d output files, the vocabulary has %d sentences" % (len(files), n)
    secs = case["sections"]
    expected = [[[] for _ in secs] for _ in range(n)]
    optional = [[set() for _ in secs] for _ in range(n)]   # phrase mode: may be kept (over-permissive is allowed)
    for si, sec in enumerate(secs):
        for line in sec:
            must, exact = spec_targets(case, line_ngram(case, line))
            for j in range(n):
                if j in must:
                    expected[j][si].append(line)
    for j in range(n):
        if case["fmt"] == "arpa":
            try:
                counts, got = parse_arpa_output(files[j])
            except ValueError as e:
                return "output %d is not a well-formed ARPA file: %s" % (j, e)
            if len(got) != len(secs):
                return "output %d has %d sections, the input %d" % (j, len(got), len(secs))
            if counts != [len(s) for s in got]:
                return "output %d: header counts %s, sections hold %s lines" % (j, counts, [len(s) for s in got])
        else:
            if files[j] and not files[j].endswith(b"\n"):
                return "output %d does not end with a newline" % j
            got = [files[j].split(b"\n")[:-1]]
        for si in range(len(secs)):
            if case["phrase"]:
                # completeness only: every derivable n-gram is kept; what is kept is a sublist of the input
                if not is_sublist(expected[j][si], got[si]):
                    missing = [l for l in expected[j][si] if l not in got[si]]
                    return "output %d section %d: n-gram(s) readable off the phrases were dropped: %r" % (j, si + 1, missing[:3])
                if not is_sublist(got[si], secs[si]):
                    return "output %d section %d is not a sublist (verbatim, in order) of the input" % (j, si + 1)
            elif got[si] != expected[j][si]:
                extra = [l for l in got[si] if l not in expected[j][si]]
                missing = [l for l in expected[j][si] if l not in got[si]]
                return "output %d section %d: kept lines differ from the specification (extra %r, missing %r%s)" % (
                    j, si + 1, extra[:3], missing[:3], "" if extra or missing else ", order or multiplicity")
    return None


def is_sublist(a, b):
    it = iter(b)
    return all(any(x == y for y in it) for x in a)


# ---------------------------------------------------------------------------------------------
# running the tool
def render_model(case):
    secs = case["sections"]
    if case["fmt"] == "arpa":
        out = b"\\data\\\n" + b"".join(b"ngram %d=%d\n" % (k + 1, len(s)) for k, s in enumerate(secs)) + b"\n"
        for k, s in enumerate(secs):
            out += b"\\%d-grams:\n" % (k + 1) + b"".join(l + b"\n" for l in s) + b"\n"
        return out + b"\\end\\\n"
    data = b"".join(l + b"\n" for l in secs[0])
    if case.get("no_final_newline") and data:
        data = data[:-1]
    return data


def run_filter(ctx, tool, case, tag="c", threads=1, batch=None):
    d = os.path.join(ctx.scratch, tag)
    os.makedirs(d, exist_ok=True)
    for f in os.listdir(d):
        os.remove(os.path.join(d, f))
    mpath = os.path.join(d, "model")
    open(mpath, "wb").write(render_model(case))
    head = ["timeout", "20", tool, case["mode"]] + (["context"] if case["ctx"] else []) + (["phrase"] if case["phrase"] else []) + \
        ["arpa" if case["fmt"] == "arpa" else "raw", "threads:%d" % threads] + (["batch_size:%d" % batch] if batch else [])
    for attempt in range(6):
        if case.get("vocab_as_file"):
            # the other calling convention: vocabulary from a file, model on stdin
            vpath = os.path.join(d, "vocab")
            open(vpath, "wb").write(case["vocab"])
            rc, out, err = vlib.sh(head + ["vocab:" + vpath, os.path.join(d, "out")], input=render_model(case), timeout=30)
        else:
            rc, out, err = vlib.sh(head + ["model:" + mpath, os.path.join(d, "out")], input=case["vocab"], timeout=30)
        if rc not in (126, 127):
            break
        # the binary could not be executed (another check is relinking the shared build cache): not an answer of the tool
        import time
        time.sleep(2 + attempt)
    else:
        raise vlib.InfraError("bin/filter cannot be executed (status %d): %s" % (rc, err[-200:]))
    files = []
    if case["mode"] == "multiple":
        j = 0
        while os.path.exists(os.path.join(d, "out%d" % j)):
            files.append(open(os.path.join(d, "out%d" % j), "rb").read())
            j += 1
    elif os.path.exists(os.path.join(d, "out")):
        files.append(open(os.path.join(d, "out"), "rb").read())
    return rc, files, err


def hexs(b):
    return b.hex() if b else "-"


def model_line(case):
    head = "%s %d %d %s" % (case["mode"], case["ctx"], case["phrase"], hexs(case["vocab"]))
    if case["fmt"] == "arpa":
        return "A " + head + "".join(" S" + "".join(" " + hexs(l) for l in s) for s in case["sections"])
    return "R " + head + "".join(" " + hexs(l) for l in case["sections"][0])


def model_answer(files):
    return "OK" + "".join(" " + hexs(f) for f in files)


# ---------------------------------------------------------------------------------------------
# generators
WORDS = [b"a", b"b", b"c", b"d", b"e", b"aa", b"ab", b"<s>", b"</s>", b"<unk>", b"<x>", b"<>", b"<", b">", b"<a", b"a>",
         b"\xc3\xa9", b"<\xc3\xa9>", b"x<y>", b"A"]
PLAIN = [b"a", b"b", b"c", b"d", b"e", b"aa", b"ab", b"A"]


def gen_vocab(rng, phrase):
    nsent = rng.choice([0, 1, 1, 2, 3, 4, rng.range(1, 7)])
    pool = rng.choice([PLAIN[:3], PLAIN[:5], PLAIN, WORDS])
    out = b""
    for s in range(nsent):
        if phrase:
            nph = rng.range(1, 3)
            phs = []
            for _ in range(nph):
                phs.append(rng.choice([b" ", b" ", b"  "]).join(rng.choice(pool) for _ in range(rng.range(1, 3))))
            line = phs[0]
            for p in phs[1:]:
                line += rng.choice([b"\t", b"\t", b"\v", b"\t\t", b" \t"]) + p
            if rng.chance(1, 8):
                line = b" " + line
            out += line + rng.choice([b"\n", b"\n", b"\n", b"\n\n", b"\r\n", b"\f", b" \n"])
        else:
            ws = [rng.choice(pool) for _ in range(rng.range(1, 5))]
            line = ws[0]
            for w in ws[1:]:
                line += rng.choice([b" ", b" ", b" ", b"  ", b"\t", b"\v", b"\f", b"\r", b" \t "]) + w
            if rng.chance(1, 8):
                line = rng.choice([b" ", b"\t", b"\n", b" \n"]) + line
            out += line + rng.choice([b"\n", b"\n", b"\n", b"\n\n", b" \n", b"\n \n", b"\r\n"])
    if out and rng.chance(1, 5):
        out = out.rstrip(b"\n")         # last sentence ends at end of file
    return out


def gen_ngram(rng, order, pool, ctx):
    ws = [rng.choice(pool) for _ in range(order)]
    if rng.chance(1, 6):
        ws[0] = b"<s>"
    if order > 1 and rng.chance(1, 6):
        ws[-1] = b"</s>"
    g = b" ".join(ws)
    if rng.chance(1, 25) and order > 1:
        g = g.replace(b" ", b"  ", 1)      # an empty token between two words
    if rng.chance(1, 40):
        g = b" " + g
    if rng.chance(1, 40) and not ctx:
        g = g + b" "
    return g


def gen_case(rng):
    mode = rng.choice(["copy", "single", "single", "union", "union", "union", "multiple", "multiple", "multiple"])
    phrase = mode in ("union", "multiple") and rng.chance(1, 3)
    ctx = rng.chance(1, 3)
    fmt = rng.choice(["arpa", "arpa", "raw"])
    vocab = gen_vocab(rng, phrase)
    pool = rng.choice([PLAIN[:3], PLAIN[:3], PLAIN[:5], PLAIN, WORDS])
    case = {"mode": mode, "ctx": ctx, "phrase": phrase, "fmt": fmt, "vocab": vocab, "vocab_as_file": rng.chance(1, 4)}
    if fmt == "arpa":
        norders = rng.choice([1, 2, 3, 3, 4])
        secs = []
        for k in range(1, norders + 1):
            n = rng.choice([0, 1, 2, 5, 9, 10, 11, rng.range(0, 14)])
            sec = []
            for _ in range(n):
                g = gen_ngram(rng, k, pool, ctx)
                line = rng.choice([b"-1.5", b"-0.25", b"0", b"-99"]) + b"\t" + g
                if rng.chance(1, 2):
                    line += b"\t" + rng.choice([b"-0.5", b"0", b"-0"])
                sec.append(line)
            secs.append(sec)
        case["sections"] = secs
    else:
        n = rng.choice([0, 1, 3, 8, rng.range(0, 25)])
        sec = []
        for _ in range(n):
            g = gen_ngram(rng, rng.range(1, 4), pool, ctx)
            r = rng.below(12)
            if r == 0:
                sec.append(g)                              # no tab: the whole line is the n-gram
            elif r == 1:
                sec.append(g + b"\t")
            else:
                sec.append(g + b"\t" + b"%d" % rng.range(1, 1000) + (b"\tmore text" if rng.chance(1, 10) else b""))
        case["sections"] = [sec]
        case["no_final_newline"] = rng.chance(1, 6)
    return case


def gen_exhaustive_phrase_case(rng):
    """every n-gram up to length 4 over 2-3 word types against 1-3 sentences of 1-3 phrases of 1-3 words"""
    import itertools
    W = [b"a", b"b", b"c"][:rng.range(2, 3)]
    sents = [[[rng.choice(W) for _ in range(rng.range(1, 3))] for _ in range(rng.range(1, 3))] for _ in range(rng.range(1, 3))]
    vocab = b"".join(b"\t".join(b" ".join(p) for p in s) + b"\n" for s in sents)
    ngs = [b" ".join(ng) for n in range(1, 5) for ng in itertools.product(W, repeat=n)]
    if rng.chance(1, 3):
        ngs = [b"<s> " + g for g in ngs[:20]] + ngs + [g + b" </s>" for g in ngs[:20]]
    return {"mode": rng.choice(["union", "multiple"]), "ctx": rng.chance(1, 5), "phrase": True, "fmt": "raw", "vocab": vocab,
            "sections": [[g + b"\t1" for g in ngs]], "no_final_newline": False}


def phrase_graph_line(case):
    grams = [line_ngram(case, l) for sec in case["sections"] for l in sec]
    return "P %d %s%s" % (case["ctx"], hexs(case["vocab"]), "".join(" " + hexs(g) for g in grams))


def gen_long_line_case(rng):
    """entries whose length crosses the sizes of the tool's output buffers (8192 bytes for raw counts, 65536 for ARPA):
    just below / at / above one buffer and several buffers; after short lines, first and last in a section, adjacent"""
    fmt = rng.choice(["raw", "raw", "arpa"])
    B = 8192 if fmt == "raw" else 65536
    mode = rng.choice(["copy", "single", "union", "multiple", "single", "union"])
    kinds = ["word", "manywords"] + (["annot", "annot"] if fmt == "raw" else ["third"])
    phrase = mode in ("union", "multiple") and rng.chance(1, 5)
    if phrase:
        kinds = [k for k in kinds if k != "manywords"]
    ctx = rng.chance(1, 4)
    short_words = [b"a", b"b", b"c"]
    longword = [None]

    def long_line(L):
        kind = rng.choice(kinds)
        pre = b"-1.5\t" if fmt == "arpa" else b""
        if kind == "word":
            n = max(3, L - len(pre) - (2 if fmt == "raw" else 0))
            if n > 9000:
                w = b"<" + b"W" * (n - 2) + b">"          # a very long tag: passes in every mode without a vocabulary entry
            else:
                w = b"W" * n
                if longword[0] is None:
                    longword[0] = w
                elif w != longword[0]:
                    return long_line_annot(L) if fmt == "raw" else long_third(L)
            line = pre + w + (b"\t7" if fmt == "raw" else b"")
        elif kind == "manywords":
            # an n-gram of several hundred words; the rest of the length is the annotation / third field
            n = rng.choice([50, 200, 600])
            g = b" ".join(rng.choice(short_words[:2]) for _ in range(n))
            head = pre + g + (b"\t" if fmt == "raw" else b"\t-0.25")
            line = head + (b"y" if fmt == "raw" else b" ") * max(0, L - len(head))
        elif kind == "annot":
            return long_line_annot(L)
        else:
            return long_third(L)
        return line

    def long_line_annot(L):
        g = b" ".join(rng.choice(short_words) for _ in range(rng.range(1, 3)))
        return g + b"\t" + b"x" * max(0, L - len(g) - 1)

    def long_third(L):
        g = b" ".join(rng.choice(short_words) for _ in range(rng.range(1, 2)))
        head = b"-1.5\t" + g + b"\t-0.25"
        return head + b" " * max(0, L - len(head))

    def short_line(k=None):
        g = b" ".join(rng.choice(short_words + [b"zz"]) for _ in range(k or rng.range(1, 3)))
        return (b"-0.5\t" + g) if fmt == "arpa" else g + b"\t%d" % rng.range(1, 99)

    lengths = [B - 1, B, B + 1, B + 2, B - 2, 2 * B - 1, 2 * B, 2 * B + 1, 3 * B + 5, B + rng.range(3, 500)]
    nlong = rng.choice([1, 1, 2, 3])
    layout = rng.choice(["after_short", "first", "last", "adjacent", "alone", "between"])
    longs = [long_line(rng.choice(lengths)) for _ in range(nlong)]
    shorts = [short_line() for _ in range(rng.range(2, 8))]
    if layout == "first":
        lines = longs + shorts
    elif layout == "last" or layout == "after_short":
        lines = shorts + longs
    elif layout == "adjacent":
        lines = shorts[:2] + longs + longs[:1] + shorts[2:]
    elif layout == "alone":
        lines = longs
    else:
        lines = []
        for i, l in enumerate(longs):
            lines += shorts[i::nlong][:3] + [l]
        lines += shorts[:1]
    words = list(short_words) + ([longword[0]] if longword[0] else [])
    if rng.chance(1, 5):
        words = words[:2]                                                   # some entries are dropped
    sep = b"\t" if phrase else b" "
    nsent = 1 if mode in ("copy", "single") else rng.range(1, 3)
    vocab = b"".join(sep.join(words if j == 0 or rng.chance(1, 2) else words[:1]) + b"\n" for j in range(nsent))
    case = {"mode": mode, "ctx": ctx, "phrase": phrase, "fmt": fmt, "vocab": vocab, "vocab_as_file": rng.chance(1, 4)}
    if fmt == "raw":
        case["sections"] = [lines]
        case["no_final_newline"] = rng.chance(1, 6)
    else:
        # ARPA: section k holds k-grams by convention only (the filter does not count words); long lines in the first or last section
        other = [short_line(2) for _ in range(rng.range(0, 4))]
        case["sections"] = rng.choice([[lines], [lines, other], [other, lines], [[short_line(1)], other, lines]])
    return case


def gen_medium_case(rng):
    """a model with many more n-grams of one order than a (small) batch holds, so that with threads >= 2 several
    batches are inside the filter at the same moment"""
    nw = rng.choice([8, 20, 40])
    W = [b"w%d" % i for i in range(nw)] + [b"<s>", b"</s>", b"<unk>"]
    mode = rng.choice(["union", "multiple", "single", "union", "multiple"])
    phrase = mode != "single" and rng.chance(1, 4)
    nsent = rng.choice([1, 3, 8, 15])
    sep = b"\t" if phrase else b" "
    vocab = b"".join(sep.join(b" ".join(rng.choice(W[:nw]) for _ in range(rng.range(1, 3 if phrase else 1)))
                              for _ in range(rng.range(2, 10))) + b"\n" for _ in range(nsent))
    case = {"mode": mode, "ctx": rng.chance(2, 3), "phrase": phrase, "fmt": rng.choice(["raw", "arpa"]), "vocab": vocab,
            "vocab_as_file": rng.chance(1, 4)}
    total = rng.choice([300, 1000, 2500])
    if case["fmt"] == "raw":
        case["sections"] = [[b" ".join(rng.choice(W) for _ in range(rng.range(1, 4))) + b"\t%d" % rng.range(1, 99) for _ in range(total)]]
        case["no_final_newline"] = False
    else:
        secs = []
        for k in range(1, rng.range(2, 4) + 1):
            n = rng.choice([0, 1, total // 3, total // 2]) if k > 1 else total // 3
            secs.append([b"-1.5\t" + b" ".join(rng.choice(W) for _ in range(k)) + (b"\t-0.25" if rng.chance(1, 2) else b"") for _ in range(n)])
        case["sections"] = secs
    return case


def thread_settings(rng, case):
    """(threads, batch_size) pairs: batches much smaller than a section, equal to it, one off, and the default"""
    biggest = max([len(x) for x in case["sections"]] + [1])
    pool = [1, 2, 3, 7, 10, 50, 200, biggest, biggest + 1, max(1, biggest - 1), max(1, biggest // 2)]
    return [(rng.choice([2, 2, 3, 4, 8]), rng.choice(pool)) for _ in range(2)] + ([(rng.choice([2, 4]), None)] if rng.chance(1, 4) else [])


def check_threaded(ctx, tool, case, rc1, files1, settings):
    """the same input with threads >= 2: same status, same bytes as threads:1 (whose files the oracle has judged)"""
    for th, b in settings:
        rc, files, err = run_filter(ctx, tool, case, tag="t", threads=th, batch=b)
        if rc == 124:
            return (th, b), "threads:%d batch_size:%s does not terminate (timeout 20 s)" % (th, b)
        if rc != rc1:
            return (th, b), "threads:%d batch_size:%s exits with status %d (threads:1: %d): %s" % (th, b, rc, rc1, err.strip().split("\n")[-1][:160])
        if files != files1:
            j = next((i for i in range(max(len(files), len(files1))) if i >= len(files) or i >= len(files1) or files[i] != files1[i]), 0)
            a = files1[j].split(b"\n") if j < len(files1) else []
            c = files[j].split(b"\n") if j < len(files) else []
            k = next((i for i in range(max(len(a), len(c))) if i >= len(a) or i >= len(c) or a[i] != c[i]), 0)
            return (th, b), ("threads:%d batch_size:%s writes a different output %d (%d files vs %d): first difference at line %d: %r vs %r with threads:1"
                             % (th, b, j, len(files), len(files1), k + 1, c[k] if k < len(c) else None, a[k] if k < len(a) else None))
    return None, None


def gen_sets(rng):
    k = rng.choice([1, 1, 2, 2, 3, 4, 6])
    univ = rng.choice([3, 6, 12, 40])
    sets = []
    for _ in range(k):
        style = rng.below(5)
        if style == 0:
            s = []
        elif style == 1:
            s = list(range(univ))
        else:
            s = sorted({rng.below(univ) for _ in range(rng.range(1, univ))})
        sets.append(s)
    if k and rng.chance(1, 3):      # force a late common element
        c = univ + rng.below(3)
        sets = [s + [c] for s in sets]
    return "I " + ";".join(",".join("%x" % v for v in s) if s else "-" for s in sets)


def oracle_sets(case, out):
    sets = [[int(v, 16) for v in s.split(",")] if s != "-" else [] for s in case[2:].split(";")]
    common = sorted(set.intersection(*[set(s) for s in sets]))
    f, _, a = out.partition("|")
    expf = "F:" + ("%x" % common[0] if common else "-")
    expa = "A:" + (",".join("%x" % v for v in common) if common else "-")
    if f != expf:
        return "FirstIntersection answered %s, the first common element is %s" % (f, expf)
    if a != expa:
        return "AllIntersection answered %s, the common elements are %s" % (a, expa)
    return None


def corpus_cases():
    import json
    p = os.path.join(vlib.ROOT, "corpus", "C11", "cases.jsonl")
    out = []
    if os.path.exists(p):
        for l in open(p):
            l = l.strip()
            if l and not l.startswith("#"):
                out.append(undump(json.loads(l)))
    return out


def dump(case):
    c = dict(case)
    c["vocab"] = case["vocab"].hex()
    c["sections"] = [[l.hex() for l in s] for s in case["sections"]]
    return c


def undump(c):
    c = dict(c)
    c["vocab"] = bytes.fromhex(c["vocab"])
    c["sections"] = [[bytes.fromhex(l) for l in s] for s in c["sections"]]
    return c


# ---------------------------------------------------------------------------------------------
# query equivalence: bin/query on the original and on the filtered model
def gen_query_case(rng, idx):
    nw = rng.range(3, 9)
    words = [b"w%d" % i for i in range(nw)]
    nsent = rng.range(4, 30)
    corpus = b"".join(b" ".join(rng.choice(words) for _ in range(rng.range(1, 8))) + b"\n" for _ in range(nsent))
    order = rng.range(2, 4)
    mode = rng.choice(["single", "union", "single"])
    ctx = rng.chance(1, 3)
    extra = [b"zz", b"<unk>"]
    if mode == "single":
        vs = [sorted({rng.choice(words + extra) for _ in range(rng.range(1, nw))})]
    else:
        vs = [sorted({rng.choice(words + extra) for _ in range(rng.range(1, nw))}) for _ in range(rng.range(1, 3))]
    vocab = b"".join(b" ".join(v) + b"\n" for v in vs)
    sents = []
    for _ in range(rng.range(5, 15)):
        v = rng.choice(vs)
        sents.append(b" ".join(rng.choice(v) for _ in range(rng.range(1, 7))))
    return {"corpus": corpus, "order": order, "mode": mode, "ctx": ctx, "vocab": vocab, "sentences": sents}


def strip_ids(text):
    import re
    return re.sub(rb"=\d+ ", b" ", text)


def run_query_case(ctx, tools, qc):
    d = os.path.join(ctx.scratch, "q")
    os.makedirs(d, exist_ok=True)
    arpa = os.path.join(d, "m.arpa")
    rc, out, err = vlib.sh(["timeout", "60", tools["lmplz"], "-o", str(qc["order"]), "-S", "20M", "--vocab_estimate", "1000", "-T", d + "/",
                            "--discount_fallback", "--arpa", arpa], input=qc["corpus"], timeout=90)
    if rc != 0:
        return ("skip", "lmplz rc=%d %s" % (rc, err[-200:]))
    filt = os.path.join(d, "f.arpa")
    args = ["timeout", "20", tools["filter"], qc["mode"]] + (["context"] if qc["ctx"] else []) + ["arpa", "threads:1", "model:" + arpa, filt]
    rc, out, err = vlib.sh(args, input=qc["vocab"], timeout=30)
    if rc in (126, 127):
        return ("skip", "bin/filter could not be executed (shared build cache being relinked)")
    if rc != 0:
        return ("fail", "filter exited %d: %s" % (rc, err[-300:]))
    text = b"".join(s + b"\n" for s in qc["sentences"])
    res = []
    for m in (arpa, filt):
        rc, out, err = vlib.sh(["timeout", "30", tools["query"], "-v", "word", "-v", "sentence", m], input=text, timeout=40, binary=True)
        if rc in (126, 127):
            return ("skip", "bin/query could not be executed (shared build cache being relinked)")
        if rc != 0:
            if m == arpa:
                # the unfiltered lmplz model itself is not loadable (e.g. a -inf back-off from a degenerate corpus): no
                # statement about filtering can be tested on it (the loadability of lmplz output is property C06)
                return ("skip", "query rejects the original model: %s" % err[-200:].decode("utf-8", "replace"))
            return ("fail", "query on %s exited %d: %s" % (os.path.basename(m), rc, err[-300:].decode("utf-8", "replace")))
        res.append(strip_ids(out).split(b"\n"))
    a, b = res
    for i, s in enumerate(qc["sentences"]):
        if i >= len(a) or i >= len(b) or a[i] != b[i]:
            return ("fail", "sentence %r: original model answers %r, filtered model %r" % (s, a[i] if i < len(a) else None, b[i] if i < len(b) else None))
    dropped = open(arpa, "rb").read().count(b"\n") - open(filt, "rb").read().count(b"\n")
    return ("ok", dropped)


# ---------------------------------------------------------------------------------------------
def run(ctx):
    pres = vlib.coq_prove("C11")
    ctx.set_proof(pres)
    rng = ctx.rng
    tools = {n: vlib.tool(n) for n in ("filter", "query", "lmplz")}
    impl_sets = vlib.compile_driver("c11_driver", DRIVER, libs=("kenlm_util",))

    # (1) intersections
    set_cases = ["I 1,2,3;2,3;0,3,5", "I -", "I -;1", "I 0", "I 1,5,9;1,5,9", "I 0,2,4,6;1,3,5,7", "I 0,1,2,3,4,5,6,7,8,9;9;0,9"]
    set_cases += [gen_sets(rng) for _ in range(ctx.pick(2000, 40000))]
    sout = vlib.run_lines(impl_sets, set_cases)
    spec_fail = []
    for c, o in zip(set_cases, sout):
        msg = o if o.startswith("DRIVER-DIED") or o == "<no answer>" else oracle_sets(c, o)
        if msg:
            spec_fail.append(("sets", c, o, msg))

    # (2) the filter tool
    cases = corpus_cases()
    ctx.count("corpus_cases", len(cases))
    cases += [gen_case(rng) for _ in range(ctx.pick(1000, 12000))]
    cases += [gen_exhaustive_phrase_case(rng) for _ in range(ctx.pick(60, 1000))]
    longc = [gen_long_line_case(rng) for _ in range(ctx.pick(20, 400))]
    cases += longc
    ctx.coverage["long_line_cases"] = len(longc)
    medium = [gen_medium_case(rng) for _ in range(ctx.pick(12, 200))]
    n_small = len(cases)
    cases += medium
    threaded_runs = 0
    impl_ans = []
    nontrivial = set()
    kinds = {}
    for i, case in enumerate(cases):
        rc, files, err = run_filter(ctx, tools["filter"], case)
        impl_ans.append(model_answer(files) if rc == 0 else "RC%d" % rc)
        msg = oracle(case, rc, files)
        k = "%s%s%s/%s" % (case["mode"], "+context" if case["ctx"] else "", "+phrase" if case["phrase"] else "", case["fmt"])
        kinds[k] = kinds.get(k, 0) + 1
        if msg:
            spec_fail.append(("filter", case, impl_ans[-1], msg))
        elif i >= n_small or rng.chance(1, 6):
            # the thread / batch options must not change what is written (every medium case, a sixth of the small ones)
            settings = thread_settings(rng, case)
            threaded_runs += len(settings)
            st, tmsg = check_threaded(ctx, tools["filter"], case, rc, files, settings)
            if tmsg:
                spec_fail.append(("threads", case, st, tmsg))
        total = sum(len(s) for s in case["sections"])
        if rc == 0 and files and case["mode"] != "copy":
            keptn = [f.count(b"\t") if case["fmt"] == "arpa" else f.count(b"\n") for f in files]
            if any(0 < k2 for k2 in keptn) and any(k2 < total for k2 in keptn):
                nontrivial.add(model_line(case))

    # (3) query equivalence through bin/query
    qcases = [gen_query_case(rng, i) for i in range(ctx.pick(40, 600))]
    qok = qdrop = 0
    for qc in qcases:
        st, info = run_query_case(ctx, tools, qc)
        if st == "fail":
            spec_fail.append(("query", {k: (v.hex() if isinstance(v, bytes) else [x.hex() for x in v] if isinstance(v, list) else v) for k, v in qc.items()}, "", info))
        elif st == "ok":
            qok += 1
            qdrop += 1 if info > 0 else 0

    # (4) correspondence with the extracted model
    mismatches = []
    model_broken = None
    try:
        model = vlib.ocaml_model("C11")
        # (vlib.run_lines starts the model with the largest stack allowed: the extracted list functions are not tail recursive)
        all_in = set_cases + [model_line(c) for c in cases]
        mout = vlib.run_lines(model, all_in, timeout=900)
        cannot = []
        for idx, (c, a, b) in enumerate(zip(set_cases + cases, sout + impl_ans, mout)):
            if b.startswith("MODEL-EXCEPTION") or b.startswith("DRIVER-DIED") or b == "<no answer>":
                # a model that cannot answer is no verdict about the tool: ask again for this case alone
                b = vlib.run_lines(model, [all_in[idx]], timeout=300)[0]
                if b.startswith("MODEL-EXCEPTION") or b.startswith("DRIVER-DIED") or b == "<no answer>":
                    cannot.append((c, b))
                    continue
            if a != b:
                mismatches.append((c, a, b))
        ctx.coverage["model_cannot_answer"] = len(cannot)
        if cannot:
            c, b = cannot[0]
            ctx.report("model:cannot-answer", "the extracted model gives no answer on %d case(s) (infrastructure, not a verdict about the tool): %s" % (len(cannot), b[:120]),
                       {"case": c if isinstance(c, str) else dump(c), "model": b[:300]}, found=False)
        # the structure-faithful model of the phrase graph search must agree with the decision procedure that the
        # byte comparison above ties to the tool
        pcases = [c for c in cases if c["phrase"] and sum(len(x) for x in c["sections"])]
        pout = vlib.run_lines(model, [phrase_graph_line(c) for c in pcases], timeout=900)
        for c, o in zip(pcases, pout):
            if o != "same":
                mismatches.append((c, "graph-search model == derivable_b", o))
        ctx.coverage["phrase_graph_model_cases"] = len(pcases)
    except vlib.ModelBroken as e:
        model_broken = str(e)

    ctx.count("evaluations", len(set_cases) + len(cases) + len(qcases))
    ctx.coverage["distinct_nontrivial"] = len(nontrivial) + qdrop
    ctx.coverage["rule"] = ("filter cases: (mode x context x phrase x arpa/raw) with vocabulary files using every white-space byte, blank lines, "
                            "missing final newline, tag-like words (<>, <, x<y>), 0..7 sentences, sections of 0/1/9/10/11 lines (header digit "
                            "count changes), n-grams with double/leading/trailing spaces.  Non-trivial filter case: some output keeps at least "
                            "one line and some output drops at least one (distinct = distinct case).  Query cases: lmplz model, filtered, "
                            "bin/query on both; non-trivial when the filter removed lines.  Intersection cases: 1-6 sorted sets over a small universe.")
    ctx.coverage["case_kinds"] = kinds
    ctx.coverage["intersection_cases"] = len(set_cases)
    ctx.coverage["medium_cases"] = len(medium)
    ctx.coverage["threaded_runs_compared_with_threads1"] = threaded_runs
    ctx.coverage["query_cases_ok"] = qok
    ctx.coverage["traces_validated_against_impl"] = len(set_cases) + len(cases) - len(mismatches)
    for c, a in list(zip(cases, impl_ans))[:3]:
        ctx.sample({"case": model_line(c)[:300], "impl": a[:300]})
    ctx.assumptions += ["filter is run with threads:1 (multi-threaded behaviour is property C12)",
                        "the ARPA container (\\data\\ header, section headers, \\end\\) of the input is rendered canonically by the harness; "
                        "lines never contain \\r or \\n (FilePiece::ReadLine strips them) and, with `context`, n-grams have no trailing space",
                        "phrase mode: 64-bit hashes of words/phrases are treated as injective (a collision only makes the filter keep more)",
                        "extraction (ExtrOcamlBasic only), the OCaml driver and this Python oracle are trusted"]
    # decide
    for kind, c, o, msg in spec_fail[:5]:
        if kind == "sets":
            ctx.report("spec:multi_intersection", msg, {"kind": "sets", "case": c, "impl_output": o})
        elif kind == "filter":
            sig = "spec:filter:%s%s%s:%s" % (c["mode"], ":context" if c["ctx"] else "", ":phrase" if c["phrase"] else "", c["fmt"])
            ctx.report(sig, msg, {"kind": "filter", "case": dump(c), "impl_output": o[:2000]})
        elif kind == "threads":
            sig = "spec:filter:threads>1:%s%s%s:%s" % (c["mode"], ":context" if c["ctx"] else "", ":phrase" if c["phrase"] else "", c["fmt"])
            ctx.report(sig, msg, {"kind": "threads", "case": dump(c), "threads": o[0], "batch_size": o[1]})
        else:
            ctx.report("spec:query-equivalence", msg, {"kind": "query", "case": c})
    if not spec_fail:
        if mismatches:
            c, a, b = mismatches[0]
            ctx.report("correspondence:" + ("sets" if isinstance(c, str) else "filter"),
                       "extracted model and implementation disagree (the specification oracle accepts the implementation's answer)",
                       {"correspondence": "C11 extracted model vs bin/filter / c11_driver", "case": c if isinstance(c, str) else dump(c),
                        "impl": a[:2000], "model": b[:2000], "n_mismatches": len(mismatches)}, found=False)
        elif model_broken:
            ctx.report("model-broken", "executable model no longer builds", {"log": model_broken[-2000:]}, found=False)
        ctx.report_proof(pres)
    ctx.coverage["spec_oracle_failures"] = len(spec_fail)
    ctx.coverage["correspondence_mismatches"] = len(mismatches)


def replay(ctx, obj):
    r = obj["replay"]
    kind = r.get("kind")
    if kind == "sets":
        impl = vlib.compile_driver("c11_driver", DRIVER, libs=("kenlm_util",))
        o = vlib.run_lines(impl, [r["case"]])[0]
        msg = oracle_sets(r["case"], o)
        print("case:", r["case"], "\nimpl:", o, "\noracle:", msg or "ok")
        return 1 if msg else 0
    if kind == "filter":
        case = undump(r["case"])
        rc, files, err = run_filter(ctx, vlib.tool("filter"), case)
        msg = oracle(case, rc, files)
        print("case:", model_line(case)[:500], "\nrc:", rc, "\nfiles:", [f[:300] for f in files], "\noracle:", msg or "ok")
        return 1 if msg else 0
    if kind == "threads":
        case = undump(r["case"])
        tool = vlib.tool("filter")
        rc, files, err = run_filter(ctx, tool, case)
        msg = oracle(case, rc, files)
        bad = 0
        for rep in range(5):      # a data race does not show on every run
            st, tmsg = check_threaded(ctx, tool, case, rc, files, [(r["threads"], r["batch_size"])])
            if tmsg:
                bad += 1
                print(tmsg)
        print("threads:1 oracle:", msg or "ok", "| threaded runs differing from threads:1: %d of 5" % bad)
        return 1 if (msg or bad) else 0
    if kind == "query":
        c = r["case"]
        qc = {k: (bytes.fromhex(v) if k in ("corpus", "vocab") else [bytes.fromhex(x) for x in v] if k == "sentences" else v) for k, v in c.items()}
        st, info = run_query_case(ctx, {n: vlib.tool(n) for n in ("filter", "query", "lmplz")}, qc)
        print(st, info)
        return 1 if st == "fail" else 0
    print("replay file names a proof/correspondence break without a concrete input:", obj.get("what"))
    return 1
