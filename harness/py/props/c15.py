"""C15 -- I/O failures are never silent: success implies complete, correct output (DESIGN.md section 4, C15).

Three layers:
  proof            coq/C15: the retry loops of util/file.cc, FileStream and tool runs as functions of an outcome oracle
  correspondence   the REAL util functions driven under the LD_PRELOAD shim by the same outcome list as the extracted model
  tool level       specification oracle on lmplz / build_binary / filter / interpolate:
                     fault enumeration with strace (fail call k of each kind)  -> non-zero exit, or exit 0 with identical outputs
                     EINTR / short-transfer storms through the shim            -> exit 0 with identical outputs
"""
import concurrent.futures
import hashlib
import os
import re
import shutil
import signal
import subprocess
import time

import vlib

ERRNO = {"ENOSPC": 28, "EIO": 5, "ENOMEM": 12, "EMFILE": 24, "EDQUOT": 122}
EINTR = 4


# ---------------------------------------------------------------------------------------------
def build_shim():
    src = os.path.join(vlib.ROOT, "harness", "shim", "io_shim.c")
    outdir = os.path.join(vlib.CACHE, "shim")
    os.makedirs(outdir, exist_ok=True)
    key = hashlib.sha256(open(src, "rb").read()).hexdigest()[:16]
    so = os.path.join(outdir, "io_shim-%s.so" % key)
    if not os.path.exists(so):
        tmp = so + ".%d.tmp" % os.getpid()
        vlib.sh(["gcc", "-O2", "-shared", "-fPIC", "-o", tmp, src, "-ldl"], timeout=120, check=True)
        os.replace(tmp, so)
    return so


# ---------------------------------------------------------------------------------------------
# correspondence on the loops: generators
def hexs(b):
    return b.hex() if b else "-"


def rnd_bytes(rng, n):
    return bytes(rng.below(256) for _ in range(n))


def orc(items):
    return ",".join(items) if items else "-"


def gen_oracle(rng, need, style=None):
    """an outcome list for a transfer of `need` bytes, aimed at the case splits of the loops"""
    style = style or rng.choice(["whole", "ones", "exact_then_more", "short", "short", "eintr_storm", "fail_at", "fail_at",
                                 "zero_at", "exhaust", "big_first", "eintr_before_fail"])
    err = rng.choice([28, 5, 12, 122, 9, 27])
    out = []
    if style == "whole":
        out = ["d%d" % max(need, 1)] + ["d%d" % rng.range(1, 9)] * 2
    elif style == "big_first":
        out = ["d%d" % (need + rng.range(1, 100000))] + ["d1"] * 2
    elif style == "ones":
        out = ["d1"] * (need + 1)
    elif style == "exact_then_more":
        a = rng.range(0, need)
        out = (["d%d" % a] if a else []) + ["d%d" % (need - a)] + ["d3"]
    elif style in ("short", "eintr_storm", "fail_at", "zero_at", "exhaust", "eintr_before_fail"):
        left = need
        chunks = []
        while left > 0:
            c = rng.choice([1, 2, rng.range(1, max(1, left)), left, rng.range(1, 4096)])
            chunks.append(c)
            left -= min(c, left)
        out = ["d%d" % c for c in chunks] + ["d%d" % rng.range(1, 5)]
        if style == "eintr_storm":
            o2 = []
            for x in out:
                o2 += ["i"] * rng.choice([0, 0, 1, 2, 5])
                o2.append(x)
            out = o2
        elif style in ("fail_at", "zero_at", "eintr_before_fail"):
            k = rng.below(len(out))
            bad = "f%d" % err if style != "zero_at" else "d0"
            out = out[:k] + (["i"] * rng.range(1, 3) if style == "eintr_before_fail" else []) + [bad] + out[k:k + 2]
        elif style == "exhaust":
            out = out[:rng.below(len(out))] + ["i"] * rng.choice([0, 2])
    if rng.chance(1, 6):
        out = ["i"] * rng.range(1, 3) + out
    return out


SIZES = [0, 1, 2, 3, 7, 8, 19, 20, 21, 255, 256, 4095, 4096, 4097]


def gen_loop_cases(rng, n):
    cases = []
    for _ in range(n):
        kind = rng.choice(["W", "W", "R", "R", "P", "PR", "PW", "PW", "S"])
        size = rng.choice(SIZES + [rng.range(0, 64), rng.range(0, 9000)])
        if kind == "W":
            cases.append("W %s %s" % (hexs(rnd_bytes(rng, size)), orc(gen_oracle(rng, size))))
        elif kind == "R":
            amount = rng.choice([size, size, max(0, size - 1), size + 1, size + rng.range(0, 50), rng.range(0, size + 1)])
            cases.append("R %d %s %d %s" % (rng.below(2), hexs(rnd_bytes(rng, size)), amount, orc(gen_oracle(rng, min(amount, size) + (1 if amount > size else 0)))))
        elif kind == "P":
            amount = rng.choice([size, size + 1, rng.range(0, size + 1), 1])
            cases.append("P %s %d %s" % (hexs(rnd_bytes(rng, size)), amount, orc(gen_oracle(rng, 1, rng.choice(["whole", "short", "eintr_storm", "fail_at", "zero_at", "exhaust"])))))
        elif kind == "PR":
            off = rng.choice([0, 1, size, size + 1, rng.range(0, size + 1)])
            want = rng.choice([max(0, size - off), max(0, size - off), max(0, size - off) + 1, rng.range(0, max(0, size - off) + 1)])
            cases.append("PR %s %d %d %s" % (hexs(rnd_bytes(rng, size)), want, off, orc(gen_oracle(rng, want))))
        elif kind == "PW":
            flen = rng.choice([0, 1, size, rng.range(0, 5000)])
            off = rng.choice([0, 1, flen, flen + 1, flen + rng.range(0, 5000), rng.range(0, flen + 1)])
            cases.append("PW %s %s %d %s" % (hexs(rnd_bytes(rng, flen)), hexs(rnd_bytes(rng, size)), off, orc(gen_oracle(rng, size))))
        else:
            o = rng.choice([["d1"], ["i"], ["f%d" % rng.choice([5, 28, 122])], [], ["d0"], ["i", "d1"]])
            cases.append("S %s %d %s" % (rng.choice("ft"), rng.range(0, 10000), orc(o)))
    return cases


def compress(fmt, data):
    import bz2
    import gzip
    import lzma
    if fmt == "gz":
        return gzip.compress(data, 6, mtime=0)
    if fmt == "bz2":
        return bz2.compress(data)
    if fmt == "xz":
        return lzma.compress(data)
    return data


def decompress(blob):
    import bz2
    import gzip
    import lzma
    if blob[:2] == b"\x1f\x8b":
        return gzip.decompress(blob)
    if blob[:3] == b"BZh":
        return bz2.decompress(blob)
    if blob[:6] == b"\xfd7zXZ\x00":
        return lzma.decompress(blob)
    return blob


def transient_oracle(rng, first):
    """only transient conditions: a first read of `first` bytes, then interruptions and short reads, never a failure;
    long enough for any input of the generator"""
    o = ["i"] * rng.choice([0, 0, 1, 2]) + ["d%d" % first]
    for _ in range(rng.range(0, 12)):
        o += ["i"] * rng.choice([0, 0, 1]) + ["d%d" % rng.choice([1, 2, 3, 5, 6, 7, 64, 4096])]
    return o + ["d65536"] * 40


def gen_compressed_cases(rng, n):
    """ReadFactory's format sniffing and util::ReadCompressed under short first reads: the first transfer is shorter than
    each magic (gzip 2, bzip2 3, xz 6 bytes), exactly as long, one longer"""
    cases = []
    for _ in range(n):
        text = b" ".join(rng.choice([b"a", b"bb", b"looking", b"on", b"<s>", b"\xc3\xa9"]) for _ in range(rng.choice([0, 1, 3, 40, 400]))) + b"\n"
        if rng.chance(1, 5):
            text = rnd_bytes(rng, rng.choice([0, 1, 5, 6, 7, 300]))
        if rng.chance(1, 3):
            # uncompressed input: what ReadFactory sniffed is observable as the first Read()
            if text[:2] == b"\x1f\x8b" or text[:3] == b"BZh" or text[:6] == b"\xfd7zXZ\x00":
                text = b"x" + text
            o = transient_oracle(rng, rng.choice([1, 2, 3, 5, 6, 7])) if rng.chance(3, 4) else gen_oracle(rng, min(6, len(text)))
            cases.append("SN %s %s" % (hexs(text), orc(o)))
        else:
            fmt = rng.choice(["gz", "bz2", "xz", "plain"])
            blob = compress(fmt, text)
            first = rng.choice([1, 2, 3, 4, 5, 6, 7, rng.range(1, 9)])
            o = transient_oracle(rng, first) if rng.chance(5, 6) else gen_oracle(rng, len(blob)) + ["d65536"] * 3
            cases.append("RC %s %s" % (hexs(blob), orc(o)))
    return cases


def gen_stream_cases(rng, n, kconst):
    kmax, k16, k32, k64 = kconst
    cases = []
    for _ in range(n):
        bufsize = rng.choice([0, 1, kmax - 1, kmax, kmax + 1, 32, 64, 257, 8192])
        cap = max(bufsize, kmax)
        ops = []
        total = 0
        fill = 0
        for _ in range(rng.range(0, 14)):
            r = rng.below(10)
            if r < 5:
                room = cap - fill
                ln = rng.choice([0, 1, room, room + 1, max(0, room - 1), cap, cap + 1, rng.range(0, 2 * cap + 2), rng.range(0, 40)])
                ln = min(ln, 20000)
                ops.append("w" + (rnd_bytes(rng, ln).hex() if ln else ""))
                total += ln
                fill = fill + ln if fill + ln <= cap else (ln if ln <= cap else 0)
            elif r < 8:
                which = rng.choice("abc")
                top = {"a": 65535, "b": 4294967295, "c": 18446744073709551615}[which]
                v = rng.choice([0, 9, 10, top, top - 1, rng.below(top + 1), rng.below(1000)])
                ops.append("%s%d" % (which, v))
                total += len(str(v))
                fill = (fill + len(str(v))) % (cap + 1)
            elif r < 9:
                ops.append("p%02x" % rng.below(256))
                total += 1
            else:
                ops.append("f")
                fill = 0
        nflush = len(ops) + 2
        o = gen_oracle(rng, max(total, 1), rng.choice(["whole", "short", "short", "eintr_storm", "fail_at", "fail_at", "zero_at", "exhaust", "eintr_before_fail"]))
        o = o + ["d%d" % rng.range(1, 70000)] * nflush if rng.chance(3, 4) else o
        cases.append("FS %d %s %s" % (bufsize, orc(o), ",".join(ops) if ops else "-"))
    return cases


# ---------------------------------------------------------------------------------------------
# specification oracle for the loop cases, written from the property text:
#   * a normal return means the whole transfer happened and nothing else;
#   * otherwise what was transferred is a strict prefix (never wrong bytes, never too many);
#   * an exception is raised only when the oracle contains a failure (Fail / a zero-length transfer) and a
#     failure that is reached is never swallowed;
#   * interrupted calls do not change the answer (checked by running the case again with every `i` removed).
def parse_oracle(s):
    return [] if s == "-" else s.split(",")


def unhex(h):
    return b"" if h == "-" else bytes.fromhex(h)


def loop_oracle(case, out):
    f = case.split()
    o = out.split()
    if not o or o[0].startswith("died") or o[0].startswith("other") or o[0] == "BAD-CASE" or "MISMATCH" in out:
        return "unexpected answer %r" % out
    st = o[0]
    kind = f[0]
    oracle = parse_oracle(f[-1] if kind != "FS" else f[2])
    has_failure = any(x.startswith("f") or x == "d0" for x in oracle)
    if kind == "S":
        has_failure = has_failure or "i" in oracle      # one call, no retry: EINTR surfaces as an exception
    if st == "zero" and "d0" not in oracle:
        return "zero-length-transfer exception although no call transferred nothing"
    if st not in ("ok", "nooracle", "exc") and not has_failure and not (kind in ("R", "PR") and st == "eof"):
        return "exception %s although no call failed" % st
    if kind == "W":
        data, got = unhex(f[1]), unhex(o[1])
        if st == "ok" and got != data:
            return "returned normally but the file holds %d of %d bytes / different bytes" % (len(got), len(data))
        if st != "ok" and not (data.startswith(got) and len(got) < len(data)):
            return "failed, but the file is not a strict prefix of the data"
    elif kind in ("R", "P"):
        src = unhex(f[2] if kind == "R" else f[1])
        amount = int(f[3] if kind == "R" else f[2])
        got = unhex(o[1])
        if not src.startswith(got) or len(got) > amount:
            return "delivered bytes are not a prefix of the file / exceed the request"
        if kind == "R" and f[1] == "1" and st == "ok" and len(got) != amount:
            return "ReadOrThrow returned normally with %d of %d bytes" % (len(got), amount)
        if kind == "R" and st == "ok" and "d0" not in oracle and got != src[:amount]:
            return "normal return without complete data although the kernel never reported end of file early"
        if kind == "R" and st == "eof" and len(src) >= amount and "d0" not in oracle:
            return "EndOfFileException although the file holds enough bytes"
    elif kind == "PR":
        file, size, off = unhex(f[1]), int(f[2]), int(f[3])
        got = unhex(o[1])
        if not file[off:].startswith(got) or len(got) > size:
            return "delivered bytes are not the bytes at the offset"
        if st == "ok" and len(got) != size:
            return "ErsatzPRead returned normally with %d of %d bytes" % (len(got), size)
    elif kind == "PW":
        file, data, off = unhex(f[1]), unhex(f[2]), int(f[3])
        after, m = unhex(o[1]), int(o[2])
        if st == "ok" and m != len(data):
            return "ErsatzPWrite returned normally after %d of %d bytes" % (m, len(data))
        if st != "ok" and m >= len(data) and data:
            return "failed although everything was transferred"
        exp = bytearray(file)
        if m:
            if len(exp) < off:
                exp += b"\0" * (off - len(exp))
            exp[off:off + m] = data[:m]
        if bytes(exp) != after:
            return "file after the call is not the old file with the first %d bytes stored at %d" % (m, off)
    elif kind in ("SN", "RC"):
        blob = unhex(f[1])
        got = unhex(o[1])
        transient_only = not has_failure and len([x for x in oracle if x != "i"]) >= 30
        if st == "exc" and not has_failure and st != "nooracle":
            return "the decompressor rejected the input although every call succeeded"
        if kind == "RC":
            want = decompress(blob)
            if st == "ok" and "d0" not in oracle and got != want:      # (a read returning 0 IS end of input)
                return "ReadCompressed delivered %d bytes that are not the decompressed input (%d bytes): short or interrupted reads changed the result" % (len(got), len(want))
            if transient_only and st != "ok":
                return "only transient conditions, yet status %s" % st
        else:
            if st == "ok" and "d0" not in oracle and got != blob[:6]:
                return "the header handed to DetectMagic is %d bytes, the input starts with %d" % (len(got), len(blob[:6]))
    elif kind == "FS":
        got = unhex(o[1])
        want = b"".join(stream_data(op) for op in ([] if f[3] == "-" else f[3].split(",")))
        if st == "ok" and got != want:
            return "stream finished normally but the file differs from the concatenation of the arguments"
    return None


def stream_data(op):
    if op[0] == "w":
        return bytes.fromhex(op[1:])
    if op[0] in "abc":
        return op[1:].encode()
    if op[0] == "p":
        return bytes.fromhex(op[1:])
    return b""


def strip_case(case):
    f = case.split()
    i = 2 if f[0] == "FS" else len(f) - 1
    o = [x for x in parse_oracle(f[i]) if x != "i"]
    f[i] = orc(o)
    return " ".join(f)


def nontrivial(case):
    f = case.split()
    o = parse_oracle(f[2] if f[0] == "FS" else f[-1])
    kinds = {x[0] if x != "d0" else "z" for x in o}
    return len(o) >= 2 and (len(kinds) >= 2 or len({x for x in o}) >= 2)


# ---------------------------------------------------------------------------------------------
# tool level
class Tool:
    def __init__(self, name, argv, outputs, stdin=None, stdout=None, binary=None, prepare=None, focus=None, cap=None):
        self.name, self.argv, self.outputs, self.stdin, self.stdout, self.binary = name, argv, outputs, stdin, stdout, binary
        self.prepare = prepare
        # focus: in the quick tier enumerate only these syscall kinds (the configuration differs from an already fully
        # enumerated one only in how its input is read); the thorough tier enumerates everything
        self.focus = focus
        self.cap = cap          # quick-tier number of call indices per syscall kind (default 12)


def pruned_arpa(rng, order, nchains):
    """an SRILM-style pruned model: every listed n-gram has its prefix (context) listed, but suffixes are pruned away at random
    ("blank" n-grams for the trie builder), and back-offs are omitted where nothing forces them -- so the builder has to revise
    records of its temporary files in place (BackoffMessages::Apply -> RecordReader::Overwrite, unigram revision)"""
    words = ["a", "b", "c", "d", "e", "f", "g"]
    grams = {1: {("<unk>",), ("<s>",), ("</s>",)} | {(w,) for w in words}}
    for n in range(2, order + 1):
        grams[n] = set()
    noback = set()
    for c in range(nchains):
        ln = rng.range(2, order)
        chain = tuple(rng.choice(words) for _ in range(ln))
        if rng.chance(1, 3):
            chain = ("<s>",) + chain[1:]
        if c < 3 and order >= 4:
            # the pattern that makes the builder revise an n-gram record in place: w1..wn listed (n >= 4), its suffix w2..wn pruned,
            # the middle w2..w(n-1) listed WITHOUT a back-off; distinct words keep other chains from listing an extension of it
            ln = rng.range(4, order)
            chain = tuple(rng.choice(words[:3]) if i == 0 else "m%d_%d" % (c, i) for i in range(ln))
            grams[ln - 2].add(chain[1:ln - 1])
            for j in range(2, ln - 1):
                grams[j].add(chain[1:1 + j])        # prefixes of the middle
            noback.add(chain[1:ln - 1])
            for w in chain[1:]:
                grams[1].add((w,))
            for j in range(2, ln + 1):
                grams[j].add(chain[:j])
            continue
        for j in range(2, ln + 1):
            grams[j].add(chain[:j])                 # all prefixes (contexts)
        for i in range(1, ln - 1):
            if rng.chance(1, 3):                    # keep some suffixes, prune the others
                for j in range(2, ln - i + 1):
                    grams[j].add(chain[i:i + j])
    lines = ["\\data\\"] + ["ngram %d=%d" % (n, len(grams[n])) for n in range(1, order + 1)] + [""]
    for n in range(1, order + 1):
        lines.append("\\%d-grams:" % n)
        ctxs = {g[:-1] for g in grams.get(n + 1, ())}
        for g in sorted(grams[n]):
            prob = -(1 + rng.below(160)) / 64.0
            bo = ""
            if n < order and g[-1] != "</s>" and g not in noback and (g in ctxs and rng.chance(2, 3) or rng.chance(1, 4)):
                bo = "\t%s" % (-(1 + rng.below(64)) / 64.0)
            if g == ("<s>",):
                prob, bo = -99.0, "\t-0.5"
            lines.append("%s\t%s%s" % (prob, " ".join(g), bo))
        lines.append("")
    return "\n".join(lines + ["\\end\\", ""])


def make_inputs(ctx, d):
    """small inputs, deterministic from the seed"""
    rng = ctx.rng.fork()
    words = ["a", "b", "c", "d", "e", "f", "g", "h", "i", "j", "k", "l"]
    for name, nw, ns in (("corpus1.txt", 12, 60), ("corpus2.txt", 10, 50)):
        with open(os.path.join(d, name), "w") as f:
            for _ in range(ns):
                f.write(" ".join(words[rng.below(nw)] for _ in range(rng.range(2, 9))) + "\n")
    # a corpus that does not fit a 1 MB sort budget: the external sort really spills (several on-disk runs, MergeQueue refills)
    big = ["w%d" % i for i in range(700)]
    for name, ns in (("corpus3.txt", 3500), ("corpus4.txt", 2500)):
        with open(os.path.join(d, name), "w") as f:
            for _ in range(ns):
                f.write(" ".join(big[min(rng.below(700), rng.below(700))] for _ in range(rng.range(3, 12))) + "\n")
    with open(os.path.join(d, "vocab.txt"), "w") as f:
        f.write("a b c d e x looking on also would\n")
    shutil.copy(os.path.join(vlib.REPO, "lm", "test.arpa"), os.path.join(d, "test.arpa"))
    for src in ("corpus1.txt", "test.arpa"):
        data = open(os.path.join(d, src), "rb").read()
        for fmt in ("gz", "bz2", "xz"):
            open(os.path.join(d, src + "." + fmt), "wb").write(compress(fmt, data))
    open(os.path.join(d, "pruned4.arpa"), "w").write(pruned_arpa(rng, 4, 14))
    open(os.path.join(d, "pruned5.arpa"), "w").write(pruned_arpa(rng, 5, 18))
    # a vocabulary file of several sentences that spans several 8191-byte reads of an ifstream
    tw = ["looking", "on", "a", "little", "more", "loin", "also", "would", "consider", "higher", "to", "look", "good", "the", "screening", "of", "biarritz", "not", "in", "."]
    with open(os.path.join(d, "bigvocab.txt"), "w") as f:
        for i in range(3):
            f.write(" ".join(rng.choice(tw[i * 5:i * 5 + 10] + ["filler%d" % rng.below(4000)]) for _ in range(1400)) + "\n")
    # a phrase vocabulary (tab separated phrases, one sentence per line) that needs several reads of its stream
    with open(os.path.join(d, "phrases.txt"), "w") as f:
        for i in range(4):
            f.write("\t".join(" ".join(rng.choice(tw + ["filler%d" % rng.below(4000)]) for _ in range(rng.range(1, 3))) for _ in range(550)) + "\n")
    # SRI-style pruned model: a context that exists only as a blank (in-place overwrite path of the trie builder, F8)
    open(os.path.join(d, "sri.arpa"), "w").write(
        "\\data\\\nngram 1=6\nngram 2=1\nngram 3=1\n\n\\1-grams:\n-1.0\t<unk>\n-1.0\t<s>\t-0.5\n-1.0\t</s>\n-1.0\ta\n-1.25\tb\n-1.5\tx\t-0.25\n\n"
        "\\2-grams:\n-0.75\tx a\t-0.125\n\n\\3-grams:\n-0.5\tx a b\n\n\\end\\\n")


def session_activity(sid):
    """(CPU ticks consumed so far by every thread of every process of the session, is any thread runnable or in disk wait)"""
    ticks, busy = 0, False
    for pid in os.listdir("/proc"):
        if not pid.isdigit():
            continue
        try:
            st = open("/proc/%s/stat" % pid).read()
            f = st[st.rindex(")") + 2:].split()
            if int(f[3]) != sid:
                continue
            for tid in os.listdir("/proc/%s/task" % pid):
                ts = open("/proc/%s/task/%s/stat" % (pid, tid)).read()
                g = ts[ts.rindex(")") + 2:].split()
                ticks += int(g[11]) + int(g[12])
                busy = busy or g[0] in ("R", "D")
        except (OSError, ValueError, IndexError):
            continue
    return ticks, busy


def run_cmd(argv, cwd, stdin=None, stdout=None, env=None, timeout=60, prefix=(), hard=None):
    """run in its own session; returns rc (negative = signal).
    Without `hard`: 124 when `timeout` seconds of wall time pass (the process group is killed).
    With `hard` (seconds): `timeout` is only the point from which the run is WATCHED: it is declared hung (124) only when, in three
    consecutive samples one second apart, no thread of the session consumed CPU time and none was runnable or in disk wait -- a verdict
    that does not depend on how busy the machine is; a run that is still making progress at `hard` seconds is killed and reported as
    125 (slow, says nothing)."""
    e = dict(os.environ)
    if env:
        e.update(env)
    feed = None
    if stdin and stdin.startswith("pipe:"):
        feed = open(os.path.join(cwd, stdin[5:]), "rb").read()
        stdin = None
        fin = subprocess.PIPE
    else:
        fin = open(os.path.join(cwd, stdin), "rb") if stdin else subprocess.DEVNULL
    fout = open(os.path.join(cwd, stdout), "wb") if stdout else subprocess.DEVNULL
    try:
        p = subprocess.Popen(list(prefix) + argv, cwd=cwd, stdin=fin, stdout=fout, stderr=subprocess.DEVNULL, env=e, start_new_session=True)
        started = [False]

        def wait_for(secs):
            try:
                if feed is not None:
                    try:
                        if started[0]:
                            p.communicate(timeout=secs)
                        else:
                            started[0] = True
                            p.communicate(input=feed, timeout=secs)
                    except BrokenPipeError:
                        pass
                return p.wait(timeout=secs)
            except subprocess.TimeoutExpired:
                return None

        rc = wait_for(timeout)
        if rc is None and hard:
            t0 = time.time()
            idle = 0
            last = session_activity(p.pid)[0]
            while rc is None:
                rc = wait_for(1.0)
                if rc is not None:
                    break
                ticks, busy = session_activity(p.pid)
                idle = idle + 1 if (ticks == last and not busy) else 0
                last = ticks
                if idle >= 3:
                    rc = 124
                elif time.time() - t0 + timeout > hard:
                    rc = 125
            if rc in (124, 125):
                try:
                    os.killpg(p.pid, signal.SIGKILL)
                except OSError:
                    pass
                p.wait()
        elif rc is None:
            try:
                os.killpg(p.pid, signal.SIGKILL)
            except OSError:
                pass
            p.wait()
            rc = 124
    finally:
        if stdin:
            fin.close()
        if stdout:
            fout.close()
    return rc


def read_outputs(cwd, outputs):
    res = {}
    for o in outputs:
        p = os.path.join(cwd, o)
        res[o] = open(p, "rb").read() if os.path.exists(p) else None
    return res


TRACED = ["write", "pwrite64", "read", "pread64", "ftruncate", "fsync", "fdatasync", "msync", "mmap", "openat"]
INJ_ERR = {"write": "ENOSPC", "pwrite64": "ENOSPC", "read": "EIO", "pread64": "EIO", "ftruncate": "ENOSPC", "fsync": "EIO",
           "fdatasync": "EIO", "msync": "EIO", "mmap": "ENOMEM", "openat": "ENOSPC"}
SHIM_CALLS = {"write": "write", "pwrite64": "pwrite", "read": "read", "pread64": "pread", "ftruncate": "ftruncate"}
LINE = re.compile(r"^(\d+)\s+(\w+)\((.*)$")


def data_call(sc, args, workdir):
    """does this call (as printed by strace -y) concern a data file of the run (not libc start-up, /proc, the tty)?"""
    if sc == "openat":
        m = re.match(r'AT_FDCWD[^,]*, "([^"]*)", ([A-Z_|0-9]+)', args)
        if not m:
            return False
        path, flags = m.group(1), m.group(2)
        return ("O_CREAT" in flags or "O_WRONLY" in flags or "O_RDWR" in flags or not path.startswith("/")) and not path.startswith("/proc") and not path.startswith("/sys")
    if sc == "mmap":
        m = re.search(r", (\d+)<([^>]*)>, ", args)
        return bool(m) and (m.group(2).startswith(workdir) or "(deleted)" in m.group(2))
    if sc == "msync":
        return True
    m = re.match(r"(\d+)<([^>]*)>", args)
    if not m:
        return False
    fd, path = int(m.group(1)), m.group(2)
    if path.startswith(workdir) or "(deleted)" in path:
        return True
    return False


def profile(tool, workdir):
    """one traced fault-free run: for each syscall kind, the per-thread call indices that touch data files"""
    tr = os.path.join(workdir, "trace.txt")
    rc = run_cmd(tool.argv, workdir, tool.stdin, tool.stdout, timeout=120,
                 prefix=["strace", "-f", "-y", "-s", "0", "-o", tr, "-e", "trace=" + ",".join(TRACED)])
    counts = {}
    ks = {sc: set() for sc in TRACED}
    total = {sc: 0 for sc in TRACED}
    wide = {sc: 0 for sc in TRACED}        # process-wide number of calls on descriptors > 2
    stdio_flush = set()                    # per-thread indices of write()s of one full stdio buffer on temporary files
    seqs = {}                              # (thread, file) -> [(per-thread index, process-wide index, offset)] of the preads on temporary files
    if os.path.exists(tr):
        for line in open(tr, errors="replace"):
            m = LINE.match(line)
            if not m:
                continue
            pid, sc, args = m.group(1), m.group(2), m.group(3)
            if sc not in ks:
                continue
            c = counts.get((pid, sc), 0) + 1
            counts[(pid, sc)] = c
            total[sc] += 1
            mfd = re.match(r"(\d+)<", args)
            if mfd and int(mfd.group(1)) > 2:
                wide[sc] += 1
            if data_call(sc, args, os.path.dirname(workdir)):       # inputs live beside the run directory, outputs and temporaries in it
                ks[sc].add(c)
            if sc == "write":
                # a write of exactly one stdio buffer on a temporary file: a flush in the middle of an fwrite stream
                mw = re.match(r"\d+<([^>]*)>(\(deleted\))?, .*, 4096\)", args)
                if mw and (mw.group(2) or mw.group(1).startswith(os.path.join(workdir, "tmp"))):
                    stdio_flush.add(c)
            if sc == "pread64":
                mo = re.match(r"\d+<([^>]*)>(\(deleted\))?, .*, (\d+), (\d+)\)", args)
                if mo and (mo.group(2) or mo.group(1).startswith(os.path.join(workdir, "tmp"))):
                    seqs.setdefault((pid, mo.group(1)), []).append((c, wide[sc], int(mo.group(4))))
        os.remove(tr)
    # merge refills (MergeQueue::Entry::Read over several sorted runs of one file): the offsets a thread reads from one temporary
    # file jump back and forth between the runs; a single run is read with increasing offsets
    refill = {"per_thread": set(), "wide": set(), "stdio_flush": stdio_flush}
    for seq in seqs.values():
        if any(b[2] < a[2] for a, b in zip(seq, seq[1:])):
            refill["per_thread"].update(x[0] for x in seq)
            refill["wide"].update(x[1] for x in seq)
    return rc, {sc: sorted(v) for sc, v in ks.items()}, total, wide, refill


def magic_complete(b):
    return b is not None and b.startswith(b"mmap lm http://kheafield.com/code format version")


def tool_specs(bins, d):
    L = bins["lmplz"]
    lm = ["-S", "20M", "--vocab_estimate", "1000", "--discount_fallback"]
    specs = [
        Tool("lmplz", [L, "-o", "3"] + lm + ["-T", "tmp/", "--text", "../corpus1.txt", "--arpa", "out.arpa"], ["out.arpa"]),
        Tool("lmplz-spill", [L, "-o", "3", "-S", "1M", "--sort_block", "16K", "--vocab_estimate", "4000", "--discount_fallback", "-T", "tmp/",
                             "--text", "../corpus3.txt", "--arpa", "out.arpa"], ["out.arpa"]),
        Tool("lmplz-intermediate", [L, "-o", "3"] + lm + ["-T", "tmp/", "--text", "../corpus2.txt", "--intermediate", "im"],
             ["im.1", "im.2", "im.3", "im.vocab", "im.kenlm_intermediate"]),
        Tool("build_binary-probing-after", [bins["build_binary"], "probing", "../test.arpa", "out.bin"], ["out.bin"], binary="out.bin"),
        Tool("build_binary-probing-mmap", [bins["build_binary"], "-w", "mmap", "probing", "../test.arpa", "out.bin"], ["out.bin"], binary="out.bin"),
        Tool("build_binary-trie-mmap", [bins["build_binary"], "-T", "tmp/", "-S", "10M", "trie", "../test.arpa", "out.bin"], ["out.bin"], binary="out.bin"),
        Tool("build_binary-trie-after", [bins["build_binary"], "-T", "tmp/", "-S", "10M", "-w", "after", "-q", "4", "-a", "3", "trie", "../test.arpa", "out.bin"],
             ["out.bin"], binary="out.bin"),
        Tool("build_binary-trie-sri", [bins["build_binary"], "-T", "tmp/", "-S", "10M", "trie", "../sri.arpa", "out.bin"], ["out.bin"], binary="out.bin"),
        # pruned models of order 4 and 5 with blank n-grams: in-place revisions of the n-gram temp files, flushed by Rewind()
        Tool("build_binary-trie-pruned4", [bins["build_binary"], "-T", "tmp/", "-S", "10M", "trie", "../pruned4.arpa", "out.bin"], ["out.bin"], binary="out.bin"),
        Tool("build_binary-trie-pruned5", [bins["build_binary"], "-T", "tmp/", "-S", "10M", "-w", "after", "-q", "5", "-a", "4", "trie", "../pruned5.arpa", "out.bin"],
             ["out.bin"], binary="out.bin"),
        # vocabulary read from a FILE through an ifstream in several chunks (union / multiple mode), the model from stdin
        Tool("filter-union-vocabfile", [bins["filter"], "union", "threads:1", "vocab:../bigvocab.txt", "out.arpa"], ["out.arpa"], stdin="../test.arpa"),
        Tool("filter-multiple-vocabfile", [bins["filter"], "multiple", "threads:1", "vocab:../bigvocab.txt", "out.arpa"],
             ["out.arpa0", "out.arpa1", "out.arpa2"], stdin="../test.arpa"),
        # a trie build whose stdio temporary files exceed one stdio buffer: write()s issued in the middle of an fwrite
        Tool("build_binary-trie-big4", [bins["build_binary"], "-T", "tmp/", "-S", "10M", "trie", "../big4.arpa", "out.bin"], ["out.bin"], binary="out.bin",
             focus=("write", "read"), cap=36),
        # phrase mode: the phrase vocabulary through std::istream, on stdin and from a file
        Tool("filter-union-phrase-stdin", [bins["filter"], "union", "phrase", "threads:1", "model:../test.arpa", "out.arpa"], ["out.arpa"], stdin="../phrases.txt"),
        Tool("filter-multiple-phrase-vocabfile", [bins["filter"], "multiple", "phrase", "threads:1", "vocab:../phrases.txt", "out.arpa"],
             ["out.arpa0", "out.arpa1", "out.arpa2", "out.arpa3"], stdin="../test.arpa"),
        Tool("filter-single", [bins["filter"], "single", "threads:1", "model:../test.arpa", "out.arpa"], ["out.arpa"], stdin="../vocab.txt"),
        Tool("filter-raw", [bins["filter"], "single", "raw", "threads:1", "model:../corpus1.txt", "out.txt"], ["out.txt"], stdin="../vocab.txt"),
        # compressed input arriving through a pipe (not mmap-able: ReadFactory sniffs the format from read()s) and as a file
        Tool("lmplz-gz-pipe", [L, "-o", "3"] + lm + ["-T", "tmp/", "--arpa", "out.arpa"], ["out.arpa"], stdin="pipe:../corpus1.txt.gz", focus=("read", "pread64", "mmap")),
        Tool("lmplz-xz-pipe", [L, "-o", "3"] + lm + ["-T", "tmp/", "--arpa", "out.arpa"], ["out.arpa"], stdin="pipe:../corpus1.txt.xz", focus=("read", "pread64", "mmap")),
        Tool("lmplz-bz2-file", [L, "-o", "3"] + lm + ["-T", "tmp/", "--text", "../corpus1.txt.bz2", "--arpa", "out.arpa"], ["out.arpa"], focus=("read", "pread64", "mmap")),
        Tool("build_binary-bz2-pipe", [bins["build_binary"], "probing", "/dev/stdin", "out.bin"], ["out.bin"], stdin="pipe:../test.arpa.bz2", binary="out.bin"),
        Tool("filter-gz-pipe-vocab-file", [bins["filter"], "single", "threads:1", "vocab:../vocab.txt", "out.arpa"], ["out.arpa"], stdin="pipe:../test.arpa.gz"),
        Tool("interpolate-spill", [bins["interpolate"], "-m", "../im3", "../im4", "-w", "0.5", "0.5", "-T", "tmp/", "-S", "1M", "--sort_block", "16K"],
             ["out.arpa"], stdout="out.arpa"),
        Tool("interpolate", [bins["interpolate"], "-m", "../im1", "../im2", "-w", "0.6", "0.4", "-T", "tmp/", "-S", "20M", "--sort_block", "64K"],
             ["out.arpa"], stdout="out.arpa"),
    ]
    return specs


def fresh_dir(base, name):
    p = os.path.join(base, name)
    shutil.rmtree(p, ignore_errors=True)
    os.makedirs(os.path.join(p, "tmp"))
    return p


def choose_ks(ks, cap, rng, must=(), must_share=3):
    """all of them up to the cap; otherwise a stratified sample over the WHOLE range of call indices: the first few (set-up phase),
    the last two, one random index from each of the remaining equal strata, and at least a third of the cap from `must`
    (a class of calls that has to be represented, e.g. the merge-phase refills)"""
    ks = list(ks)
    if len(ks) <= cap:
        return ks
    picked = ks[:3] + ks[-2:]
    mustl = [k for k in ks if k in must and k not in picked]
    want = min(len(mustl), max(2, cap // must_share))
    for i in range(want):
        lo, hi = i * len(mustl) // want, (i + 1) * len(mustl) // want
        picked.append(mustl[lo + rng.below(max(1, hi - lo))])
    rest = [k for k in ks if k not in picked]
    n = max(0, cap - len(picked))
    for i in range(n):
        lo, hi = i * len(rest) // n, (i + 1) * len(rest) // n
        if hi > lo:
            picked.append(rest[lo + rng.below(hi - lo)])
    return sorted(set(picked))


def prepare_interpolate_inputs(bins, base):
    """intermediate-format models: two small ones, two that do not fit a 1 MB sort budget"""
    for i, corp, ve in ((1, "corpus1.txt", "1000"), (2, "corpus2.txt", "1000"), (3, "corpus3.txt", "4000"), (4, "corpus4.txt", "4000")):
        w = fresh_dir(base, "prep%d" % i)
        rc = run_cmd([bins["lmplz"], "-o", "3", "-S", "20M", "--vocab_estimate", ve, "--discount_fallback", "-T", "tmp/",
                      "--text", "../" + corp, "--intermediate", "../im%d" % i], w)
        if rc != 0:
            raise vlib.InfraError("cannot prepare interpolate inputs (lmplz --intermediate rc=%d)" % rc)


def prepare_big_trie_input(bins, base):
    """an order-4 model with enough n-grams that every stdio temporary file of the trie builder exceeds one stdio buffer (so that
    write()s happen in the middle of fwrite, not only at the flush before re-reading), 3-gram back-offs omitted (legal: they default
    to 0) so that the context files decide the "has extensions" markers"""
    w = fresh_dir(base, "prep-big4")
    rc = run_cmd([bins["lmplz"], "-o", "4", "-S", "20M", "--vocab_estimate", "4000", "--discount_fallback", "-T", "tmp/",
                  "--text", "../corpus4.txt", "--arpa", "../big4.full.arpa"], w)
    if rc != 0:
        raise vlib.InfraError("cannot prepare the order-4 model (lmplz rc=%d)" % rc)
    section = None
    with open(os.path.join(base, "big4.arpa"), "w") as out:
        for line in open(os.path.join(base, "big4.full.arpa")):
            if line.startswith("\\") and "-grams:" in line:
                section = line[1]
            f = line.rstrip("\n").split("\t")
            if section == "3" and len(f) == 3:
                line = f[0] + "\t" + f[1] + "\n"
            out.write(line)
    os.remove(os.path.join(base, "big4.full.arpa"))


def tool_level(ctx, shim):
    bins = {t: vlib.tool(t) for t in ("lmplz", "build_binary", "filter", "interpolate")}
    base = os.path.join(ctx.scratch, "tools")
    os.makedirs(base, exist_ok=True)
    make_inputs(ctx, base)
    prepare_interpolate_inputs(bins, base)
    prepare_big_trie_input(bins, base)
    specs = tool_specs(bins, base)
    DOMAIN = ["ENOSPC", "EIO", "ENOMEM"]          # the property's errno domain, for every kind of call

    def errnos_for(sc, chosen):
        """{k: [errnos]}.  thorough: the whole domain at every point.  quick: every sync / resize point (few, and each is a barrier)
        gets the whole domain; for the other kinds the domain is rotated over the chosen points, starting with the errno that is
        typical for the call, so that each errno meets each kind of call of each tool at least once per run"""
        if not ctx.quick or sc in ("msync", "fsync", "fdatasync", "ftruncate"):
            return {k: list(DOMAIN) for k in chosen}
        start = DOMAIN.index(INJ_ERR[sc])
        out = {k: [DOMAIN[(start + i) % 3]] for i, k in enumerate(chosen)}
        if chosen and len(chosen) < 3:
            out[chosen[0]] = [DOMAIN[(start + j) % 3] for j in range(3) if j == 0 or j >= len(chosen)]
        return out
    jobs = []
    baselines = {}
    base_wall = {}
    errno_cover = {}
    stats = {"runs": 0, "nonzero": 0, "exit0_identical": 0, "signal": 0, "timeouts": 0, "complete_identical_after_failure": 0,
             "per_tool": {}, "injection_points_total": {}, "merge_refill_fault_points": {}, "stdio_midstream_flush_points": {}}
    for t in specs:
        w = fresh_dir(base, t.name + ".base")
        rc = run_cmd(t.argv, w, t.stdin, t.stdout)
        outs = read_outputs(w, t.outputs)
        if rc != 0 or any(v is None for v in outs.values()):
            ctx.report("tool-baseline:" + t.name, "fault-free run of %s fails (rc=%s)" % (t.name, rc), {"argv": t.argv, "rc": rc})
            continue
        w2 = fresh_dir(base, t.name + ".prof")
        tp = time.time()
        rc2, ks, total, wide, refill = profile(t, w2)
        base_wall[t.name] = time.time() - tp          # wall time of the traced fault-free run, measured now, under the current load
        outs2 = read_outputs(w2, t.outputs)
        if rc2 != 0 or outs2 != outs:
            ctx.report("tool-determinism:" + t.name, "two fault-free runs of %s differ (second one under strace)" % t.name, {"argv": t.argv, "rc": rc2})
            continue
        baselines[t.name] = outs
        stats["injection_points_total"][t.name] = {sc: len(v) for sc, v in ks.items() if v}
        shutil.rmtree(w2, ignore_errors=True)
        nref = {"points_per_thread": len(refill["per_thread"]), "points_process_wide": len(refill["wide"]), "injected": 0}
        for sc in TRACED:
            if ctx.quick and t.focus and sc not in t.focus:
                continue
            cap = ctx.pick(t.cap or 12, 10 ** 9)
            chosen = choose_ks(ks[sc], cap, ctx.rng, must=refill["per_thread"] if sc == "pread64" else refill["stdio_flush"] if sc == "write" else (),
                               must_share=2 if sc == "write" else 3)
            if sc == "write" and refill["stdio_flush"]:
                stats["stdio_midstream_flush_points"][t.name] = {"points": len(refill["stdio_flush"]), "injected": len([k for k in chosen if k in refill["stdio_flush"]])}
            for k, errs in errnos_for(sc, chosen).items():
                if sc == "pread64" and k in refill["per_thread"]:
                    nref["injected"] += 1
                for err in errs:
                    jobs.append((t, "inject", sc, k, err))
                    errno_cover.setdefault(sc, set()).add(err)
        # single faults counted process-wide through the shim (strace counts per thread): the tools that run threads
        if os.path.basename(t.argv[0]) in ("lmplz", "interpolate", "filter"):
            for sc, call in SHIM_CALLS.items():
                if ctx.quick and t.focus and sc not in t.focus:
                    continue
                n = wide.get(sc, 0)
                chosen = choose_ks(list(range(1, n + 1)), ctx.pick(8, 10 ** 9), ctx.rng, must=refill["wide"] if sc == "pread64" else ())
                for k, errs in errnos_for(sc, chosen).items():
                    if sc == "pread64" and k in refill["wide"]:
                        nref["injected"] += 1
                    for err in (errs if ctx.quick else errs[:1]):
                        jobs.append((t, "shimfail", call, k, str(ERRNO[err])))
        if nref["points_per_thread"]:
            stats["merge_refill_fault_points"][t.name] = nref
        # the first read() on every descriptor returns only n bytes (a pipe whose writer has sent little so far): n below, at and
        # above the lengths callers want at once (compression magics 2, 3, 6)
        for n in ctx.pick((1, 2, 3, 5), (1, 2, 3, 4, 5, 6, 7)):
            jobs.append((t, "firstread", "", n, ""))
        piped = bool(t.stdin and t.stdin.startswith("pipe:"))
        for s in range(ctx.pick(5 if piped else 3, 25)):
            jobs.append((t, "storm", "", ctx.rng.below(1 << 30), ["150", "400", "700", "1000"][s % 4]))

    def attempt(job):
        t, mode, sc, k, err = job
        # a faulted run is WATCHED from `timeout` on (5 x the traced fault-free wall time measured in this run, at least 3 s) and
        # called a hang only when the whole session shows no CPU progress and no runnable thread (run_cmd); never on wall time alone
        timeout = max(3.0, 5 * base_wall.get(t.name, 1.0))
        hard = max(90.0, 60 * base_wall.get(t.name, 1.0))
        w = fresh_dir(base, "%s.%s.%s.%s.%s" % (t.name, mode, sc, k, err))
        where = None
        if mode == "inject":
            tr = os.path.join(w, "inject.trace")
            rc = run_cmd(t.argv, w, t.stdin, t.stdout, timeout=timeout, hard=hard,
                         prefix=["strace", "-f", "-o", tr, "-e", "trace=" + sc, "-e", "inject=%s:error=%s:when=%d" % (sc, err, k)])
            if os.path.exists(tr):
                # which threads received the injected error?  (the first pid in the trace is the tool's main thread)
                main, hit = None, set()
                for line in open(tr, errors="replace"):
                    pid = line.split(None, 1)[0]
                    main = main or pid
                    if "(INJECTED)" in line:
                        hit.add(pid)
                # (per-thread counting can hit several threads; an error in the main thread is what the known defect needs)
                where = "none" if not hit else "main-thread" if main in hit else "worker-thread"
        elif mode == "shimfail":
            rc = run_cmd(t.argv, w, t.stdin, t.stdout, timeout=timeout, hard=hard,
                         env={"LD_PRELOAD": shim, "IO_SHIM_FAIL": "%s:%d:%s" % (sc, k, err), "IO_SHIM_FAIL_REPORT": os.path.join(w, "fail.report")})
            rp = os.path.join(w, "fail.report")
            where = open(rp).read().strip() if os.path.exists(rp) else "none"
        elif mode == "firstread":
            rc = run_cmd(t.argv, w, t.stdin, t.stdout, timeout=timeout, hard=hard, env={"LD_PRELOAD": shim, "IO_SHIM_FIRST_READ": str(k)})
        else:
            rc = run_cmd(t.argv, w, t.stdin, t.stdout, timeout=timeout, hard=hard, env={"LD_PRELOAD": shim, "IO_SHIM_STORM": "%d:%s" % (k, err)})
        outs = read_outputs(w, t.outputs)
        shutil.rmtree(w, ignore_errors=True)
        return rc, outs, where

    def one(group):
        """the errnos of ONE fault point, in turn; after a hang the remaining errnos of that point are not tried (same defect, 7 s each)"""
        res = []
        for job in group:
            rc, outs, where = attempt(job)
            res.append((job, rc, outs, where))
            if rc == 124:
                break
        return res

    groups = {}
    for j in jobs:
        groups.setdefault((j[0].name, j[1], j[2], j[3]) if j[1] in ("inject", "shimfail") else (j[0].name, j[1], j[2], j[3], j[4]), []).append(j)
    groups = list(groups.values())
    stats["skipped_errnos_after_hang"] = 0
    stats["errnos_injected_per_call_kind"] = {sc: sorted(v) for sc, v in errno_cover.items()}
    ctx.rng.shuffle(groups)      # spread the slow (hanging) runs over the workers
    results = []
    with concurrent.futures.ThreadPoolExecutor(max_workers=min(8, vlib.NPROC)) as ex:
        for g, r in zip(groups, ex.map(one, groups)):
            results.extend(r)
            stats["skipped_errnos_after_hang"] += len(g) - len(r)
    distinct = set()
    for (t, mode, sc, k, err), rc, outs, where in results:
        stats["runs"] += 1
        pt = stats["per_tool"].setdefault(t.name, {"inject": 0, "shimfail": 0, "storm": 0, "firstread": 0, "nonzero": 0, "exit0_identical": 0})
        pt[mode] += 1
        base_outs = baselines[t.name]
        replay = {"tool": t.name, "argv": t.argv, "stdin": t.stdin, "stdout": t.stdout, "mode": mode, "syscall": sc, "k": k, "errno": err, "rc": rc,
                  "how": ("strace -f -o /dev/null -e trace=%s -e inject=%s:error=%s:when=%d <argv>" % (sc, sc, err, k)) if mode == "inject"
                  else ("LD_PRELOAD=io_shim.so IO_SHIM_FAIL=%s:%d:%s <argv>" % (sc, k, err)) if mode == "shimfail"
                  else ("LD_PRELOAD=io_shim.so IO_SHIM_FIRST_READ=%d <argv>  (stdin: %s)" % (k, t.stdin)) if mode == "firstread"
                  else "LD_PRELOAD=io_shim.so IO_SHIM_STORM=%d:%s <argv>" % (k, err)}
        if mode in ("inject", "shimfail") and where == "none" and rc != 124:
            # the call that was to fail was never made in this run (call counts vary with thread timing): not a test of anything
            stats["fault_not_reached"] = stats.get("fault_not_reached", 0) + 1
            continue
        if rc == 125:
            stats["slow_inconclusive"] = stats.get("slow_inconclusive", 0) + 1       # still making progress at the hard limit: says nothing
            continue
        if rc == 124:
            if mode in ("inject", "shimfail") and where == "none":
                # the injected error was never reached: the run is not a test of anything
                stats["hang_without_reached_fault"] = stats.get("hang_without_reached_fault", 0) + 1
                continue
            stats["timeouts"] += 1
            replay["fault_hit"] = where
            binname = os.path.basename(t.argv[0])
            sig = "tool:%s:hang:fault-in-%s" % (binname, where) if mode in ("inject", "shimfail") else "tool:%s:hang:%s" % (binname, mode)
            ctx.report(sig, "%s neither finished nor failed after %s: no thread of the process consumed CPU time or was runnable for 3 s (the injected error reached: %s)" %
                       (t.name, replay["how"], where), replay)
            continue
        if mode in ("storm", "firstread"):
            if rc != 0 or outs != base_outs:
                ctx.report("tool:%s:%s" % (t.name, mode),
                           "%s changed the result of %s (rc=%d, outputs %s)" %
                           ("interrupted calls / short transfers" if mode == "storm" else "a first read() of %d byte(s) on every descriptor" % k,
                            t.name, rc, "identical" if outs == base_outs else "differ"), replay)
            else:
                pt["exit0_identical"] += 1
                stats["exit0_identical"] += 1
                distinct.add((t.name, mode, k, err))
            continue
        if rc == 0 and mode in ("inject", "shimfail") and sc in ("fsync", "fdatasync", "msync", "ftruncate"):
            # identical bytes say nothing about a sync, and a resize that failed left a file of another size behind: the property
            # demands that a failed sync / resize of a data file is reported (these indices are calls on data files by construction)
            ctx.report("tool:%s:%s:ignored" % (t.name, sc), "%s exits 0 although %s call #%d (on a data file) failed with %s: the failure was ignored" % (t.name, sc, k, err), replay)
        elif rc == 0:
            if outs != base_outs:
                which = [o for o in t.outputs if outs[o] != base_outs[o]]
                replay["differing_outputs"] = which
                ctx.report("tool:%s:%s:silent" % (t.name, sc), "%s exits 0 after %s call #%d failed with %s, but %s differs from the fault-free output" %
                           (t.name, sc, k, err, ", ".join(which)), replay)
            else:
                pt["exit0_identical"] += 1
                stats["exit0_identical"] += 1
        else:
            pt["nonzero"] += 1
            stats["nonzero"] += 1
            if rc < 0:
                stats["signal"] += 1
            distinct.add((t.name, sc, k, err))
            if t.binary and magic_complete(outs.get(t.binary)):
                if outs[t.binary] != base_outs[t.binary]:
                    ctx.report("tool:%s:%s:marked-complete" % (t.name, sc),
                               "%s failed (rc=%d) after %s call #%d, yet left a binary file that is marked complete and differs from the fault-free one" % (t.name, rc, sc, k), replay)
                else:
                    stats["complete_identical_after_failure"] += 1
    return stats, len(distinct)


# ---------------------------------------------------------------------------------------------
def corpus_cases():
    p = os.path.join(vlib.ROOT, "corpus", "C15", "cases.txt")
    return [l.rstrip("\n") for l in open(p) if l.strip() and not l.startswith("#")] if os.path.exists(p) else []


def canon(case, out):
    """WriteOrThrow sets errno = 0 once per chunk: after a write(2) that returns 0 the exception carries 0, or EINTR when an
    interrupted attempt preceded.  The number is stale either way; both spellings become `zero` (Fail 4 is never generated)."""
    if case.split()[0] in ("W", "FS"):
        f = out.split(" ", 1)
        if f[0] in ("fd:0", "fd:%d" % EINTR):
            return "zero" + (" " + f[1] if len(f) > 1 else "")
    return out


def run_impl(drv, shim, cases, scratch):
    return [canon(c, o) for c, o in zip(cases, _run_lines_args(drv, [scratch], cases, {"LD_PRELOAD": shim}))]


def _run_lines_args(exe, args, lines, env):
    data = ("\n".join(lines) + "\n").encode()
    rc, out, err = vlib.sh([exe] + args, input=data, timeout=900, env=env)
    res = out.split("\n")
    if res and res[-1] == "":
        res.pop()
    if rc != 0 or len(res) != len(lines):
        res = res + ["DRIVER-DIED rc=%d %s" % (rc, err.strip()[-300:].replace("\n", " | "))] + ["<no answer>"] * (len(lines) - len(res) - 1)
    return res[:len(lines)]


def run(ctx):
    pres = vlib.coq_prove("C15")
    ctx.set_proof(pres)
    shim = build_shim()
    drv = vlib.compile_driver("c15_driver", os.path.join(vlib.ROOT, "harness", "drivers", "c15_driver.cc"), libs=("kenlm_util",), extra=("-ldl",))
    kline = run_impl(drv, shim, ["K"], ctx.scratch)[0]
    kf = kline.split()
    if len(kf) != 5 or kf[0] != "K":
        raise vlib.InfraError("c15_driver does not answer the K query: %r" % kline)
    kconst = tuple(int(x) for x in kf[1:])
    rng = ctx.rng
    cases = corpus_cases()
    ctx.count("corpus_cases", len(cases))
    cases += gen_loop_cases(rng, ctx.pick(1600, 40000)) + gen_stream_cases(rng, ctx.pick(500, 12000), kconst) + \
        gen_compressed_cases(rng, ctx.pick(260, 6000))
    stripped = [strip_case(c) for c in cases]
    iout = run_impl(drv, shim, cases, ctx.scratch)
    iout_stripped = run_impl(drv, shim, stripped, ctx.scratch)
    spec_fail = []
    for c, o, cs, os_ in zip(cases, iout, stripped, iout_stripped):
        msg = loop_oracle(c, o) if not o.startswith("DRIVER-DIED") and o != "<no answer>" else o
        if not msg and c.split()[0] != "S":
            a, b = o.split(), os_.split()
            # same status and same bytes with every interrupted call removed (the call count differs by the number of interruptions)
            if a[:-1] != b[:-1] and "nooracle" not in (a[0], b[0]):
                msg = "removing the interrupted calls from the oracle changes the result: %s vs %s" % (o[:80], os_[:80])
        if msg:
            spec_fail.append((c, o, msg))
    mismatches = []
    model_broken = None
    try:
        model = vlib.ocaml_model("C15")
        mcases = [c for c in cases if not c.startswith("RC ")]      # decompression itself is not modelled (spec oracle only)
        mout = dict(zip(mcases, vlib.run_lines(model, [kline] + mcases, timeout=900)[1:]))
        for c, a in zip(cases, iout):
            if c in mout and a != mout[c]:
                mismatches.append((c, a, mout[c]))
    except vlib.ModelBroken as e:
        model_broken = str(e)
    nt = {c for c in cases if nontrivial(c)}
    kinds = {}
    statuses = {}
    for c, o in zip(cases, iout):
        kinds[c.split()[0]] = kinds.get(c.split()[0], 0) + 1
        s = o.split()[0].split(":")[0] if o.split() else "?"
        statuses[s] = statuses.get(s, 0) + 1
    ctx.count("evaluations", 2 * len(cases))
    ctx.coverage["loop_cases"] = len(cases)
    ctx.coverage["case_kinds"] = kinds
    ctx.coverage["impl_status_distribution"] = statuses
    ctx.coverage["traces_validated_against_impl"] = len(cases) - len(mismatches)
    ctx.coverage["implementation_constants"] = {"kToStringMaxBytes": kconst[0], "kBytes_u16_u32_u64": kconst[1:]}
    for c, o in list(zip(cases, iout))[:2] + [(c, o) for c, o in zip(cases, iout) if c.startswith("FS") and o.startswith("abort")][:1] + \
            [(c, o) for c, o in zip(cases, iout) if c.startswith("PW") and o.startswith("fd:")][:1]:
        ctx.sample({"case": c[:300], "impl": o[:300]})
    # tool level
    t0 = time.time()
    stats, tool_distinct = tool_level(ctx, shim)
    stats["wall_s"] = round(time.time() - t0, 1)
    ctx.coverage["tool_level"] = stats
    ctx.count("evaluations", stats["runs"])
    ctx.coverage["distinct_nontrivial"] = len(nt) + tool_distinct
    ctx.coverage["rule"] = (
        "loop cases = corpus + generated (sizes 0,1,2,19..21,255,256,4095..4097 and random; oracles: whole, byte-at-a-time, exact split, random short "
        "transfers, EINTR storms, Fail at every position class, zero-length transfer, exhausted oracle; FileStream with buffer sizes around "
        "kToStringMaxBytes and writes that exactly fill / overflow by one).  A loop case is non-trivial when its oracle has >= 2 entries of >= 2 distinct "
        "kinds or values; distinct = distinct case line.  Tool level: one evaluation = one run of a tool with call #k of one syscall kind failing "
        "(strace inject, k ranges over the calls that touch data files) or one EINTR/short-transfer storm; non-trivial = the fault made the tool "
        "fail (non-zero/signal) or the storm run completed; distinct = distinct (tool, syscall, k, errno).")
    ctx.assumptions += [
        "kernel model of the oracle: Done n transfers min(n, count) bytes; a read never returns more than the file holds; regular files",
        "the shim sees only calls through the PLT (util/file.cc, util/mmap.cc); stdio-internal writes are covered by the strace enumeration only",
        "strace counts `when=k` per thread: in multi-threaded tools call #k of every thread fails (a superset of single faults)",
        "which call fails is the environment's choice: the enumeration is finite per input (quick: capped per syscall kind; thorough: every data-file call, three errnos)",
        "extraction (ExtrOcamlBasic only), OCaml and C++ drivers, the shim and strace are trusted",
        "EINTR on fsync/ftruncate/msync is not retried by util/file.cc (it throws): loud, not silent; not injected in the storms"]
    for c, o, msg in spec_fail[:5]:
        ctx.report("spec:" + c.split()[0], msg, {"case": c, "impl_output": o,
                                                  "how": "echo '<case>' | LD_PRELOAD=io_shim.so c15_driver <scratch dir>"})
    if not spec_fail and not ctx.violations:
        if mismatches:
            c, a, b = mismatches[0]
            ctx.report("correspondence:" + c.split()[0], "model and implementation disagree (the specification oracle accepts the implementation's answer)",
                       {"correspondence": "C15 extracted model vs c15_driver under io_shim", "case": c, "impl": a, "model": b, "n_mismatches": len(mismatches)}, found=False)
        elif model_broken:
            ctx.report("model-broken", "executable model no longer builds", {"log": model_broken[-2000:]}, found=False)
        ctx.report_proof(pres)
    ctx.coverage["spec_oracle_failures"] = len(spec_fail)
    ctx.coverage["correspondence_mismatches"] = len(mismatches)


def replay(ctx, obj):
    r = obj["replay"]
    shim = build_shim()
    if "case" in r:
        drv = vlib.compile_driver("c15_driver", os.path.join(vlib.ROOT, "harness", "drivers", "c15_driver.cc"), libs=("kenlm_util",), extra=("-ldl",))
        o = run_impl(drv, shim, [r["case"]], ctx.scratch)[0]
        msg = loop_oracle(r["case"], o)
        print("case:", r["case"][:500], "\nimpl:", o[:500], "\noracle:", msg or "ok")
        shutil.rmtree(ctx.scratch, ignore_errors=True)
        return 1 if msg else 0
    if "tool" in r:
        bins = {t: vlib.tool(t) for t in ("lmplz", "build_binary", "filter", "interpolate")}
        base = os.path.join(ctx.scratch, "tools")
        os.makedirs(base, exist_ok=True)
        ctx.rng = vlib.Rng(obj.get("seed", 1))
        make_inputs(ctx, base)
        prepare_interpolate_inputs(bins, base)
        prepare_big_trie_input(bins, base)
        t = [s for s in tool_specs(bins, base) if s.name == r["tool"]][0]
        w = fresh_dir(base, "base")
        rc0 = run_cmd(t.argv, w, t.stdin, t.stdout)
        base_outs = read_outputs(w, t.outputs)
        w = fresh_dir(base, "replay")
        if r["mode"] == "inject":
            rc = run_cmd(t.argv, w, t.stdin, t.stdout, prefix=["strace", "-f", "-o", "/dev/null", "-e", "trace=" + r["syscall"], "-e",
                                                               "inject=%s:error=%s:when=%d" % (r["syscall"], r["errno"], r["k"])])
        elif r["mode"] == "shimfail":
            rc = run_cmd(t.argv, w, t.stdin, t.stdout, env={"LD_PRELOAD": shim, "IO_SHIM_FAIL": "%s:%d:%s" % (r["syscall"], r["k"], r["errno"])})
        elif r["mode"] == "firstread":
            rc = run_cmd(t.argv, w, t.stdin, t.stdout, env={"LD_PRELOAD": shim, "IO_SHIM_FIRST_READ": str(r["k"])})
        else:
            rc = run_cmd(t.argv, w, t.stdin, t.stdout, env={"LD_PRELOAD": shim, "IO_SHIM_STORM": "%d:%s" % (r["k"], r["errno"])})
        outs = read_outputs(w, t.outputs)
        same = outs == base_outs
        bad = (rc == 124) or (rc == 0 and not same) or (r["mode"] in ("storm", "firstread") and (rc != 0 or not same)) or \
              (rc != 0 and t.binary and magic_complete(outs.get(t.binary)) and not same)
        print("tool:", t.name, "baseline rc:", rc0, "faulted rc:", rc, "outputs identical:", same, "->", "VIOLATION" if bad else "ok")
        shutil.rmtree(ctx.scratch, ignore_errors=True)
        return 1 if bad else 0
    print("nothing to replay (proof/correspondence report):", obj.get("what"))
    return 1
