"""C06 -- lmplz output is a proper, closed, loadable language model (DESIGN.md section 4, C06).

proof step      : coq/C06 (sums to one for every context, closure, [0,1], header counts, specials -- on kn_spec, exact)
correspondence  : C05's tool-level correspondence of the extracted model against `lmplz --arpa`
spec oracle     : applied to the REAL output: header counts, closure, log p <= 0, specials, sum over the vocabulary
                  for all contexts (exhaustive for small vocabularies, sampled otherwise), build_binary loads the
                  file into every data structure, --intermediate files hold the ARPA's values.
"""
import json
import os
import struct

import vlib
import kn
from props import c05

CORPUS_DIR = os.path.join(vlib.ROOT, "corpus", "C06")
BINARY_VARIANTS = [("probing", []), ("trie", []), ("trie", ["-q", "8", "-b", "8"]), ("trie", ["-a", "22"]),
                   ("trie", ["-q", "8", "-b", "8", "-a", "22"]), ("probing", ["-p", "2.0"])]


def corpus_cases():
    out = []
    if os.path.isdir(CORPUS_DIR):
        for f in sorted(os.listdir(CORPUS_DIR)):
            if f.endswith(".json"):
                c = kn.Case.from_json(json.load(open(os.path.join(CORPUS_DIR, f))))
                c.tag = "corpus:" + f
                out.append(c)
    return out


def gen_case(rng, big):
    """C05's generator with the options C06 is about made more frequent; small vocabularies for exhaustive sums"""
    c = kn.gen_case(rng, big)
    if c.fallback is None:
        c.fallback = []
    r = rng.below(10)
    if r < 4 and c.prune is None:
        t, c.prune = rng.choice([0, 0, 1]), []
        for _ in range(rng.range(1, c.order)):
            t += rng.choice([0, 1, 1, 2])
            c.prune.append(t)
    if r in (4, 5) and c.limit is None:
        sents = kn.tokenize(c.data)
        words = sorted({t for s in sents for t in s})
        c.limit = [w for w in words if rng.chance(2, 3)]
    if r == 6:
        c.interp = False
    if rng.chance(1, 14) and c.order >= 2:
        # decreasing thresholds: ParsePruning must refuse them (otherwise substrings of kept n-grams are removed)
        hi = rng.range(1, 3)
        c.prune = [hi] * rng.range(1, c.order - 1) + [rng.range(0, hi - 1)]
    if rng.chance(1, 4):
        c.intermediate = True
    if rng.chance(1, 5):
        c.renumber = True
    return c


def f32bits(x):
    return struct.pack("<f", x)


def check_intermediate(run, case, header, orders):
    try:
        numbered = kn.number(kn.tokenize(case.data), case.skip)
        counts, iorders = kn.parse_intermediate(run.inter_base, case.order, None if numbered is None else numbered[1])
    except (ValueError, OSError, struct.error) as e:
        return ("intermediate-syntax", "the intermediate files do not decode: %s" % e)
    if counts != header:
        return ("intermediate-counts", "metadata counts %s, ARPA header %s" % (counts, header))
    for k, (io, ao) in enumerate(zip(iorders, orders), 1):
        if len(io) != len(ao):
            return ("intermediate-entries", "order %d: %d records in the file, %d lines in the ARPA" % (k, len(io), len(ao)))
        for (ig, ip, ib), (ag, ap, ab) in zip(io, ao):
            if ig != ag:
                return ("intermediate-ngram", "order %d: record %s, ARPA line %s" % (k, b" ".join(ig), b" ".join(ag)))
            if f32bits(ip) != f32bits(ap) and not (ip == ap):
                return ("intermediate-value", "order %d, %s: probability %r in the file, %r in the ARPA" % (k, b" ".join(ag), ip, ap))
            if ab is not None and f32bits(ib) != f32bits(ab) and not (ib == ab):
                return ("intermediate-value", "order %d, %s: back-off %r in the file, %r in the ARPA" % (k, b" ".join(ag), ib, ab))
    return None


def check_loads(build_binary, arpa, scratch, idx):
    """build_binary must accept the file for every data structure"""
    n = 0
    for j, (kind, opts) in enumerate(BINARY_VARIANTS):
        out = os.path.join(scratch, "b%d_%d.bin" % (idx, j))
        cmd = ["timeout", "60", build_binary, "-S", "10M", "-T", scratch.rstrip("/") + "/"] + opts + [kind, arpa, out]
        rc, o, e = vlib.sh(cmd, timeout=90)
        if rc in (126, 127) and "failed to run command" in e:
            raise vlib.InfraError("cannot execute %s (concurrent rebuild?): %s" % (build_binary, e.strip()[-200:]))
        try:
            os.remove(out)
        except OSError:
            pass
        n += 1
        if rc != 0:
            return n, ("load:" + kind + ("".join(opts[:1]) if opts else ""), "build_binary %s %s fails with exit status %d: %s" % (" ".join(opts), kind, rc, e[-300:]))
    return n, None


def run(ctx):
    pres = vlib.coq_prove("C06")
    ctx.set_proof(pres)
    lmplz = vlib.tool("lmplz")
    build_binary = vlib.tool("build_binary")
    model_broken = None
    try:
        model = vlib.ocaml_model("C05")
    except vlib.ModelBroken as e:
        model, model_broken = None, str(e)
    rng = ctx.rng
    cases = corpus_cases()
    ctx.count("corpus_cases", len(cases))
    big = not ctx.quick
    cases += [gen_case(rng, big) for _ in range(ctx.pick(380, 4000))]
    # wide corpora (6500-9000 distinct bigram contexts): the gamma / n-gram streams between the stages span many buffers
    cases += [kn.gen_wide_case(rng, k) for k in ("step", "limit-few")] + [kn.gen_wide_case(rng) for _ in range(ctx.pick(0, 30))]
    # model answers in one batch
    lines = []
    for c in cases:
        numbered = kn.number(kn.tokenize(c.data), c.skip)
        lines.append("NOP" if c.tag.startswith("gen:wide") else "PRUNE %d -" % c.order if numbered is None else kn.model_line("I", c, numbered[0], numbered[1]))
    mout = vlib.run_lines(model, lines, timeout=ctx.pick(600, 3000)) if model else ["REFUSED 0"] * len(lines)
    spec_fail, corr_fail = [], []
    kinds = {}
    contexts = exhaustive_models = loads = inter_checked = 0
    nontrivial = set()
    hangs = 0
    for i, (c, mo) in enumerate(zip(cases, mout)):
        if hangs >= 2:
            break
        run_ = kn.run_lmplz(lmplz, c, ctx.scratch, i, tmo=ctx.pick(30, 120))
        if run_.hung:
            hangs += 1
            ctx.report("spec:no-termination", "lmplz does not terminate (killed after %d s): no model is written" % ctx.pick(30, 120),
                       {"case": c.to_json(), "lmplz_cmd": " ".join(run_.cmd), "stderr_tail": run_.err[-300:]})
        try:
            ofail, corr, info = c05.judge(c, run_, None if c.tag.startswith("gen:wide") else mo)
        except ValueError as e:
            ofail, corr, info = None, ("correspondence:model-output", str(e)), {"accepted": False, "kind": "model-error"}
        if model is None:
            corr = None
        kinds[info.get("kind", "?")] = kinds.get(info.get("kind", "?"), 0) + 1
        fail = None
        if ofail and ofail[0] in ("spec:not-built", "spec:arpa-syntax", "spec:header-counts", "spec:ngram-set", "spec:prune-order-accepted"):
            fail = ofail      # C06 clauses: a model must be written, well formed, with the right counts and closed
        if info.get("accepted") and run_.arpa_path and not (ofail and ofail[0] == "spec:arpa-syntax"):
            header, orders = kn.parse_arpa(run_.arpa_path)
            bad = kn.wellformed(header, orders)
            if bad and not fail:
                fail = ("spec:" + bad[0][0], bad[0][1])
            if not bad:
                nctx, exh, sfail = kn.sum_check(orders, rng, ctx.pick(60, 400))
                contexts += nctx
                exhaustive_models += 1 if exh else 0
                if sfail and not fail:
                    fail = ("spec:sum-to-one", "context %s: the probabilities of the vocabulary sum to %.6f" % (b" ".join(sfail[0]), sfail[1]))
                if c.order >= 2:
                    nl, lfail = check_loads(build_binary, run_.arpa_path, ctx.scratch, i)
                    loads += nl
                    if lfail and not fail:
                        sig = "spec:" + lfail[0]
                        if "Bad backoff -inf" in lfail[1] and any(d == 0.0 for st in run_.stats for d in st[2:5]) and \
                                any(b == float("-inf") for o_ in orders for _, _, b in o_ if b is not None):
                            # input class of a listed finding: some order has a discount of exactly 0 (closed form or fallback),
                            # so a context can legitimately get gamma = 0, which lmplz writes as -inf
                            sig = "spec:load:minus-inf-backoff:zero-discount"
                        fail = (sig, lfail[1])
                if c.intermediate:
                    inter_checked += 1
                    ifail = check_intermediate(run_, c, header, orders)
                    if ifail and not fail:
                        fail = ("spec:" + ifail[0], ifail[1])
                if c.order >= 2 and (c.prune or c.limit is not None or not c.interp):
                    nontrivial.add((c.data, c.order, str(c.prune), str(c.limit), c.interp))
        kn.cleanup(run_)
        if fail:
            spec_fail.append((c, run_, fail))
        if corr:
            corr_fail.append((c, run_, corr))
    # component tie: what leaves the real AdjustCounts (n-grams, adjusted counts, pruning MARKS per stream, counts_pruned) on
    # 7-record blocks, against the extracted model -- the marks decide what is written and the header counts
    ncomp, comp_bad = (0, [])
    if model:
        ncomp, comp_bad = c05.component_check(ctx, [c for c in cases if c.prune or c.limit is not None][:ctx.pick(250, 2500)], model)
    ctx.coverage["component_cases_adjust_counts"] = ncomp
    ctx.coverage["component_mismatches"] = len(comp_bad)
    ctx.coverage["configuration_classes"] = {
        "memory_one_block(-S 20M)": sum(1 for c in cases if not c.mem),
        "memory_small(-S 64K..250K)": sum(1 for c in cases if c.mem and c.mem[1] in ("64K", "250K")),
        "memory_tiny(-S 600b..8K: blocks of tens of records, multi-run merges)": sum(1 for c in cases if c.mem and c.mem[1] not in ("64K", "250K")),
        "output_files_pre_existing": sum(1 for c in cases if c.stale),
        "wide_corpus(>6500 contexts at one order; oracle only)": sum(1 for c in cases if c.tag.startswith("gen:wide")),
        "degenerate_corpus_without_words": sum(1 for c in cases if c.tag == "gen:degenerate"),
        "renumbered(--renumber/--intermediate)": sum(1 for c in cases if c.renumber or c.intermediate),
        "renumbered_with_word_sorting_before_<s>": sum(1 for c in cases if (c.renumber or c.intermediate) and
                                                      any(kn.murmur64a(t) < kn.murmur64a(b"<s>") for t in set(c.data.split()) if t not in kn.SPECIALS)),
        "interpolate_unigrams_0": sum(1 for c in cases if not c.interp),
        "short_and_interrupted_io(shim, every read/write/pread/pwrite)": sum(1 for c in cases if c.io),
        "corpus_on_stdin(pipe)": sum(1 for c in cases if c.stdin),
        "corpus_on_stdin_with_short_reads(window ends anywhere)": sum(1 for c in cases if c.stdin and c.io),
        "arpa_to_a_pipe_with_short_writes": sum(1 for c in cases if c.io and c.io[2]),
        "word_longer_than_8192_bytes": sum(1 for c in cases if any(len(t) > 8192 for t in c.data.split())),
        "word_of_8191_or_8192_bytes": sum(1 for c in cases if any(len(t) in (8191, 8192) for t in c.data.split()))}
    ctx.count("evaluations", len(cases))
    ctx.coverage["distinct_nontrivial"] = len(nontrivial)
    ctx.coverage["rule"] = ("one evaluation = one lmplz run (generated corpus, order 1-6, --prune / --limit_vocab_file / --interpolate_unigrams 0 / "
                            "--discount_fallback / --renumber / --intermediate) whose ARPA is judged by the specification: header counts, closure, "
                            "log p <= 0, specials, sum over the vocabulary = 1 +- 1e-4 for every context up to length N-1 when |V| <= 8 "
                            "(exhaustive) or for sampled in-model / mutated / random contexts otherwise, build_binary accepts it for "
                            "probing, trie, trie -q 8 -b 8, trie -a 22, trie -q -b -a, probing -p 2, and the intermediate files equal the ARPA "
                            "bit for bit; the ARPA is also compared with the extracted Coq model.  Non-trivial: accepted run of order >= 2 "
                            "with pruning, a vocabulary limit or uninterpolated unigrams; distinct = distinct (corpus bytes, options).")
    ctx.coverage["case_kinds"] = kinds
    ctx.coverage["contexts_summed"] = contexts
    ctx.coverage["models_with_exhaustive_context_enumeration"] = exhaustive_models
    ctx.coverage["exhaustive_note"] = "all contexts up to length N-1 over the whole vocabulary for models with <= 8 unigrams (%d models in this run)" % exhaustive_models
    ctx.coverage["traces_validated_against_impl"] = kinds.get("built", 0) - len(corr_fail)
    ctx.coverage["build_binary_loads"] = loads
    ctx.coverage["intermediate_outputs_compared"] = inter_checked
    ctx.coverage["spec_oracle_failures"] = len(spec_fail)
    ctx.coverage["correspondence_mismatches"] = len(corr_fail)
    for c, run_, (sig, msg) in spec_fail[:0]:
        pass
    for c in cases[:40]:
        if c.prune or c.limit is not None:
            ctx.sample({"order": c.order, "prune": c.prune, "limit": None if c.limit is None else len(c.limit), "interp": c.interp,
                        "renumber": c.renumber, "intermediate": c.intermediate, "corpus": c.data[:100].decode("utf-8", "replace")}, limit=4)
    ctx.assumptions += ["sums on the real output are evaluated in float64 with tolerance 1e-4 (values are float32 log10)",
                        "theorems are about kn_spec in exact arithmetic; kn_impl = kn_spec is C05_impl_refines_spec; corpus has at least one line",
                        "KenLM does not load order-1 models: the loading clause is checked for orders >= 2", "--vocab_pad out of scope"]
    seen = set()
    for c, run_, (sig, msg) in spec_fail:
        if sig in seen:
            continue
        seen.add(sig)
        ctx.report(sig, msg, {"case": c.to_json(), "lmplz_cmd": " ".join(run_.cmd), "how": "./check C06 --replay <this file>"})
    if not spec_fail and comp_bad and not corr_fail:
        l, a, b, why = comp_bad[0]
        ctx.report("correspondence:adjust-counts-component", "the real AdjustCounts and the extracted `adjust` disagree (%s); the oracle on the written files finds nothing" % why,
                   {"correspondence": "lm::builder::AdjustCounts on chains vs extracted adjust", "case": l[:20000], "impl": a, "model": b,
                    "n_mismatches": len(comp_bad), "how": "echo '<case>' | c05_adjust_driver"}, found=False)
    if not spec_fail:
        if corr_fail:
            c, run_, (sig, msg) = corr_fail[0]
            ctx.report(sig, "extracted model and lmplz disagree; the specification oracle accepts lmplz's output: " + msg,
                       {"correspondence": "kn_impl (extracted) vs lmplz --arpa", "case": c.to_json(), "n_mismatches": len(corr_fail)}, found=False)
        elif model_broken:
            ctx.report("model-broken", "executable model no longer builds", {"log": model_broken[-2000:]}, found=False)
        ctx.report_proof(pres)


def replay(ctx, obj):
    import shutil
    lmplz = vlib.tool("lmplz")
    build_binary = vlib.tool("build_binary")
    c = kn.Case.from_json(obj["replay"]["case"])
    run_ = kn.run_lmplz(lmplz, c, ctx.scratch, 0)
    print("case   :", json.dumps({k: v for k, v in c.to_json().items() if k != "corpus_hex"}))
    print("lmplz  : exit status %d refused=%s" % (run_.rc, run_.refused))
    rc = 0
    if run_.arpa_path:
        try:
            header, orders = kn.parse_arpa(run_.arpa_path)
            bad = kn.wellformed(header, orders)
            print("wellformed:", bad or "ok")
            rc |= 1 if bad else 0
            if not bad:
                nctx, exh, sfail = kn.sum_check(orders, ctx.rng, 400)
                print("sums   : %d contexts%s: %s" % (nctx, " (exhaustive)" if exh else "", sfail or "ok"))
                rc |= 1 if sfail else 0
                if c.order >= 2:
                    nl, lfail = check_loads(build_binary, run_.arpa_path, ctx.scratch, 0)
                    print("loads  :", lfail or "ok")
                    rc |= 1 if lfail else 0
                if c.intermediate:
                    ifail = check_intermediate(run_, c, header, orders)
                    print("intermediate:", ifail or "ok")
                    rc |= 1 if ifail else 0
        except (ValueError, IndexError) as e:
            print("ARPA does not parse:", e)
            rc = 1
    elif run_.refused is None:
        print("no model written:", run_.err[-300:])
        rc = 1
    shutil.rmtree(ctx.scratch, ignore_errors=True)
    return rc
