"""C01 -- query scores follow the ARPA back-off definition in every data structure (DESIGN.md section 4)."""
import os

import vlib
import lmcommon as lc

DRV = os.path.join(vlib.ROOT, "harness", "drivers", "lmq.cc")


def compare_case(ctx, m, sess, lmq, model_exe, queries, types, stats, check_model=True, label="", binary=False):
    """runs the implementation structures + extracted model on one generated model; returns list of problems:
    (signature, what, replay_obj, found_input)"""
    problems = []
    mres = lc.run_model(model_exe, m, queries) if check_model else None
    closed = m.suffix_closed()
    unk = -100 * lc.UNIT
    if check_model:
        # the loader models' tables must satisfy the hypotheses (TInv) of the query theorems: evaluated with the
        # extracted, proved-sound checker LM/InvCheck.tinv_check
        stats["inv_checked"] = stats.get("inv_checked", 0) + 1
        for tok in mres["loaded"].split():
            if tok in ("invP=0", "invT=0"):
                problems.append(("correspondence:loader-invariant:" + tok[3], "the table built by the %s loader model violates TInv (theorem hypotheses not established for this file)" % ("probing" if tok[3] == "P" else "trie"),
                                 {"arpa": m.arpa_bytes().decode("latin-1"), "model": mres["loaded"]}, False))
    replay_base = {"arpa": m.arpa_bytes().decode("latin-1"), "vocab": m.vocab_bytes().decode("latin-1")}
    for typ in types:
        qopts = []
        pb = bb = 8
        if typ in ("qtrie", "qatrie") and ctx.rng.chance(1, 2):
            # quantiser widths other than the default 8/8, and different from each other (the tables of the orders follow each other
            # in memory: a mis-sized one overlaps its neighbour only when the two widths differ -- third-round seeded change C01-7)
            pb = ctx.rng.range(6, 12)
            bb = ctx.rng.choice([b for b in range(6, 13) if b != pb])
            qopts = ["probbits=%d" % pb, "backoffbits=%d" % bb]
        wopts = None
        if binary:
            # the same structure written to a binary file (either write method, with or without the strings) and loaded back: the answers
            # owe the same specification (sixth-round seeded change C01-16 misplaced the search structure of WRITE_AFTER files without <unk>)
            import os
            binf = os.path.join(sess.dir, "c01.%s.bin" % typ)
            wopts = ["write_mmap=" + binf, "write_method=" + ctx.rng.choice(["mmap", "after"]), "include_vocab=%d" % ctx.rng.below(2)]
            w = sess.run_impl(lmq, typ, queries[:1], opts=qopts + wopts)
            stats["impl_runs"] = stats.get("impl_runs", 0) + 1
            if not w["head"].startswith("loaded") or not os.path.exists(binf):
                continue
            r = sess.run_impl(lmq, typ, queries, model_file=binf)
            stats["binary_loads"] = stats.get("binary_loads", 0) + 1
            try:
                os.remove(binf)
            except OSError:
                pass
            if not r["head"].startswith("loaded"):
                problems.append(("spec:binary-reload-fails:" + typ, "the binary file written with %r does not load: %s" % (wopts, r["head"][:120]),
                                 dict({"arpa": m.arpa_bytes().decode("latin-1"), "vocab": m.vocab_bytes().decode("latin-1")}, type=typ, opts=qopts + wopts), True))
                continue
        else:
            r = sess.run_impl(lmq, typ, queries, opts=qopts)
        stats["impl_runs"] = stats.get("impl_runs", 0) + 1
        if not r["head"].startswith("loaded"):
            kind = r["head"]
            stats["not_accepted"] = stats.get("not_accepted", 0) + 1
            # the model's loader must agree on rejection (correspondence of the error path)
            if check_model:
                want = "ok" not in mres["loaded"].split()[1 if lc.KIND[typ] == "P" else 2]
                if not want:
                    problems.append(("correspondence:load:" + typ, "implementation rejects (%s) a model the loader model accepts" % kind,
                                     dict(replay_base, type=typ, impl=kind, err=r["err"], model=mres["loaded"]), False))
            continue
        if check_model and "ok" not in mres["loaded"].split()[1 if lc.KIND[typ] == "P" else 2]:
            problems.append(("correspondence:load:" + typ, "implementation accepts a model the loader model rejects",
                             dict(replay_base, type=typ, model=mres["loaded"]), False))
            continue
        if len(r["lines"]) != len(queries):
            problems.append(("crash:" + typ, "driver died while querying (rc=%d)" % r["rc"], dict(replay_base, type=typ, err=r["err"]), True))
            continue
        quant = typ in ("qtrie", "qatrie")
        # equal-population bins keep every value exactly when an order has no more entries than bins (one value per bin; finding F5
        # is about the converse): then the quantised trie owes the exact ARPA probabilities too.  Blank entries the loader inserts
        # are quantised as well, hence the margin.
        quant_exact = quant and closed and all(2 * len(m.file_order.get(n, [])) + 2 < min(1 << pb, (1 << bb) - 2) for n in range(2, m.order + 1))
        if quant_exact:
            stats["quantised_exact_models"] = stats.get("quantised_exact_models", 0) + 1
        for qi, (q, line) in enumerate(zip(queries, r["lines"])):
            bos, ws = q
            items = lc.parse_line(line, True)
            mitems = lc.parse_line(mres[lc.KIND[typ]][qi], False) if check_model else None
            hist = [m.bos] if bos else []
            supplied = list(hist)          # the context FullScore is given = words of the incoming state
            for i, w in enumerate(ws):
                it = items[i]
                stats["scores"] = stats.get("scores", 0) + 1
                # ---- specification oracle (property text) on the implementation
                sp, sl = m.bo_score(hist, w, unk)
                rq = dict(replay_base, type=typ, bos=bos, words=ws, position=i)
                if not quant or quant_exact:
                    if it["fs"][0] != sp:
                        problems.append(("spec:prob:" + typ, "FullScore prob %s/64 != ARPA recursion %s/64" % (it["fs"][0], sp), rq, True))
                    if it["ff"][0] != sp:
                        problems.append(("spec:forgot-prob:" + typ, "FullScoreForgotState prob %s/64 != ARPA recursion %s/64" % (it["ff"][0], sp), rq, True))
                if closed:
                    if it["fs"][1] != sl:
                        problems.append(("spec:length:" + typ, "matched length %d, longest matching n-gram has %d" % (it["fs"][1], sl), rq, True))
                    for which, ctxs in (("fs", supplied), ("ff", hist)):
                        exp_ind = 1 if m.indep_left_spec(ctxs, w, sl) else 0
                        if it[which][2] != exp_ind:
                            pz = (sl == 1 and not ctxs and m.grams.get((w,), {}).get("prob") == 0 and m.grams[(w,)]["pz"])
                            problems.append(("spec:independent_left:%s:%s%s" % (which, typ, ":unigram-poszero" if pz else ""),
                                             "independent_left=%d, specification says %d (context supplied: %r)" % (it[which][2], exp_ind, ctxs), rq, True))
                # ---- correspondence with the extracted model (everything, bit for bit)
                if check_model:
                    mi = mitems[i]
                    keys = ["fs", "st", "ff", "fst", "gs"]
                    for key in keys:
                        a, b = it[key], mi[key]
                        if quant:
                            a, b = strip_values(key, a), strip_values(key, b)
                        if a != b:
                            problems.append(("correspondence:%s:%s" % (key, typ), "implementation %r, model %r" % (a, b), rq, False))
                            break
                hist = [w] + hist
                supplied = list(it["st"][0])
            if len(problems) > 20:
                return problems
    return problems


def strip_values(key, v):
    """quantised models: compare structure only (lengths, flags, state words, extension bits)"""
    if key in ("fs", "ff"):
        return v[1:]
    return (v[0], tuple(e for _, e in v[1]))


def dense_quant_check(ctx, lmq, stats):
    """a dense order-3 model (36 words: 1 368 bigrams, 46 656 trigrams) whose orders above 1 hold exactly four probabilities in equal numbers and
    two back-offs in equal numbers, quantised with 2 + 2 bits: every bin is filled with one value thousands of times over, so the quantised
    trie owes the exact ARPA probabilities ("whenever no order has more distinct values than bins" in its one uncontroversial case)."""
    rng = ctx.rng
    dm = lc.gen_dense_model(rng, nwords=36, four_values=True)
    sess = lc.Session(ctx, dm, "dense4")
    qs = lc.gen_queries(rng, dm, ctx.pick(60, 400))
    unk = -100 * lc.UNIT
    out = []
    base = {"arpa": "<lmcommon.gen_dense_model(nwords=36, four_values=True), VERIF_SEED %s>" % ctx.seed, "generator": "lmcommon.gen_dense_model"}
    for typ in ("qtrie", "qatrie"):
        r = sess.run_impl(lmq, typ, qs, opts=["probbits=2", "backoffbits=2"], timeout=300)
        stats["impl_runs"] = stats.get("impl_runs", 0) + 1
        if not r["head"].startswith("loaded") or len(r["lines"]) != len(qs):
            out.append(("spec:dense-quantised-load:" + typ, "the dense four-value model does not load / answer as a 2+2-bit quantised trie: %s" % r["head"][:120], dict(base, type=typ), True))
            continue
        stats["dense_quantised_runs"] = stats.get("dense_quantised_runs", 0) + 1
        bad = None
        for (bos, ws), line in zip(qs, r["lines"]):
            hist = [dm.bos] if bos else []
            for i, (w, it) in enumerate(zip(ws, lc.parse_line(line, True))):
                sp, sl = dm.bo_score(hist, w, unk)
                stats["scores"] = stats.get("scores", 0) + 1
                if it["fs"][0] != sp and bad is None:
                    bad = (bos, ws, i, it["fs"][0], sp)
                hist = [w] + hist
        if bad:
            out.append(("spec:prob:%s:dense-four-values" % typ, "FullScore prob %s/64 != ARPA recursion %s/64 although every bin holds one value" % (bad[3], bad[4]),
                        dict(base, type=typ, opts=["probbits=2", "backoffbits=2"], bos=bad[0], words=bad[1], position=bad[2]), True))
    import shutil
    shutil.rmtree(sess.dir, ignore_errors=True)
    return out


def run(ctx):
    pres = vlib.coq_prove("C01")
    ctx.set_proof(pres)
    lmq = vlib.compile_driver("lmq", DRV)
    model_exe = vlib.ocaml_model("C01")
    rng = ctx.rng
    stats = {}
    nmodels = 1 if ctx.replay_model else ctx.pick(40, 1500)
    allprob = []
    nontrivial = 0
    for mi in range(nmodels):
        big = (mi % 8 == 3)
        hub = (mi % 16 == 6)
        m = ctx.replay_model or lc.gen_model(rng, max_order=ctx.pick(5, 6), max_vocab=ctx.pick(8, 30), big=big, hub=hub)
        big = (big or hub) and not ctx.replay_model
        sess = lc.Session(ctx, m, "m%d" % mi)
        if big:
            qs = lc.ngram_queries(m) + lc.gen_queries(rng, m, 40)
            stats["big_models"] = stats.get("big_models", 0) + 1
        elif len(m.vocab) <= 5 and m.order <= 3:
            qs = lc.exhaustive_queries(m, m.order)
            stats["exhaustive_models"] = stats.get("exhaustive_models", 0) + 1
        else:
            qs = lc.gen_queries(rng, m, ctx.pick(40, 150))
        probs = compare_case(ctx, m, sess, lmq, model_exe, qs, lc.TYPES, stats)
        if mi % 3 == 1 and not ctx.replay_model and len(probs) == 0:
            two = list(lc.TYPES)
            rng.shuffle(two)
            probs += [(sig + ":binary", what, rq, found) for sig, what, rq, found in
                      compare_case(ctx, m, sess, lmq, model_exe, qs[:60], two[:2], stats, check_model=False, binary=True)]
        if not m.suffix_closed():
            stats["pruned_models"] = stats.get("pruned_models", 0) + 1
        if not m.saw_unk:
            stats["no_unk_models"] = stats.get("no_unk_models", 0) + 1
        nontrivial += 1 if (m.order >= 3 and len(m.grams) > len(m.vocab) + 2) else 0
        if mi < 2:
            ctx.sample({"order": m.order, "vocab": len(m.vocab), "ngrams": len(m.grams), "suffix_closed": m.suffix_closed(),
                        "first_query": qs[0], "arpa_head": m.arpa_bytes()[:300].decode("latin-1")})
        allprob += probs
        import shutil
        shutil.rmtree(sess.dir, ignore_errors=True)
        if len(allprob) > 30:
            break
    if not ctx.replay_model and len(allprob) == 0:
        allprob += dense_quant_check(ctx, lmq, stats)
    ctx.count("evaluations", stats.get("scores", 0))
    ctx.coverage["models"] = nmodels
    ctx.coverage["distinct_nontrivial"] = nontrivial
    ctx.coverage["rule"] = ("random ARPA models (order 2..6, 4..33 word types with arbitrary byte spellings, <unk> present/absent/<UNK>, CRLF, comments, "
                            "zero/negative-zero/non-zero back-offs, SRI-style pruned suffixes incl. blank-under-blank) x word sequences (exhaustive up to "
                            "the order for tiny vocabularies, random walks otherwise) x 6 structures; evaluations = scored words; non-trivial = model of "
                            "order >= 3 with n-grams beyond the unigrams (counted per distinct generated model)")
    ctx.coverage.update(stats)
    ctx.assumptions += ["scores are multiples of 1/64 so float32 arithmetic is exact and comparison is bit for bit; float32 rounding itself is not modelled",
                        "64-bit hash injectivity of the probing model is not modelled", "quantised tries: structural results only (finding F5)"]
    found_any = False
    for sig, what, rq, found in allprob:
        if found:
            found_any = True
            ctx.report(sig, what, rq, True)
    if not found_any:
        for sig, what, rq, found in allprob:
            ctx.report(sig, what, rq, False)
        ctx.report_proof(pres)


def replay(ctx, obj):
    import sys
    return lc.lm_replay(sys.modules[__name__], ctx, obj)
