"""C10 -- loaders reject malformed input with an exception and never misbehave (DESIGN.md section 4, C10).

Pipeline: regenerate coq/Gen/Spaces.v (kARPASpaces) -> proof step -> ASan+UBSan build of /repo -> structured and
byte-level mutants of valid ARPA files and truncations / header-field mismatches of valid binary files, loaded by every
model type through both load paths in a child process under a timeout (harness/drivers/c10_driver.cc) and, when the
load succeeds, queried with every word id in [0, Bound()) -> specification oracle "success or exception, nothing else"
-> correspondence of accept / reject (+ error class) with the extracted Coq model of the parser and loader checks."""
import os
import re

import vlib
import kspaces_gen
import c10gen

DRV = os.path.join(vlib.ROOT, "harness", "drivers", "c10_driver.cc")
BUILD_DRV = os.path.join(vlib.ROOT, "harness", "drivers", "c14_driver.cc")
TYPE_NAMES = ["probing", "rest-probing", "trie", "quant-trie", "array-trie", "quant-array-trie"]
SAN_ENV = {"ASAN_OPTIONS": "detect_leaks=0:allocator_may_return_null=1:exitcode=66:abort_on_error=0:max_allocation_size_mb=1024",
           "UBSAN_OPTIONS": "print_stacktrace=1"}


TRANSLATION_ERROR = None


def regenerate():
    """never raises for an extraction problem (./check --setup calls this too): the reason is kept for run() to report"""
    global TRANSLATION_ERROR
    TRANSLATION_ERROR = kspaces_gen.regen_spaces_safe()
    return ["Gen/Spaces.v"]


def pack(data):
    """file bytes for a replay: zlib + base64 (page-truncated binaries are tens of kilobytes)"""
    import base64, zlib
    return base64.b64encode(zlib.compress(data, 9)).decode()


def unpack(z):
    import base64, zlib
    return zlib.decompress(base64.b64decode(z))


def ngrams_of(flags):
    """content of the n-gram list a case was run with, for the replay file"""
    for f in flags:
        if f.startswith("ngrams=") and os.path.exists(f[7:]):
            return pack(open(f[7:], "rb").read())
    return None


def compress(kind, data):
    import bz2, gzip, io, lzma
    if kind == "gz":
        b = io.BytesIO()
        with gzip.GzipFile(fileobj=b, mode="wb", mtime=0, compresslevel=1) as g:
            g.write(data)
        return b.getvalue()
    if kind == "bz2":
        return bz2.compress(data, 1)
    return lzma.compress(data, format=lzma.FORMAT_XZ, preset=0)


STREAMS = ["gz", "bz2", "xz", "pipe"]


def c10gen_compressed_magic(data):
    """FilePiece looks at the first bytes of what it reads (>= 6 available) for a gzip / bzip2 / xz magic number"""
    return len(data) >= 6 and (data[:2] == b"\x1f\x8b" or data[:3] == b"BZh" or data[:6] == b"\xfd7zXZ\x00")


def family(t):
    return "virtual" if t == "v" else ("probing" if int(t) < 2 else "trie")


def verdict_class(v):
    """small enum of what happened"""
    if v.startswith("OK "):
        return "accept"
    if v.startswith("EXC "):
        return "exception:" + v.split()[1]
    if v.startswith("SAN "):
        return "sanitizer"
    if v.startswith("SIG "):
        return "signal"
    if v.startswith("TIMEOUT"):
        return "timeout"
    return "abnormal"


def signature_of(source, t, v):
    """failing call site / input class: load path, structure family, what the process did and where"""
    what = verdict_class(v)
    where = ""
    if what == "sanitizer":
        m = re.search(r"(heap-buffer-overflow|stack-buffer-overflow|global-buffer-overflow|heap-use-after-free|SEGV|FPE|attempting free|"
                      r"allocation-size-too-big|out-of-memory|stack-overflow|runtime error: [a-z \-]+)", v)
        kind = m.group(1).strip().replace(" ", "-") if m else "report"
        fn = re.search(r"@(\S+)", v)
        where = ":" + kind + ("@" + fn.group(1) if fn else "")
    elif what == "signal":
        where = ":" + v.split()[1]
    return "load:%s:%s:%s%s" % (source, family(t), what, where)


def oracle(v):
    """specification: constructing a model either succeeds (and then answers every in-vocabulary query) or throws"""
    c = verdict_class(v)
    return None if c == "accept" or c.startswith("exception:") else "the loading process did not end in success or an exception: " + v[:300]


# ---------------------------------------------------------------------------------------------
def base_arpas(ctx, rng):
    bases = []
    for f in ("test.arpa", "test_nounk.arpa"):
        bases.append((f, open(os.path.join(vlib.REPO, "lm", f), "rb").read()))
    for k in range(ctx.pick(6, 40)):
        m = c10gen.gen_model(rng, unk=rng.chance(3, 4), sloppy=rng.chance(1, 4))
        bases.append(("gen%d" % k, c10gen.render(m, shuffle_rng=rng if rng.chance(1, 2) else None)))
    return bases


def build_binary(ctx, build_drv, name, data, t, novocab):
    """one valid binary file (release build: the writer is not under test here) with what the harness knows about it:
    total_map = header + image bytes (the file length without the vocabulary strings), order, the model's n-grams"""
    src = os.path.join(ctx.scratch, "base-%s.arpa" % name)
    if not os.path.exists(src):
        open(src, "wb").write(data)
    dst = os.path.join(ctx.scratch, "base-%s.%d.%d.bin" % (name, t, novocab))
    rc, o, e = vlib.sh([build_drv, "--build", src, str(t), dst] + (["novocab"] if novocab else []), timeout=120)
    if rc != 0 or not os.path.exists(dst):
        return None
    b = open(dst, "rb").read()
    os.remove(dst)
    total_map = len(b) if novocab else len(b) - c10gen.vocab_strings_len(data)
    if not novocab and b[total_map:total_map + 6] != b"<unk>\x00":
        raise vlib.InfraError("vocabulary strings of %s type %d are not where the harness expects them" % (name, t))
    ng = os.path.join(ctx.scratch, "base-%s.ngrams" % name)
    if not os.path.exists(ng):
        secs = c10gen.arpa_sections(data)
        lines = [b" ".join(g) for n in sorted(secs, reverse=True) for g in secs[n]][:6000]
        open(ng, "wb").write(b"\n".join(lines) + b"\n")
    order, hdr = c10gen.binary_regions(b)
    return {"name": name, "type": t, "data": b, "novocab": novocab, "total_map": total_map, "order": order, "hdr": hdr, "ngrams": ng}


def make_binaries(ctx, bases, build_drv, novocab=False, types=range(6)):
    out = []
    for name, data in bases:
        for t in types:
            r = build_binary(ctx, build_drv, name, data, t, novocab)
            if r:
                out.append(r)
    return out


def page_tuned_binaries(ctx, rng, build_drv, types):
    """no-vocabulary binaries whose image ends just after a page boundary (total_map mod 4096 in 1 .. header size): the number
    of filler words is searched, nothing else"""
    out = []
    for t in types:
        best = None
        start = rng.range(40, 120)
        for n in range(start, start + 260):
            r = build_binary(ctx, build_drv, "fill%d" % n, c10gen.render(c10gen.gen_filler_model(vlib.Rng(n), n)), t, True)
            if not r:
                continue
            m = r["total_map"] % 4096
            if best is None or (0 < m < (best["total_map"] % 4096 or 4096)):
                best = r
            if 0 < m <= r["hdr"] - 8:
                break
        if best:
            out.append(best)
    return out


def run_cases(drv, cases, timeout):
    """cases: [(type, path, seed, flags)] -> verdict lines"""
    lines = ["%s %s %x %s %s" % (t, p, s, os.path.dirname(p), " ".join(fl)) for t, p, s, fl in cases]
    return vlib.run_lines(drv, lines, timeout=timeout, env=SAN_ENV)


def run(ctx):
    regenerate()
    pres = vlib.coq_prove("C10")
    ctx.set_proof(pres)
    rng = ctx.rng
    drv = vlib.compile_driver("c10_driver", DRV, variant="asan", opt="-O1")
    build_drv = vlib.compile_driver("c14_driver", BUILD_DRV)
    bases = base_arpas(ctx, rng)
    base_bytes = [b for _, b in bases]
    cases, meta = [], []       # meta: dict per case

    def add(source, data, names, t, flags=(), label=None, transport="plain", container=None):
        """transport (ARPA text only): plain = a regular file (mmap path of FilePiece); gz / bz2 / xz = a compressed file and
        pipe = /dev/stdin fed by another process (all four: the read() path, FilePiece::ReadShift)"""
        idx = len(cases)
        p = os.path.join(ctx.scratch, "m%d.%s" % (idx, "arpa" if source == "arpa" else "bin"))
        open(p, "wb").write(data)
        flags = list(flags)
        load = p
        if container is not None:
            # the bytes of a (damaged) compressed container are the file; `data` is the text that was compressed
            load = p + ".container"
            open(load, "wb").write(container)
        elif transport in ("gz", "bz2", "xz"):
            load = p + "." + transport
            open(load, "wb").write(compress(transport, data))
        elif transport == "pipe":
            flags.append("pipe")
        cases.append((t, load, rng.next() & 0xffffffff, flags))
        meta.append({"source": source, "mutations": names, "type": t, "flags": flags, "path": p, "label": label, "size": len(data), "transport": transport,
                     "container": load if container is not None else None})

    # corpus first
    cdir = os.path.join(vlib.ROOT, "corpus", "C10")
    ncorpus = 0
    for f in sorted(os.listdir(cdir)) if os.path.isdir(cdir) else []:
        data = open(os.path.join(cdir, f), "rb").read()
        source = "binary" if f.endswith(".bin") else "arpa"
        for t in "012345v":
            add(source, data, ["corpus:" + f], t, ["enum"] if t == "v" else [])
        ncorpus += 1
    ctx.count("corpus_cases", ncorpus)
    # the unmutated bases must load in every structure (guards the generator and the driver)
    for name, data in bases[:2]:
        for t in "012345v":
            add("arpa", data, ["identity"], t, ["enum"], label=name)
        for tr in STREAMS:
            add("arpa", data, ["identity", "via:" + tr], rng.choice("012345"), [], label=name, transport=tr)
    # the converter's special spellings in every number position, deterministically, on every run
    for data, name in c10gen.number_token_mutants(bases[0][1]):
        for t in ("0", "2"):
            add("arpa", data, [name], t, [])
    # lines and tokens longer than FilePiece's mapping window (the reader must remap and grow it; a reader that cannot hangs)
    for data, name in c10gen.long_line_mutants(rng, bases[rng.below(2)][1], ctx.pick(1, 6)):
        for t in (rng.choice("01"), rng.choice("2345")):
            add("arpa", data, [name], t, [])
            # ... and through the read() path, where the buffer (not the window) has to grow: a compressed file and a pipe
            for tr in (["pipe", rng.choice(["gz", "bz2", "xz"])] if ctx.quick else STREAMS):
                add("arpa", data, [name, "via:" + tr], t, [], transport=tr)
    # a long vocabulary word first in the unigram section, loaded so that the vocabulary strings are copied while loading:
    # enumerate_vocab set, and ARPA -> binary conversion (write_mmap, include_vocab = the default of build_binary)
    for data, name in c10gen.long_word_mutants(rng, bases[rng.below(2)][1], ctx.pick(5, 11)):
        for t in (rng.choice("01"), rng.choice("23"), rng.choice("45")):
            add("arpa", data, [name], t, ["enum"])
            add("arpa", data, [name], t, ["build=" + os.path.join(ctx.scratch, "out%d.bin" % len(cases))])
    # damaged compressed containers around a valid text: truncated streams (header / middle / trailer), a changed byte, appended
    # bytes, two members; as a file and, for some, through a pipe.  Oracle only (success or exception, no hang): the outcome depends
    # on the decompression library, which is not modelled.
    for kind in ("gz", "bz2", "xz"):
        text = bases[0][1] if rng.chance(2, 3) else bases[2 + rng.below(len(bases) - 2)][1]
        comp = compress(kind, text)
        for cdata, name in c10gen.container_mutants(rng, comp, ctx.pick(3, 12)):
            for t in ([rng.choice("01"), rng.choice("2345")] if kind == "gz" or not ctx.quick else [rng.choice("012345")]):
                add("arpa", text, [name, "in:" + kind], t, ["pipe"] if rng.chance(1, 4) else [], container=cdata)
    # ARPA mutants
    n_arpa = ctx.pick(600, 30000)
    for _ in range(n_arpa):
        data, names = c10gen.arpa_mutant(rng, base_bytes)
        ts = ["0", "2", rng.choice("1345")] if rng.chance(1, 2) else [rng.choice("01"), rng.choice("2345")]
        if rng.chance(1, 6):
            ts.append("v")
        for t in ts:
            flags = []
            if t == "v" or rng.chance(1, 5):
                flags.append("enum")
            if t != "v" and rng.chance(1, 8):
                flags.append("build=" + os.path.join(ctx.scratch, "out%d.bin" % len(cases)))
            add("arpa", data, names, t, flags)
            if rng.chance(1, 8):
                tr = rng.choice(STREAMS)
                add("arpa", data, names + ["via:" + tr], t, [f for f in flags if not f.startswith("build=")], transport=tr)
    # binary mutants
    big = ("big", c10gen.render(c10gen.gen_big_model(rng)))
    bins = make_binaries(ctx, bases[:1] + bases[2:2 + ctx.pick(1, 4)] + [big], build_drv)
    n_bin = ctx.pick(420, 20000)
    for _ in range(n_bin):
        bn = rng.choice(bins)
        name, bt, data = bn["name"], bn["type"], bn["data"]
        image = None
        if rng.chance(1, 10):
            mut, mname = data, "identity"          # valid file, possibly offered to the wrong class
            image = bn
        else:
            mut, mname = c10gen.mutate_binary(rng, data)
            if mname.startswith("truncate") and len(mut) >= bn["hdr"]:
                image = bn
        t = rng.choice([str(bt), str(bt), "v", str(rng.below(6))])
        flags = ["method=%d" % rng.choice([0, 1, 2, 3, 3])]
        if t == "v" or rng.chance(1, 3) or mname.startswith("has-vocab"):
            flags.append("enum")
        add("binary", mut, [mname, "built-as:" + TYPE_NAMES[bt]], t, flags)
        meta[-1]["image"] = image
    # truncations of the memory image itself: binaries without vocabulary strings (Config::include_vocab = false), where the
    # file is exactly the mapped image; short by 1 .. header-size bytes and around page boundaries; every mmap load method;
    # after a load that succeeds all n-grams of the model are scored, so the last records of every array are reached
    nov = make_binaries(ctx, bases[:1] + [big], build_drv, novocab=True, types=range(6) if not ctx.quick else [0, 1, 2, rng.range(3, 5)])
    nov += page_tuned_binaries(ctx, rng, build_drv, [0, 2, rng.range(3, 5)] if ctx.quick else range(6))
    ctx.coverage["page_tuned_images_mod_4096"] = [b["total_map"] % 4096 for b in nov if b["name"].startswith("fill")]
    for bn in nov:
        tuned = bn["name"].startswith("fill")
        add("binary", bn["data"], ["identity", "no-vocab", "built-as:" + TYPE_NAMES[bn["type"]]], str(bn["type"]), ["method=%d" % rng.below(4), "ngrams=" + bn["ngrams"]])
        meta[-1]["image"] = bn
        for cut in c10gen.image_cuts(rng, bn["total_map"], bn["hdr"], ctx.pick(8 if tuned else 4, 40)):
            for method in ([0, 1, 2] if tuned else [rng.below(3)]) + ([3] if rng.chance(1, 4) else []):
                t = str(bn["type"]) if rng.chance(5, 6) else "v"
                add("binary", bn["data"][:cut], ["truncate:image-%d" % (bn["total_map"] - cut), "no-vocab", "built-as:" + TYPE_NAMES[bn["type"]]], t,
                    ["method=%d" % method, "ngrams=" + bn["ngrams"]])
                meta[-1]["image"] = bn
    outs = []
    step = 400
    for i in range(0, len(cases), step):
        outs += run_cases(drv, cases[i:i + step], timeout=max(600, 3 * step))
    # UBSan (built with -fno-sanitize-recover) stops the process at arithmetic / enum findings that are not a crash, a hang or an
    # out-of-bounds access in the property's terms: *reading* a model_type field that is not one of the six enumerators (the very
    # value MatchCheck / LoadVirtual go on to reject with an exception), a shift by 64 or an integer overflow in the size
    # arithmetic on garbage counts of a header that does not match its image.  What the code does next cannot be seen in that build,
    # so such a case is decided by the uninstrumented build (where a real crash -- SIGFPE, SIGSEGV -- is still a violation).
    # Memory findings of UBSan (null reference, index out of bounds, ...) and everything ASan reports stay violations.
    benign = ("not a valid value for type", "shift exponent", "signed integer overflow")
    enum_idx = [i for i, v in enumerate(outs) if v.startswith("SAN ") and "runtime error:" in v and any(b in v for b in benign)]
    if enum_idx:
        rel = vlib.compile_driver("c10_driver", DRV, variant="release")
        redo = vlib.run_lines(rel, ["%s %s %x %s %s" % (t, p, s, os.path.dirname(p), " ".join(fl)) for t, p, s, fl in [cases[i] for i in enum_idx]], timeout=600)
        for i, v in zip(enum_idx, redo):
            outs[i] = v
    ctx.count("ubsan_enum_load_cases_decided_by_release_build", len(enum_idx))
    # specification oracle
    classes, kinds = {}, {}
    nontrivial = set()
    fails = []
    for m, v in zip(meta, outs):
        c = verdict_class(v)
        key = "%s:%s:%s" % (m["source"], family(m["type"]), c)
        classes[key] = classes.get(key, 0) + 1
        for n in m["mutations"]:
            kinds[n.split(":")[0]] = kinds.get(n.split(":")[0], 0) + 1
        msg = oracle(v)
        if msg:
            fails.append((m, v, msg))
        if m["mutations"] != ["identity"]:
            nontrivial.add((open(m["path"], "rb").read(), m["type"]))
    for m, v in list(zip(meta, outs))[:400:67]:
        ctx.sample({"mutations": m["mutations"], "type": m["type"], "flags": m["flags"], "size": m["size"], "verdict": v[:160]})
    # correspondence with the extracted model: accept / reject and the exception class
    mismatches, model_broken, validated, unmodelled, undecided = [], None, 0, 0, 0
    try:
        ocaml = vlib.ocaml_model("C10")
        mlines, keys = [], {}
        for m in meta:
            data = open(m["path"], "rb").read()
            if m.get("container"):
                m["model_key"] = None
                continue
            if m["source"] == "arpa" and m.get("transport", "plain") != "plain":
                line = "T %s %s" % ("T" if family(m["type"]) == "trie" else "P", data.hex() or "-")
            elif m["source"] == "arpa":
                line = "A %s %s" % ("T" if family(m["type"]) == "trie" else "P", data.hex() or "-")
            else:
                line = "B %s %d %s" % (m["type"], 1 if ("enum" in m["flags"] or m["type"] == "v") else 0, data.hex() or "-")
            if line not in keys:
                keys[line] = len(mlines); mlines.append(line)
            m["model_key"] = keys[line]
            im = m.get("image")
            if im:
                # BinaryFormat::LoadBinary's size test: file size, order, image bytes after the header as the writer produced them
                sl = "S %x %x %x" % (len(data), im["order"], im["total_map"] - im["hdr"])
                if sl not in keys:
                    keys[sl] = len(mlines); mlines.append(sl)
                m["size_key"] = keys[sl]
        mout = []
        for i in range(0, len(mlines), 2000):
            # the extracted functions recurse once per byte of a line: megabyte lines need a deep stack
            mout += vlib.run_lines(ocaml, mlines[i:i + 2000], timeout=1800,
                                   prefix=("sh", "-c", 'ulimit -s unlimited 2>/dev/null || ulimit -s 4000000; exec "$0" "$@"'))
        for m, v in zip(meta, outs):
            if m["model_key"] is None:
                unmodelled += 1
                continue
            mo = mout[m["model_key"]]
            m["model"] = mo
            c = verdict_class(v)
            if mo == "REJECT UNMODELLED":
                unmodelled += 1
            elif mo == "UNDECIDED" and "size_key" in m and mout[m["size_key"]] == "REJECT Format":
                # the header is fine but the file is shorter than header + image: FormatLoadException from LoadBinary (or, when a
                # structure reads its configuration bytes from the missing part first, the EndOfFileException of that read)
                m["model"] = mo = "REJECT Format (LoadBinary size test)"
                if c not in ("exception:Format", "exception:EndOfFile"):
                    mismatches.append((m, v, mo))
                else:
                    validated += 1
            elif mo == "UNDECIDED":
                undecided += 1
            elif mo.startswith("ACCEPT"):
                got = re.match(r"OK bound=(\d+) order=(\d+)", v)
                want = re.match(r"ACCEPT order=(\d+) bound=(\d+)", mo)
                # LoadVirtual is queried through the strings it enumerated: its bound is that count
                if not got or (got.group(2), got.group(1)) != (want.group(1), want.group(2)):
                    mismatches.append((m, v, mo))
                else:
                    validated += 1
            elif mo.startswith("REJECT "):
                want = {"exception:" + mo.split()[1]}
                stream = m.get("transport", "plain") != "plain"
                if stream and mo == "REJECT EndOfFile":
                    # on the read() path the end of the input met while skipping white space before a number is only known after
                    # the read that returns 0, and surfaces as the number parser's exception on the empty rest
                    want.add("exception:ParseNumber")
                if stream and m["transport"] == "pipe" and c10gen_compressed_magic(open(m["path"], "rb").read(16)):
                    unmodelled += 1          # piped bytes that look compressed go to the decompressor
                elif c not in want:
                    mismatches.append((m, v, mo))
                else:
                    validated += 1
            else:
                mismatches.append((m, v, mo))
    except vlib.ModelBroken as e:
        model_broken = str(e)
    ctx.coverage["traces_validated_against_impl"] = validated
    ctx.coverage["correspondence_mismatches"] = len(mismatches)
    ctx.coverage["model_unmodelled_inputs"] = unmodelled
    ctx.coverage["binary_cases_left_to_layout_sizes"] = undecided
    ctx.count("evaluations", len(cases))
    ctx.coverage["distinct_nontrivial"] = len(nontrivial)
    ctx.coverage["verdict_classes"] = classes
    ctx.coverage["mutation_kinds"] = kinds
    ctx.coverage["spec_oracle_failures"] = len(fails)
    ctx.coverage["rule"] = ("cases = corpus + generated: (a) structured mutants of lm/test.arpa, lm/test_nounk.arpa and generated small models (order 2-4, closed or "
                            "SRI-style pruned, shuffled sections): truncation at any byte / line boundary / inside the counts / inside an entry / just before \\end\\, "
                            "deleted / duplicated / swapped / moved lines of every kind, wrong / malformed / overflowing / consistent counts, count-line syntax, "
                            "42 broken-number spellings (incl. the float32 zero and overflow thresholds) in probability and back-off position, unknown words, dropped / "
                            "duplicated / swapped sections and headers, missing \\data\\ / \\end\\, stray bytes, field-structure damage, missing <s> </s> <unk>, "
                            "duplicate unigrams, pruned contexts, lines / words / tokens longer than FilePiece's 1 MB + 1 page mapping window (comment, blank line, vocabulary word, junk number), a 33 .. 200000-byte vocabulary word as the first unigram loaded with enumerate_vocab and with write_mmap (every structure),  CR/LF variants, foreign magic numbers, a 7th order, trailing data, degenerate tiny files; (b) byte-level "
                            "flips / inserts / deletes; (c) truncations and header-field mismatches (magic, version, sanity block, order, multiplier, type, vocabulary flag, "
                            "search version, incomplete marker) of valid binary files of all six types, offered to the matching class, another class and LoadVirtual, "
                            "through LAZY / POPULATE_OR_LAZY / POPULATE_OR_READ / READ; (d) truncations of the memory image of binaries built without vocabulary strings "
                            "(file = mapped image), short by 1 .. ~3 header sizes and ending on / around page boundaries, incl. filler models whose image ends just after "
                            "a page boundary, under every mmap method, followed by scoring all n-grams of the model; the LoadBinary size predicate of the model "
                            "(file_size >= header + image) decides accept / reject for every pure truncation.  Announced counts are capped at 2e6.  Every case is one (file, model class, flags); "
                            "a load that succeeds is queried with every word id in [0, Bound()) after random in-vocabulary histories (FullScore, FullScoreForgotState, "
                            "GetState, ExtendLeft).  Non-trivial = every mutated case; distinct = distinct (file bytes, class).")
    ctx.assumptions += ["memory safety of the C++ is observed through ASan+UBSan (alignment check off: the unaligned 64-bit loads are intended on x86-64), not proved",
                        "word identity = string identity: MurmurHash64A is taken to be injective on the words and n-grams of a file and never 0",
                        "the file is smaller than FilePiece's first mapping (a pure byte stream); Config defaults",
                        "binary files: the model decides up to the header checks; size-dependent outcomes are left to the specification oracle (layout arithmetic is C04's subject)",
                        "UBSan reports for reading an out-of-range ModelType are decided by the uninstrumented build (the value is rejected by an exception)",
                        "extraction (ExtrOcamlBasic only), the OCaml and C++ drivers and the Python generators are trusted"]
    for m, v, msg in fails[:40]:
        data = open(m.get("container") or m["path"], "rb").read()
        ctx.report(signature_of(m["source"], m["type"], v), msg,
                   {"source": m["source"], "type": m["type"], "flags": m["flags"], "mutations": m["mutations"], "verdict": v,
                    "file_z": pack(data), "file_len": len(data), "ngrams_z": ngrams_of(m["flags"]), "transport": m.get("transport", "plain")})
    if not fails:
        if mismatches:
            m, v, mo = mismatches[0]
            data = open(m["path"], "rb").read()
            ctx.report("correspondence:%s:%s" % (m["source"], family(m["type"])), "extracted loader model and implementation disagree on accept / reject or on the exception class; "
                       "the specification oracle accepts the implementation's behaviour",
                       {"source": m["source"], "type": m["type"], "flags": m["flags"], "mutations": m["mutations"], "verdict": v, "model": mo,
                        "n_mismatches": len(mismatches), "file_z": pack(data), "ngrams_z": ngrams_of(m["flags"]), "transport": m.get("transport", "plain")}, found=False)
        elif model_broken:
            ctx.report("model-broken", "executable model no longer builds", {"log": model_broken[-2000:]}, found=False)
        ctx.report_proof(pres)
    kspaces_gen.report_translation(ctx, TRANSLATION_ERROR)
    ctx.mismatches = mismatches
    return outs, meta


def replay(ctx, obj):
    r = obj["replay"]
    drv = vlib.compile_driver("c10_driver", DRV, variant="asan", opt="-O1")
    p = os.path.join(ctx.scratch, "replay." + ("arpa" if r["source"] == "arpa" else "bin"))
    open(p, "wb").write(unpack(r["file_z"]) if "file_z" in r else bytes.fromhex(r["file_hex"]))
    flags = [f for f in r["flags"] if not f.startswith("build=") and not f.startswith("ngrams=")] + \
            (["build=" + p + ".out"] if any(f.startswith("build=") for f in r["flags"]) else [])
    if r.get("transport") in ("gz", "bz2", "xz"):
        open(p + "." + r["transport"], "wb").write(compress(r["transport"], open(p, "rb").read()))
        p = p + "." + r["transport"]
    if r.get("ngrams_z"):
        open(p + ".ngrams", "wb").write(unpack(r["ngrams_z"]))
        flags.append("ngrams=" + p + ".ngrams")
    v = run_cases(drv, [(r["type"], p, 1, flags)], 120)[0]
    print("type:", r["type"], "flags:", flags, "mutations:", r["mutations"], "\nverdict:", v, "\noracle:", oracle(v) or "ok")
    if r.get("model"):
        print("model at the time of the report:", r["model"], "(correspondence; the specification oracle alone decides the exit status)")
    import shutil
    shutil.rmtree(ctx.scratch, ignore_errors=True)
    return 1 if oracle(v) else 0
