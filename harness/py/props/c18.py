"""C18 -- text input is transparent to buffering, mapping, compression and read sizes (DESIGN.md section 4, C18).

Pipeline: regenerate coq/Gen/SpacesC18.v from util/spaces.cc -> proof step (Properties_C18.vo) -> the real
util::FilePiece / util::ReadCompressed (harness/drivers/c18_driver.cc) on generated inputs x operation sequences x
backends x min_buffer x short-read patterns -> judged by the whole-string specification oracle below (written from
the property text) and compared token by token with the extracted Coq model (ocaml/c18_driver.ml)."""
import bz2
import ctypes
import gzip
import lzma
import os
import re
import struct
import subprocess
import concurrent.futures

import vlib

DRIVER_SRC = os.path.join(vlib.ROOT, "harness", "drivers", "c18_driver.cc")
TABLES_SRC = os.path.join(vlib.ROOT, "harness", "drivers", "c18_tables.cc")
PAGE = 4096
SPACES = frozenset(b" \t\n\v\f\r")


# ---------------------------------------------------------------------------------------------
def regenerate():
    """coq/Gen/SpacesC18.v: util::kSpaces printed by a program compiled against the current util/spaces.cc"""
    out = os.path.join(vlib.CACHE, "drivers", "c18_tables")
    os.makedirs(os.path.dirname(out), exist_ok=True)
    rc, o, e = vlib.sh(["g++", "-I" + vlib.REPO, TABLES_SRC, "-o", out], timeout=120)
    if rc != 0:
        raise vlib.InfraError("c18_tables does not compile against util/spaces.cc:\n" + (o + e)[-2000:])
    rc, o, e = vlib.sh([out], timeout=20, check=True)
    head = ("(* GENERATED on every run by harness/py/props/c18.py (regenerate) from util/spaces.cc (util::kSpaces): the table is\n"
            "   printed by harness/drivers/c18_tables.cc compiled against the current sources.  Do not edit. *)\n"
            "From Coq Require Import List Bool.\nImport ListNotations.\n")
    vlib.write_if_changed(os.path.join(vlib.COQ, "Gen", "SpacesC18.v"), head + o)
    return ["Gen/SpacesC18.v"]


# ---------------------------------------------------------------------------------------------
# canonical result tokens (same functions in both drivers)
def fmt_bytes(b):
    if len(b) <= 24:
        return "b:" + b.hex()
    h = 7
    for x in b:
        h = (h * 257 + x + 1) % 2147483647
    return "B:%x:%s:%x" % (len(b), b[:8].hex(), h)


_libc = ctypes.CDLL("libc.so.6")
_libc.strtof.restype = ctypes.c_float
_libc.strtof.argtypes = [ctypes.c_char_p, ctypes.c_void_p]
_libc.strtod.restype = ctypes.c_double
_libc.strtod.argtypes = [ctypes.c_char_p, ctypes.c_void_p]


def float_bits(span, double):
    """value of the characters the converter consumed, by libc (correctly rounded), as the drivers print it"""
    if double:
        return "d:%x" % struct.unpack("<Q", struct.pack("<d", _libc.strtod(span, None)))[0]
    return "f:%x" % struct.unpack("<I", struct.pack("<f", _libc.strtof(span, None)))[0]


def is_nan_tok(tok):
    if tok.startswith("f:"):
        v = int(tok[2:], 16)
        return (v & 0x7f800000) == 0x7f800000 and (v & 0x7fffff) != 0
    if tok.startswith("d:"):
        v = int(tok[2:], 16)
        return (v & 0x7ff0000000000000) == 0x7ff0000000000000 and (v & 0xfffffffffffff) != 0
    return False


FLOAT_RE = re.compile(rb"[+-]?(?:inf|NaN|(?:[0-9]+\.?[0-9]*|\.[0-9]+)(?:[eE][+-]?[0-9]+)?)")
INT_RE = re.compile(rb"[+-]?[0-9]+")


class Ref:
    """The specification: every call is a function of the bytes that remain (self.d[self.p:]); the offset reported after
    it is self.p.  `END` marks the answers for which the property only demands 'end of input or a failure, no data'."""

    def __init__(self, data):
        self.d = data
        self.p = 0

    def skip(self, pred):
        d, p, n = self.d, self.p, len(self.d)
        while p < n and pred(d[p]):
            p += 1
        self.p = p

    def token_end(self):
        d, p, n = self.d, self.p, len(self.d)
        while p < n and d[p] not in SPACES:
            p += 1
        return p

    def op(self, c):
        d, n = self.d, len(self.d)
        if c in "LlET":
            delim = 9 if c == "T" else 10
            i = d.find(bytes([delim]), self.p)
            if i < 0:
                if self.p >= n:
                    return "EOF"
                r = d[self.p:]
                self.p = n
                return fmt_bytes(r)
            e = i
            if c != "l" and e > self.p and d[e - 1] == 13:
                e -= 1
            r = d[self.p:e]
            self.p = i + 1
            return fmt_bytes(r)
        if c == "D":
            self.skip(lambda b: b in SPACES)
            if self.p >= n:
                return "EOF"
            e = self.token_end()
            r = d[self.p:e]
            self.p = e
            return fmt_bytes(r)
        if c == "W":
            self.skip(lambda b: b in SPACES and b != 10)
            if self.p >= n or d[self.p] == 10:
                return "F"
            e = self.token_end()
            r = d[self.p:e]
            self.p = e
            return fmt_bytes(r)
        if c == "G":
            if self.p >= n:
                return "EOF"
            self.p += 1
            return "c:%x" % d[self.p - 1]
        if c == "P":
            return "EOF" if self.p >= n else "c:%x" % d[self.p]
        if c == "S":
            self.skip(lambda b: b in SPACES)
            return "END" if self.p >= n else "ok"
        # numbers
        self.skip(lambda b: b in SPACES)
        if self.p >= n:
            return "END"
        tok = d[self.p:self.token_end()]
        if c in "FB":
            m = FLOAT_RE.match(tok)
            if not m or m.group(0) in (b"+NaN", b"-NaN"):
                return "PERR"
            self.p += m.end()
            if m.group(0) == b"NaN":
                return "NAN"
            return float_bits(m.group(0), c == "B")
        m = INT_RE.match(tok)
        if not m:
            return "PERR"
        digits = m.group(0).lstrip(b"+-").lstrip(b"0")
        if len(digits) > 20:
            return "PERR"           # far out of range (strtol/strtoul: ERANGE)
        v = int(m.group(0))
        if c == "I":
            if not -(1 << 63) <= v < (1 << 63):
                return "PERR"
        else:
            if abs(v) >= (1 << 64):
                return "PERR"
            v %= (1 << 64)
        self.p += m.end()
        return "n:%s%x" % ("-" if v < 0 else "", abs(v))


def oracle_tokens(data, ops):
    r = Ref(data)
    return ["%s@%x" % (r.op(c), r.p) for c in ops]


def agree(spec_tok, impl_tok, opc):
    """does the implementation's answer satisfy the specification's?"""
    s, so = spec_tok.rsplit("@", 1)
    if "@" not in impl_tok:
        return False
    i, io = impl_tok.rsplit("@", 1)
    if so != io:
        return False
    if s == i:
        return True
    if s == "END":
        return i in ("EOF", "PERR") if opc != "S" else i in ("EOF", "ok")
    if s == "NAN":
        return is_nan_tok(i)
    return False


def model_to_impl_tokens(line, ops):
    """the model prints the span the converter consumed; turn it into the value the driver prints (libc strtof/strtod)"""
    out = []
    for k, t in enumerate(line.split()):
        if t.startswith("s:"):
            body, off = t.rsplit("@", 1)
            _, kind, hexs = body.split(":")
            dbl = k < len(ops) and ops[k] == "B"
            if kind == "N":
                t = "NAN@" + off
            else:
                t = float_bits(bytes.fromhex(hexs), dbl) + "@" + off
        out.append(t)
    return out


def tokens_equal(model_tok, impl_tok):
    if model_tok.startswith("NAN@"):
        return "@" in impl_tok and is_nan_tok(impl_tok.rsplit("@", 1)[0]) and impl_tok.rsplit("@", 1)[1] == model_tok[4:]
    return model_tok == impl_tok


# ---------------------------------------------------------------------------------------------
# generators
WORDS = [b"a", b"the", b"<s>", b"</s>", b"<unk>", b"looking", b"\xc3\xa9t\xc3\xa9", b"x\x00y", b"\x00", b"ab\rcd", b"\\data\\", b"ngram"]
INTS = [b"0", b"7", b"-0", b"+5", b"-12", b"123456789", b"18446744073709551615", b"18446744073709551616", b"9223372036854775807",
        b"9223372036854775808", b"-9223372036854775808", b"-9223372036854775809", b"00012", b"12abc", b"-", b"+", b"1-2", b"4294967296"]
FLOATS = [b"-1.5", b"0.25", b"1e-5", b"-2.302585", b"3.4028235e38", b"1e39", b"1e-46", b"1.17549435e-38", b"inf", b"-inf", b"+inf", b"NaN",
          b"-NaN", b"nan", b"Inf", b"infinity", b"1.", b".5", b".", b"-.5e1", b"1e", b"1e+", b"1e+5x", b"0x10", b"1.5abc", b"-0", b"-0.0", b"0e0",
          b"123456789012345678901234567890", b"0.000000000000000000000000000000000000000000001", b"1E5", b"5.e3", b".e5", b"i", b"in", b"N", b"Na",
          b"1.7976931348623157e308", b"4.9e-324", b"2.2250738585072014e-308", b"-99", b"-1.234567"]
SEPS = [b" ", b" ", b" ", b"\n", b"\n", b"\t", b"\r\n", b"  ", b" \t ", b"\n\n", b"\r", b"\v", b"\f", b" \n", b"\t\n"]


def midpoint_text(rng):
    """a decimal next to the midpoint of two adjacent floats (the midpoint is a double; 17 digits round it up or down):
    readers that parse as double and narrow, or break ties the wrong way, return the wrong neighbour"""
    b = (rng.range(1, 253) << 23) | rng.below(1 << 23)
    lo = struct.unpack("<f", struct.pack("<I", b))[0]
    hi = struct.unpack("<f", struct.pack("<I", b + 1))[0]
    return ("%s%.*g" % (rng.choice(["", "-"]), rng.choice([17, 17, 16, 12]), (lo + hi) / 2)).encode()


def rand_word(rng, n):
    kind = rng.below(4)
    if kind == 0:
        return bytes(97 + rng.below(26) for _ in range(n))
    if kind == 1:
        return bytes(48 + rng.below(10) for _ in range(n))
    if kind == 2:
        return bytes(rng.choice([0, 13, 65, 66, 200, 255, 46, 45, 101]) for _ in range(n))
    return bytes([97 + rng.below(26)]) * n


def gen_data(rng, size, window):
    """pieces (token + separator) laid out so that token / line / number ends fall on and around multiples of the
    page size and of the window; some very long tokens and lines; NUL and CR bytes; optional missing final newline"""
    out = bytearray()
    style = rng.choice(["mixed", "mixed", "mixed", "lines", "numbers", "arpa", "longtok", "spaces"])
    aim = rng.chance(3, 4)
    while len(out) < size:
        if aim and rng.chance(1, 6):
            # make the next piece end at a boundary +- delta
            base = rng.choice([PAGE, PAGE, window, window, 2 * window, window + PAGE, 3 * PAGE])
            target = ((len(out) // base) + 1) * base + rng.choice([-2, -1, 0, 0, 1, 2])
            sep = rng.choice(SEPS)
            fill = target - len(out) - len(sep) + rng.choice([0, 0, 0, len(sep)])
            if 0 < fill < 3 * window and target <= size + 2 * PAGE:
                if rng.chance(1, 3) and fill > 8:
                    # several short tokens then one that reaches the boundary
                    k = rng.below(fill // 2)
                    while k > 4:
                        w = rng.choice(WORDS + INTS + FLOATS)[:k - 1]
                        out += w + b" "
                        fill -= len(w) + 1
                        k -= len(w) + 1
                out += rand_word(rng, fill) + sep
                continue
        r = rng.below(100)
        if style == "longtok" and r < 6:
            lw = window if window <= (1 << 16) else 2 * PAGE      # tokens longer than a 1 MB window only in inputs built for that (thorough)
            out += rand_word(rng, rng.choice([lw - 1, lw, lw + 1, 2 * lw + 3, rng.range(PAGE, 3 * lw)])) + rng.choice(SEPS)
        elif style == "lines" or (style == "mixed" and r < 15):
            ln = rng.choice([0, 1, 5, rng.range(0, 80), rng.range(0, 300)])
            line = bytearray()
            while len(line) < ln:
                line += rng.choice(WORDS + INTS + FLOATS) + rng.choice([b" ", b"\t", b" "])
            out += bytes(line[:ln]) + rng.choice([b"\n", b"\n", b"\r\n", b"\n\n", b"\r\r\n"])
        elif style == "numbers" or (style == "mixed" and r < 45):
            out += rng.choice(INTS + FLOATS + [b"%d" % rng.below(1 << rng.range(1, 66)), b"-%d.%de-%d" % (rng.below(100), rng.below(10 ** 7), rng.below(50)),
                                               midpoint_text(rng)]) + rng.choice(SEPS)
        elif style == "arpa":
            out += b"-%d.%06d\t" % (rng.below(9), rng.below(10 ** 6)) + b" ".join(rng.choice(WORDS[:6]) for _ in range(rng.range(1, 4)))
            out += rng.choice([b"\n", b"\t-0.%d\n" % rng.below(10 ** 5)])
        elif style == "spaces" and r < 50:
            out += bytes(rng.choice(list(SPACES)) for _ in range(rng.choice([1, 3, 40, rng.range(1, 2 * PAGE)])))
        else:
            out += (rng.choice(WORDS) if rng.chance(2, 3) else rand_word(rng, rng.range(1, 12))) + rng.choice(SEPS)
    data = bytes(out[:size + rng.below(64)]) if rng.chance(1, 2) else bytes(out)
    end = rng.below(5)
    if end == 0:
        data = data.rstrip(b" \t\n\v\f\r")            # no final newline
    elif end == 1:
        data += b"\n"
    elif end == 2:
        data += b"   \n  "
    return data


def gen_ops(rng, data, maxops):
    """an interleaving chosen while walking the specification over the data: mostly calls that make sense where the
    cursor is, some that must fail, then calls after the end"""
    r = Ref(data)
    ops = []
    style = rng.choice(["mixed", "mixed", "lines", "tokens", "numbers", "chars"])
    n = len(data)
    while r.p < n and len(ops) < maxops:
        x = rng.below(100)
        if style == "lines":
            c = rng.choice("LLLLElTDGW") if x < 90 else rng.choice("LlETDWFBUIGPS")
        elif style == "chars" and x < 60:
            c = rng.choice("GGGPS")
        elif style == "tokens":
            c = rng.choice("DDDDWWSGL") if x < 90 else rng.choice("LlETDWFBUIGPS")
        else:
            # look at the next token to choose a fitting number reader most of the time
            p = r.p
            while p < n and data[p] in SPACES:
                p += 1
            nxt = data[p:p + 1]
            if nxt and (nxt in b"0123456789+-.iN") and x < 70:
                c = rng.choice("FBUIFB" if style == "numbers" else "FBUIDW")
            elif x < 85:
                c = rng.choice("DWLGPSDWE")
            else:
                c = rng.choice("LlETDWFBUIGPS")
        if r.p and r.p % PAGE == 0 and rng.chance(1, 2):
            c = rng.choice("GP")        # a map / buffer can end exactly here
        before = r.p
        r.op(c)
        ops.append(c)
        if r.p == before and c in "FBUI" and r.p < n:
            # a parse error does not advance: step over the token so that the walk continues
            ops.append(rng.choice("DDWL"))
            r.op(ops[-1])
    ops += [rng.choice("LEDWFBUIGPS") for _ in range(rng.range(2, 6))]          # after the end
    return "".join(ops)


def window_of(minb):
    return PAGE * max(minb // PAGE + 1, 2)


def aligned_chunks(rng, data, window):
    """read() lengths whose ends fall on and next to token ends, page and window multiples"""
    cuts = set()
    p = 0
    n = len(data)
    for m in re.finditer(rb"[ \t\n\v\f\r]+", data):
        if rng.chance(1, 5):
            cuts.add(m.start() + rng.choice([-1, 0, 1]))
            cuts.add(m.end() + rng.choice([-1, 0, 1]))
    for b in range(PAGE, n, PAGE):
        if rng.chance(1, 2):
            cuts.add(b + rng.choice([-1, 0, 1]))
    cuts = sorted(c for c in cuts if 6 < c < n)
    chunks = [6]
    p = 6
    for c in cuts:
        if c > p:
            chunks.append(c - p)
            p = c
    return chunks


INTR = -1      # in a chunk list: this read() call returns -1 / EINTR


def chunk_str(chunks):
    return ",".join("i" if c == INTR else "%x" % c for c in chunks) or "-"


def with_interrupts(rng, chunks):
    """sprinkle interrupted read() calls over a list of dictated read lengths: before the very first byte, in runs, anywhere"""
    k = rng.below(5)
    if k == 0:
        return chunks
    out = list(chunks)
    if k == 1 or rng.chance(1, 2):
        out = [INTR] * rng.range(1, 3) + out                # the first read (magic detection) is interrupted
    if k >= 2:
        n = rng.choice([1, 2, 5, len(out) // 3 + 1])
        for _ in range(n):
            out.insert(rng.below(len(out) + 1), INTR)
    if k == 4 and len(out) < 40:
        out += [rng.choice([INTR, 1, 7, 4096]) for _ in range(30)]
    return out


def gen_chunks(rng, data, window):
    style = rng.below(6)
    if style == 0:
        return []
    if style == 1:
        return aligned_chunks(rng, data, window)
    if style == 2:
        return [rng.range(1, 6000) for _ in range(len(data) // 1500 + 8)]
    if style == 3:
        return [rng.choice([1, 2, 3, 5, 7, 4096, 4095, 4097, window, window - 1, 100]) for _ in range(400)]
    if style == 4:
        k = rng.choice([1, 2, 3, PAGE - 1, PAGE, PAGE + 1, window // 2, window - 6, window])
        return [6] + [k] * (len(data) // k + 2) if k > 64 else [k] * 300
    return [rng.range(1, 40) for _ in range(300)]


def compress(rng, data, kind):
    """compressed copy; sometimes several concatenated members (possibly of mixed formats, possibly empty ones)"""
    def one(b, k):
        if k == "gz":
            return gzip.compress(b, rng.choice([1, 6, 9]))
        if k == "bz2":
            return bz2.compress(b, rng.choice([1, 9]))
        return lzma.compress(b, format=lzma.FORMAT_XZ, preset=rng.choice([0, 6]))
    if rng.chance(1, 2) or not data:
        return one(data, kind)
    nm = rng.range(2, 4)
    cuts = sorted(rng.below(len(data) + 1) for _ in range(nm - 1))
    parts = [data[a:b] for a, b in zip([0] + cuts, cuts + [len(data)])]
    mixed = rng.chance(1, 3)
    return b"".join(one(p, rng.choice(["gz", "bz2", "xz"]) if mixed else kind) for p in parts)


# ---- concatenated members whose compressed sizes are chosen: the boundary between two members is put at every offset
# -7..+7 around the edges of ReadCompressed's 16384-byte input buffers (which start after the 6 magic bytes), so that the
# next member's magic is assembled from 0..7 left-over bytes plus freshly read ones, or lies wholly in the old / new buffer
KIN = 16384


def noisy_lines(rng, n, tag=b"m"):
    """exactly n bytes of newline-terminated lines that do not compress to nothing"""
    out = bytearray()
    while len(out) < n:
        out += tag + b" " + b" ".join(b"%x" % rng.below(1 << 31) for _ in range(rng.range(1, 8))) + rng.choice([b"\n", b"\n", b" -1.5\n", b"\r\n"])
    out = out[:n]
    if n:
        out[n - 1:n] = b"\n"
    return bytes(out)


def compress_one(data, kind, level):
    if kind == "gz":
        return gzip.compress(data, level, mtime=0)
    if kind == "bz2":
        return bz2.compress(data, max(1, level))
    return lzma.compress(data, format=lzma.FORMAT_XZ, preset=min(level, 6))


def sized_member(rng, kind, target, level=None):
    """(plain, compressed) with len(compressed) == target, or None when the search gives up (xz sizes are multiples of 4)"""
    if kind == "xz" and target % 4:
        return None
    if level is None:
        level = rng.choice([0, 0, 1, 6, 9]) if kind == "gz" else rng.choice([1, 9]) if kind == "bz2" else rng.choice([0, 1, 6])
    if kind == "gz" and level == 0:
        n = max(1, target - 40)                     # stored blocks: one compressed byte per input byte
        for _ in range(60):
            t = noisy_lines(rng.fork(), n)
            d = target - len(compress_one(t, kind, 0))
            if d == 0:
                return t, compress_one(t, kind, 0)
            n = max(1, n + d)
        return None
    base = noisy_lines(rng.fork(), 4 * target + 4096)
    n = 2 * target
    gran = 4 if kind == "xz" else 48 if kind == "bz2" else 3
    for _ in range(40):                             # coarse: walk the length until the size is close
        d = target - len(compress_one(base[:n - 1] + b"\n", kind, level))
        if abs(d) <= gran:
            break
        n = min(len(base), max(64, n + d * 2))
    for delta in range(0, 400):                     # fine: scan neighbouring lengths for an exact hit
        for m in (n + delta, n - delta):
            if 64 <= m <= len(base):
                c = compress_one(base[:m - 1] + b"\n", kind, level)
                if len(c) == target:
                    return base[:m - 1] + b"\n", c
    return None


def gen_boundary_streams(rng, n_gz, n_other):
    """lists of (plain, compressed) members; every boundary offset d in -7..7 is used for gzip in each run"""
    streams = []
    plan = [("gz", d) for d in range(-7, 8)][:n_gz] + [(rng.choice(["bz2", "xz"]), rng.choice(range(-7, 8))) for _ in range(n_other)]
    for kind, d in plan:
        m = rng.choice([1, 1, 2])
        target = 6 + KIN * m + d
        if kind == "xz":
            target -= target % 4
        first = sized_member(rng, kind, target)
        if first is None:
            continue
        members = [first]
        shape = rng.below(5)
        if shape == 1:                              # an empty member right at the boundary
            members.append((b"", compress_one(b"", rng.choice(["gz", "bz2", "xz"]), 6)))
        if shape == 2:                              # a second controlled boundary (grid restarts after a short left-over)
            k2 = rng.choice(["gz", kind])
            second = sized_member(rng, k2, 6 + KIN + rng.choice(range(-7, 8)) - (0 if k2 != "xz" else (6 + KIN) % 4), 0 if k2 == "gz" else None)
            if second:
                members.append(second)
        for _ in range(rng.range(1, 2 if shape != 3 else 3)):
            k = rng.choice(["gz", "bz2", "xz", kind, kind])
            p = noisy_lines(rng.fork(), rng.choice([0, 1, 200, 5000, 20000]), b"tail")
            members.append((p, compress_one(p, k, rng.choice([1, 6]))))
        streams.append(members)
    return streams


def gen_boundary_cases(rng, n_gz, n_other):
    """FP cases (compressed file / compressed pipe with dictated read lengths) and RC cases over the controlled streams"""
    fp, rc = [], []
    for members in gen_boundary_streams(rng, n_gz, n_other):
        plain = b"".join(p for p, _ in members)
        comp = b"".join(c for _, c in members)
        nl = plain.count(b"\n")
        ops = "".join(rng.choice("LLLLLLED") for _ in range(nl + 2)) + "LGP"
        backend = rng.choice(["ZM", "ZR", "ZR"])
        chunks = [rng.choice([1, 5, 6, 7, KIN - 1, KIN, KIN + 1, rng.range(1, 3 * KIN)]) for _ in range(80)] if backend == "ZR" and rng.chance(2, 3) else []
        if backend == "ZR":
            chunks = with_interrupts(rng, chunks)
        fp.append("FP %s %x %s %s %s %s" % (backend, rng.choice([1, 4096, 1 << 20]), hexs(plain), hexs(comp), chunk_str(chunks), ops))
        src = rng.choice("FR")
        rchunks = [rng.choice([1, 2, 5, 6, 7, KIN - 1, KIN, KIN + 1]) for _ in range(60)] if src == "R" and rng.chance(1, 2) else []
        if src == "R":
            rchunks = with_interrupts(rng, rchunks)
        reqs = [rng.choice([1, 3, 100, 4096, KIN, 65536, rng.range(1, 70000)]) for _ in range(rng.range(1, 8))]
        if sum(reqs) < 512 * len(reqs):
            reqs.append(rng.choice([4096, KIN, 65536]))       # keep the number of calls (and the model's run time) bounded
        h = 7
        for x in plain:
            h = (h * 257 + x + 1) % 2147483647
        rc.append(("RC %s %s %s %s %s %s" % (src, hexs(comp), chunk_str(rchunks), ",".join("%x" % c for c in reqs),
                                            ",".join(p.hex() or "-" for p, _ in members), ",".join("%x" % len(c) for _, c in members)),
                   "%x %x 0" % (len(plain), h)))
    return fp, rc


MINBUFS = [1, 4095, 4096, 4097, 1 << 20]


def hexs(b):
    return b.hex() if b else "-"


def gen_fp_cases(rng, count, big):
    cases = []
    for i in range(count):
        minb = rng.choice(MINBUFS[:4] * 3 + [MINBUFS[4]] + [rng.range(1, 30000)])
        window = window_of(minb)
        r = rng.below(100)
        if r < 8:
            size = rng.choice([0, 0, 1, 2, 5, 6, 7, rng.range(0, 64)])
        elif r < 30:
            size = rng.range(64, PAGE + 100)
        elif window > (1 << 19):
            # a 1 MB window is never left by inputs of this size (one map / one growing buffer); thorough adds a few that are
            size = window + rng.range(1, 3 * PAGE) if (big and rng.chance(1, 30)) else rng.range(PAGE, 10 * PAGE)
        elif r < 80:
            size = rng.choice([window - 3, window, window + 5, 2 * window, 2 * window + PAGE, rng.range(PAGE, 5 * min(window, 3 * PAGE))])
        else:
            size = rng.range(3 * PAGE, (40 if big else 16) * PAGE)
        data = gen_data(rng, size, window) if size else b""
        if size and size < 8:
            data = data[:size]
        ops = gen_ops(rng, data, rng.choice([40, 200, 1200 if not big else 6000]))
        backend = rng.choice(["M", "M", "M", "R", "R", "R", "R", "P", "I", "ZM", "ZR", "ZM", "MF", "MF"])
        chunks = []
        comp = b""
        if backend in ("R", "P", "ZR", "MF"):
            chunks = gen_chunks(rng, data, window)
            if backend != "P":
                chunks = with_interrupts(rng, chunks)
        if backend[0] == "Z":
            comp = compress(rng, data, rng.choice(["gz", "bz2", "xz"]))
        cases.append("FP %s %x %s %s %s %s" % (backend, minb, hexs(data), hexs(comp), chunk_str(chunks), ops or "-"))
    return cases


def gen_final_number_cases(rng, count):
    """the input ends with an integer and nothing after it, all earlier tokens are digits too (so that whatever lies behind the
    valid bytes of a recycled read buffer looks like more digits), read with ReadULong / ReadLong up to the very end; regular
    files of exactly N pages (nothing mapped behind the last byte) and read backends whose buffer was filled and compacted"""
    cases = []
    for _ in range(count):
        backend = rng.choice(["M", "M", "R", "R", "R", "MF", "I", "ZR"])
        minb = rng.choice([1, 4096, 4097])
        window = window_of(minb)
        if backend == "M":
            size = PAGE * rng.choice([1, 2, 2, 3, 4])
        else:
            size = rng.choice([window + rng.range(1, 3 * PAGE), 2 * window + rng.range(0, PAGE), rng.range(50, PAGE)])
        toks = []
        n = 0
        while n < size - 12:
            tk = b"%d" % rng.below(10 ** rng.range(1, 17))
            toks.append(tk)
            n += len(tk) + 1
        last = rng.choice([b"42", b"7", b"%d" % rng.below(10 ** 9)])
        body = b" ".join(toks) + b" "
        pad = size - len(body) - len(last)
        if pad > 0:
            body = b"1" * (pad - 1) + b" " + body if pad > 1 else b" " + body
        data = body + last
        ops = "".join(rng.choice("UUIUD") for _ in range(len(data.split()) - 1)) + rng.choice("UI") + "".join(rng.choice("UIDGSL") for _ in range(4))
        chunks = []
        comp = b""
        if backend in ("R", "MF", "ZR"):
            chunks = with_interrupts(rng, gen_chunks(rng, data, window)) if rng.chance(2, 3) else []
        if backend == "ZR":
            comp = compress(rng, data, rng.choice(["gz", "bz2", "xz"]))
        cases.append("FP %s %x %s %s %s %s" % (backend, minb, hexs(data), hexs(comp), chunk_str(chunks), ops))
    return cases


def gen_at_offset_cases(rng, count):
    """FilePiece(fd) on a regular file whose descriptor sits at an offset behind a header the caller consumed: offsets around
    page multiples and arbitrary ones, plain and compressed (also multi-member) content, a header that itself begins with the
    gzip magic (MOZ).  The oracle is the usual one on the content from that offset; offsets are relative to it."""
    cases = []
    for _ in range(count):
        off = rng.choice([1, 2, 5, 6, 7, PAGE - 1, PAGE, PAGE + 1, 5000, 2 * PAGE, 2 * PAGE + 7, 3 * PAGE - 1, rng.range(1, 20000)])
        minb = rng.choice([1, 1, 4096, 1 << 20])
        size = rng.choice([0, 3, 200, PAGE - off % PAGE, 2 * PAGE, rng.range(1, 6 * PAGE)])
        data = gen_data(rng, size, window_of(minb)) if size else b""
        comp = b""
        if rng.chance(1, 2):
            comp = compress(rng, data, rng.choice(["gz", "bz2", "xz"]))
        elif data[:2] == b"\x1f\x8b" or data[:3] == b"BZh":
            data = b"x" + data
        ops = gen_ops(rng, data, rng.choice([40, 300]))
        cases.append("FP %s %x %s %s %x %s" % (rng.choice(["MO", "MO", "MOZ"]), minb, hexs(data), hexs(comp), off, ops or "-"))
    return cases


def gen_rc_cases(rng, count, big):
    cases = []
    for i in range(count):
        sizes = rng.choice([[0], [1], [5, 70000, 1], [16384, 16384], [40000, 0, 40000], [300000 if big else 90000], [rng.range(0, 50000) for _ in range(rng.range(1, 4))]])
        plains = [bytes(rng.below(256) if rng.chance(1, 8) else 97 + rng.below(4) for _ in range(s)) for s in sizes]
        kinds = [rng.choice(["gz", "bz2", "xz"]) for _ in sizes]
        if rng.chance(1, 2):
            kinds = [kinds[0]] * len(sizes)
        comps = [gzip.compress(p) if k == "gz" else bz2.compress(p) if k == "bz2" else lzma.compress(p, format=lzma.FORMAT_XZ) for p, k in zip(plains, kinds)]
        comp = b"".join(comps)
        src = rng.choice("FR")
        chunks = [rng.choice([1, 2, 6, 100, 16383, 16384, 16385, rng.range(1, 40000)]) for _ in range(60)] if src == "R" and rng.chance(3, 4) else []
        if src == "R":
            chunks = with_interrupts(rng, chunks)
        reqs = [rng.choice([1, 2, 3, 100, 4096, 16384, 65536, rng.range(1, 70000)]) for _ in range(rng.range(1, 12))]
        plain = b"".join(plains)
        if len(plain) > 20000 and sum(reqs) < 512 * len(reqs):
            reqs.append(rng.choice([4096, 16384, 65536]))     # bound the number of calls on big inputs (the model is quadratic in it)
        h = 7
        for x in plain:
            h = (h * 257 + x + 1) % 2147483647
        cases.append(("RC %s %s %s %s %s %s" % (src, hexs(comp), chunk_str(chunks), ",".join("%x" % c for c in reqs),
                                                ",".join(p.hex() or "-" for p in plains), ",".join("%x" % len(c) for c in comps)),
                      "%x %x 0" % (len(plain), h)))
    return cases


def gen_li_cases(rng, count):
    """util::stream::LineInput: (input, block size, read split) alignments; every line is shorter than a block.  Some inputs are
    laid out so that a block ends exactly on a newline right after a block that ended in the middle of a line."""
    cases = []
    for _ in range(count):
        bs = rng.choice([16, 24, 32, 33, 64, 64, 100, 257, 1024, 4096])
        nblocks = rng.choice([0, 1, 2, 3, 5, 9, rng.range(2, 40)]) if bs <= 1024 else rng.range(1, 6)
        out = bytearray()
        style = rng.below(4)
        while len(out) < nblocks * bs:
            if style == 0:
                ln = rng.range(1, bs - 1)
            elif style == 1:
                ln = rng.choice([1, 2, bs - 1, bs - 2, bs // 2, bs // 2 + 1, rng.range(1, bs - 1)])
            elif style == 2:
                ln = rng.range(1, max(2, bs // 4))
            else:
                # simulate the reader: make this line end exactly where the current block ends, when it fits
                ln = rng.range(1, bs - 1)
                carry = len(out) - (out.rfind(b"\n") + 1) if b"\n" in out else len(out)
                room = bs - (len(out) % bs)
                if rng.chance(1, 2) and 1 <= room < bs and carry < bs:
                    ln = room
            out += bytes(rng.choice(b"abcxyz 0123\r") for _ in range(ln - 1)) + b"\n"
        data = bytes(out)
        if data and rng.chance(1, 4):
            data = data[:-1]                        # no final newline: the last block is a partial line
        src = rng.choice("FRR")
        chunks = [rng.choice([1, 2, 5, 6, 7, bs - 1, bs, bs + 1, rng.range(1, 3 * bs)]) for _ in range(100)] if src == "R" and rng.chance(3, 4) else []
        if src == "R":
            chunks = with_interrupts(rng, chunks)
        comp = b""
        if rng.chance(1, 4):
            comp = compress(rng, data, rng.choice(["gz", "bz2", "xz"]))
        cases.append("LI %s %x %s %s %s" % (src, bs, hexs(data), hexs(comp), chunk_str(chunks)))
    return cases


def judge_li(case, out):
    """the blocks put back together are the input's bytes; every block that is followed by more data ends with a newline"""
    f = case.split()
    data = bytes.fromhex(f[3]) if f[3] != "-" else b""
    o = out.split()
    if len(o) != 3:
        return "unexpected answer %r" % out[:200]
    sizes = [int(x, 16) for x in o[0].split(",")] if o[0] != "-" else []
    h = 7
    for x in data:
        h = (h * 257 + x + 1) % 2147483647
    if int(o[1], 16) != len(data) or int(o[2], 16) != h or sum(sizes) != len(data):
        return "the blocks add up to %d bytes (hash %s), the input has %d bytes (hash %x): bytes were lost, repeated or changed" % (int(o[1], 16), o[2], len(data), h)
    at = 0
    for k, s in enumerate(sizes):
        at += s
        if at < len(data) and s and data[at - 1] != 10:
            return "block #%d (of %d bytes) ends in the middle of a line" % (k, s)
    return None


def gen_tk_cases(rng, count):
    """TokenIter over in-memory strings; expected tokens computed from the property text (split / words)"""
    cases = []
    for _ in range(count):
        n = rng.choice([0, 1, 2, 5, rng.range(0, 60), rng.range(0, 400)])
        alphabet = rng.choice([b" ab", b" \t\nxy", b"a \t", b"  \x00z", bytes(range(256))])
        data = bytes(rng.choice(alphabet) for _ in range(n))
        mode = rng.choice("BSA")
        if mode == "B":
            toks = re.split(rb"[ \t\n\v\f\r]+", data)
            toks = [x for x in toks if x]
        elif mode == "S":
            toks = data.split(b" ")
        else:
            toks = [x for x in re.split(rb"[ \t]+", data) if x]
        cases.append(("TK %s %s" % (mode, hexs(data)), "|".join(fmt_bytes(x) for x in toks) if toks else "none"))
    return cases


# ---------------------------------------------------------------------------------------------
def corpus_cases():
    p = os.path.join(vlib.ROOT, "corpus", "C18", "cases.txt")
    return [l.rstrip("\n") for l in open(p) if l.strip() and not l.startswith("#")] if os.path.exists(p) else []


def run_parallel(exe, cases, env=None, prefix=(), jobs=8, timeout=900):
    """run a line driver over the cases in `jobs` processes (order preserved)"""
    if not cases:
        return []
    jobs = max(1, min(jobs, len(cases)))
    parts = [cases[i::jobs] for i in range(jobs)]
    with concurrent.futures.ThreadPoolExecutor(jobs) as ex:
        outs = list(ex.map(lambda p: vlib.run_lines(exe, p, timeout=timeout, env=env, prefix=prefix), parts))
    res = [None] * len(cases)
    for j, o in enumerate(outs):
        res[j::jobs] = o
    return res


MODEL_PREFIX = ("bash", "-c", 'ulimit -s unlimited; exec "$0"')
MODEL_ENV = {"OCAMLRUNPARAM": "s=8M"}


def fp_fields(case):
    f = case.split()
    data = bytes.fromhex(f[3]) if f[3] != "-" else b""
    ops = f[6] if len(f) > 6 and f[6] != "-" else ""
    return f[1], data, ops


def judge_fp(case, impl_line):
    """specification oracle on one implementation transcript; returns None or (op index, message)"""
    backend, data, ops = fp_fields(case)
    spec = oracle_tokens(data, ops)
    got = impl_line.split()
    for k, s in enumerate(spec):
        if k >= len(got):
            return (k, "transcript ends after %d of %d calls (%s)" % (len(got), len(spec), impl_line[-120:]))
        if not agree(s, got[k], ops[k]):
            return (k, "call #%d %s: implementation answered %s, the input demands %s" % (k, ops[k], got[k], s))
    return None


def signature_of(case, k, msg, spec_tok, impl_tok):
    """failing call site / input class: backend class + what went wrong (+ the call for value errors)"""
    backend, data, ops = fp_fields(case)
    s, so = spec_tok.rsplit("@", 1)
    i, io = impl_tok.rsplit("@", 1) if "@" in impl_tok else (impl_tok, "?")
    mode = "mmap" if backend == "M" else "mmap-fails" if backend in ("MF", "PF") else "fd-at-offset" if backend in ("MO", "MOZ") else "read"
    if i.startswith("EXC:") or i.startswith("CTOR-EXC:"):
        return "%s:exception" % ("compressed" if backend[0] == "Z" else mode)
    if backend in ("MO", "MOZ") and case.split()[4] != "-":
        mode = "fd-at-offset:compressed"
    if s == "NAN" or is_nan_tok(i):
        return "number:nan"
    if s == i or s == "END":
        return "%s:offset" % mode
    if i == "EOF":
        return "%s:spurious-eof" % mode
    if s == "EOF":
        return "%s:data-after-end" % mode
    return "%s:%s:value" % (mode, ops[k])


def run(ctx):
    import time
    T = [time.time()]

    def lap(what):
        T.append(time.time())
        ctx.coverage.setdefault("phase_s", {})[what] = round(T[-1] - T[-2], 1)
    regenerate()
    pres = vlib.coq_prove("C18")
    lap("proof")
    ctx.set_proof(pres)
    big = not ctx.quick
    rng = ctx.rng
    os.environ["C18_SCRATCH"] = ctx.scratch
    corpus = corpus_cases()
    ctx.count("corpus_cases", len(corpus))
    fp_cases = [c for c in corpus if c.startswith("FP ")] + gen_fp_cases(rng, ctx.pick(200, 1500), big)
    for name in ("/proc/version", "/proc/filesystems", "/proc/sys/kernel/ostype"):
        # procfs: size 0, mmap fails, read() works -- the first-window fallback without any fault injection
        try:
            content = open(name, "rb").read()
        except OSError:
            continue
        if content and content == open(name, "rb").read():
            for ops in ("L" * (content.count(b"\n") + 2) + "G", "DW" * (len(content.split()) + 1) + "LG"):
                fp_cases.append("FP PF %x %s - - %s %s" % (rng.choice([1, 4096, 1 << 20]), hexs(content), ops, name))
    fp_cases += gen_final_number_cases(rng.fork(), ctx.pick(16, 120))
    fp_cases += gen_at_offset_cases(rng.fork(), ctx.pick(30, 300))
    rc = gen_rc_cases(rng, ctx.pick(40, 400), big)
    bfp, brc = gen_boundary_cases(rng, 15, ctx.pick(4, 30))
    if big:
        for _ in range(4):
            f2, r2 = gen_boundary_cases(rng, 15, 0)
            bfp += f2
            brc += r2
    fp_cases += bfp
    rc += brc
    ctx.coverage["member_boundary_streams"] = len(bfp)
    lap("generate")
    impl = vlib.compile_driver("c18_driver", DRIVER_SRC, libs=("kenlm_util",))
    lap("build")
    iout = run_parallel(impl, fp_cases, jobs=8)
    lap("impl")
    # --- specification oracle on the implementation
    spec_fail = []
    nontrivial = set()
    dist = {"backend": {}, "min_buffer": {}, "ops": 0, "bytes": 0, "shifted_cases": 0}
    for c, o in zip(fp_cases, iout):
        backend, data, ops = fp_fields(c)
        minb = int(c.split()[2], 16)
        dist["backend"][backend] = dist["backend"].get(backend, 0) + 1
        dist["min_buffer"][str(minb)] = dist["min_buffer"].get(str(minb), 0) + 1
        dist["ops"] += len(ops)
        dist["bytes"] += len(data)
        if len(data) > window_of(minb):
            dist["shifted_cases"] += 1
            nontrivial.add(c)
        bad = judge_fp(c, o)
        if bad:
            k, msg = bad
            spec = oracle_tokens(data, ops)
            got = o.split()
            sig = signature_of(c, k, msg, spec[k], got[k]) if k < len(got) else "%s:crash" % ("mmap" if backend == "M" else "read")
            spec_fail.append((sig, c, o, msg, k))
    lap("oracle")
    # ReadCompressed::Read with random request sizes: plaintext reproduced, 0 for ever after the end
    rc_out = run_parallel(impl, [c for c, _ in rc], jobs=4)
    rc_fail = [(c, o, e) for (c, e), o in zip(rc, rc_out) if o != e]
    li = gen_li_cases(rng, ctx.pick(300, 4000))
    li_out = vlib.run_lines(impl, li)
    li_fail = [(c, o, judge_li(c, o)) for c, o in zip(li, li_out) if judge_li(c, o)]
    tk = gen_tk_cases(rng, ctx.pick(400, 4000))
    tk_out = vlib.run_lines(impl, [c for c, _ in tk])
    tk_fail = [(c, o, e) for (c, e), o in zip(tk, tk_out) if o != e]
    lap("read_compressed")
    # --- correspondence with the extracted model (model of the repaired code)
    mismatches = []
    model_broken = None
    try:
        model = vlib.ocaml_model("C18")
        mout = run_parallel(model, fp_cases, env=MODEL_ENV, prefix=MODEL_PREFIX, jobs=12)
        for c, a, b in zip(fp_cases, iout, mout):
            backend, data, ops = fp_fields(c)
            mt = model_to_impl_tokens(b, ops)
            it = a.split()
            if backend not in ("M", "R", "MF", "PF") and not (backend in ("MO", "MOZ") and c.split()[4] == "-"):
                # the read() sizes of these backends are the kernel's / the decompressor's: by C18_window_refines_spec only the
                # *kind* of failure on an exhausted input may depend on them (when at_end_ is discovered); values never do
                st = oracle_tokens(data, ops)
                mt = [y if (x != y and s.startswith("END@") and agree(s, x, o) and agree(s, y, o)) else x for x, y, s, o in zip(mt, it, st, ops)] + mt[len(it):]
            if len(mt) != len(it) or not all(tokens_equal(x, y) for x, y in zip(mt, it)):
                k = next((j for j, (x, y) in enumerate(zip(mt, it)) if not tokens_equal(x, y)), min(len(mt), len(it)))
                mismatches.append((c, a, b, k))
        li_model = run_parallel(model, li, env=MODEL_ENV, prefix=MODEL_PREFIX, jobs=8)
        li_mismatch = [(c, o, m) for c, o, m in zip(li, li_out, li_model) if o != m]
        ctx.coverage["line_input_model_mismatches"] = len(li_mismatch)
        if li_mismatch:
            mismatches.append((li_mismatch[0][0], li_mismatch[0][1], li_mismatch[0][2], 0))
        tk_model = vlib.run_lines(model, [c for c, _ in tk], env=MODEL_ENV, prefix=MODEL_PREFIX)
        tk_mismatch = [(c, o, m) for (c, _), o, m in zip(tk, tk_out, tk_model) if o != m]
        ctx.coverage["tokeniter_model_mismatches"] = len(tk_mismatch)
        if tk_mismatch:
            mismatches.append((tk_mismatch[0][0], tk_mismatch[0][1], tk_mismatch[0][2], 0))
        rc_model = run_parallel(model, [c for c, _ in rc], env=MODEL_ENV, prefix=MODEL_PREFIX, jobs=12)
        rc_mismatch = [(c, o, m) for (c, _), o, m in zip(rc, rc_out, rc_model) if o != m]
        ctx.coverage["read_compressed_model_mismatches"] = len(rc_mismatch)
        if rc_mismatch:
            mismatches.append((rc_mismatch[0][0][:2000], rc_mismatch[0][1], rc_mismatch[0][2], 0))
        sout = run_parallel(model, fp_cases[:ctx.pick(120, 600)], env=dict(MODEL_ENV, C18_VARIANT="spec"), prefix=MODEL_PREFIX, jobs=12)
        spec_vs_oracle = 0
        for c, b in zip(fp_cases, sout):
            backend, data, ops = fp_fields(c)
            if not all(agree(s, m, o) for s, m, o in zip(oracle_tokens(data, ops), model_to_impl_tokens(b, ops), ops)):
                spec_vs_oracle += 1
        ctx.coverage["coq_spec_vs_python_oracle_disagreements"] = spec_vs_oracle
        if spec_vs_oracle:
            mismatches.append((fp_cases[0], "", "", 0))
    except vlib.ModelBroken as e:
        model_broken = str(e)
    lap("model")
    ctx.count("evaluations", len(fp_cases) + len(rc) + len(tk) + len(li))
    ctx.coverage["distinct_nontrivial"] = len(nontrivial)
    ctx.coverage["rule"] = ("case = (input bytes, backend, min_buffer, read() length list, operation string); inputs are laid out so that token, "
                            "line and number ends fall on and next to multiples of 4096 and of the window size, with very long tokens/lines, "
                            "NUL/CR bytes, missing final newline and empty input; operations are chosen while walking the specification over the "
                            "input, followed by calls after the end.  Non-trivial: the input is longer than the initial window "
                            "(4096*max(min_buffer/4096+1,2)), so that at least one Shift with live data happens.  Distinct = distinct case line.")
    ctx.coverage["input_distribution"] = dist
    ctx.coverage["traces_validated_against_impl"] = len(fp_cases) - len(mismatches)
    ctx.coverage["read_compressed_cases"] = len(rc)
    for c, o in list(zip(fp_cases, iout))[:2] + [(c, o) for c, o in zip(fp_cases, iout) if c.split()[1] == "R" and len(c) < 3000][:2]:
        ctx.sample({"case": c[:300] + ("..." if len(c) > 300 else ""), "impl": o[:300]})
    ctx.assumptions += ["x86-64 Linux, page size 4096", "zlib / bzip2 / liblzma and double-conversion's StringToDouble / libc strtol are oracles: "
                        "the model returns the characters consumed, their value is compared with libc strtof/strtod",
                        "read() lengths are dictated in-process (the driver defines read()); the P backend uses a real pipe",
                        "extraction (ExtrOcamlBasic only) and the OCaml/C++ drivers are trusted"]
    # decide
    seen = set()
    for sig, c, o, msg, k in spec_fail:
        if sig in seen:
            continue
        seen.add(sig)
        ctx.report("spec:" + sig, msg, {"case": c, "impl_output": o, "failing_call": k,
                                        "how": "./check C18 --replay <this file>  (feeds the case to harness/drivers/c18_driver.cc and judges it with the whole-string oracle)"})
    for c, o, e in rc_fail[:3]:
        ctx.report("spec:read_compressed", "ReadCompressed::Read did not reproduce the plaintext (got '%s', expected '%s')" % (o, e), {"case": c, "impl_output": o, "expected": e})
    for c, o, e in tk_fail[:3]:
        ctx.report("spec:tokeniter:" + c.split()[1], "util::TokenIter returned %s, the string splits into %s" % (o[:200], e[:200]), {"case": c, "impl_output": o, "expected": e})
    for c, o, msg in li_fail[:3]:
        ctx.report("spec:line_input", "util::stream::LineInput: " + msg, {"case": c, "impl_output": o})
    if not spec_fail and not rc_fail and not tk_fail and not li_fail:
        if mismatches:
            c, a, b, k = mismatches[0]
            ctx.report("correspondence:filepiece", "model and implementation disagree (the specification oracle accepts the implementation's answer)",
                       {"correspondence": "C18 extracted model vs c18_driver", "case": c, "impl": a, "model": b, "first_differing_call": k,
                        "n_mismatches": len(mismatches)}, found=False)
        elif model_broken:
            ctx.report("model-broken", "executable model no longer builds", {"log": model_broken[-2000:]}, found=False)
        ctx.report_proof(pres)
    ctx.coverage["spec_oracle_failures"] = len(spec_fail) + len(rc_fail) + len(tk_fail) + len(li_fail)
    ctx.coverage["line_input_cases"] = len(li)
    ctx.coverage["tokeniter_cases"] = len(tk)
    ctx.coverage["correspondence_mismatches"] = len(mismatches)


def replay(ctx, obj):
    os.environ["C18_SCRATCH"] = ctx.scratch
    impl = vlib.compile_driver("c18_driver", DRIVER_SRC, libs=("kenlm_util",))
    c = obj["replay"]["case"]
    o = vlib.run_lines(impl, [c])[0]
    if c.startswith("LI "):
        msg = judge_li(c, o)
        print("case:", c[:200], "\nimpl:", o[:300], "\noracle:", msg or "ok")
        return 1 if msg else 0
    if c.startswith("RC ") or c.startswith("TK "):
        print("case:", c[:200], "\nimpl:", o, "\nexpected:", obj["replay"].get("expected"))
        return 0 if o == obj["replay"].get("expected") else 1
    bad = judge_fp(c, o)
    backend, data, ops = fp_fields(c)
    print("backend %s, %d input bytes, %d calls" % (backend, len(data), len(ops)))
    print("impl:", o[:600])
    print("oracle:", bad[1] if bad else "ok")
    return 1 if bad else 0
