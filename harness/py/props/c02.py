"""C02 -- returned state is sufficient, canonical and safe for recombination."""
import os
import shutil

import vlib
import lmcommon as lc
from props import c01

DRV = os.path.join(vlib.ROOT, "harness", "drivers", "lmq.cc")


def recombination_oracle(m, typ, queries, lines):
    """equal incoming states (same words) must carry identical back-offs and give identical results"""
    seen = {}
    problems = []
    for (bos, ws), line in zip(queries, lines):
        items = lc.parse_line(line, True)
        st = None
        for i, w in enumerate(ws):
            it = items[i]
            if st is not None:
                key = (st[0], w)
                val = (st[1], it["fs"], it["st"])
                if key in seen and seen[key][0] != val:
                    problems.append(("spec:recombination:" + typ,
                                     "two equal states (words %r) followed by word %d give different results: %r vs %r" % (list(st[0]), w, seen[key][0], val),
                                     {"first": seen[key][1], "second": {"bos": bos, "words": ws, "position": i}}))
                else:
                    seen[key] = (val, {"bos": bos, "words": ws, "position": i})
            st = it["st"]
            # state size bounds
            prev_len = len(items[i - 1]["st"][0]) if i else (1 if bos else 0)
            if len(it["st"][0]) > m.order - 1 or len(it["st"][0]) > prev_len + 1:
                problems.append(("spec:state-bounds:" + typ, "state of %d words after a state of %d (order %d)" % (len(it["st"][0]), prev_len, m.order),
                                 {"bos": bos, "words": ws, "position": i}))
            # sufficiency against the explicit history, and the directly computed state
            if typ not in ("qtrie", "qatrie"):
                if it["fs"][0] != it["ff"][0]:
                    problems.append(("spec:state-sufficient:" + typ, "FullScore from the state gives %s/64, FullScoreForgotState with the whole history %s/64" % (it["fs"][0], it["ff"][0]),
                                     {"bos": bos, "words": ws, "position": i}))
            if m.suffix_closed():
                if it["fs"][1] != it["ff"][1] or it["st"] != it["fst"] or it["st"] != it["gs"]:
                    problems.append(("spec:state-canonical:" + typ, "matched length / next state differ between FullScore, FullScoreForgotState and GetState: %r %r %r" % (it["st"], it["fst"], it["gs"]),
                                     {"bos": bos, "words": ws, "position": i}))
    return problems


def compare_ops(ctx, lmq, model_exe, sess, m, stats):
    """State / Left comparison, ordering and hashing: implementation vs model, plus the consistency oracle"""
    rng = ctx.rng
    lines = []
    if ctx.replaying and "case" in ctx.replay_obj:
        lines.append(ctx.replay_obj["case"])
    pool = [0, 1, 2, 255, 256, 257, 0xffff, 0x10000, 0xff000000, 0x00ffffff, 0xffffffff, 0x01000000, 0x7fffffff, 0x80000000]
    for _ in range(ctx.pick(300, 3000)):
        la, lb = rng.range(0, 5), rng.range(0, 5)
        a = [rng.choice(pool) if rng.chance(2, 3) else rng.below(1 << 32) for _ in range(la)]
        if rng.chance(1, 2):
            b = list(a)
            if b and rng.chance(1, 2):
                i = rng.below(len(b))
                b[i] = (b[i] ^ (1 << rng.below(32)))          # differ in exactly one bit of one word
            elif rng.chance(1, 3):
                b = b[:-1] if b else [rng.choice(pool)]
        else:
            b = [rng.choice(pool) if rng.chance(2, 3) else rng.below(1 << 32) for _ in range(lb)]
        lines.append("K %s ; %s" % (" ".join("%x" % x for x in a), " ".join("%x" % x for x in b)))
    for _ in range(ctx.pick(150, 1500)):
        l1, l2 = rng.range(0, 5), rng.range(0, 5)
        p1 = rng.choice([0, 1, (1 << 64) - 1, 1 << 63, rng.below(1 << 64)])
        p2 = p1 if rng.chance(1, 2) else rng.choice([0, 1, (1 << 64) - 1, 1 << 63, rng.below(1 << 64)])
        if rng.chance(1, 2):
            l2 = l1
        lines.append("L %d %x %d %d %x %d" % (l1, p1, rng.below(2), l2, p2, rng.below(2)))
    # the comparison operators do not depend on the model: any structure that accepts this file will do
    iout = []
    for typ in ("probing", "trie"):
        rc, out, err = vlib.sh([lmq, sess.arpa, typ, sess.vocab, "tmp=" + sess.dir + "/"], input=("\n".join(lines) + "\n").encode(), timeout=120)
        if out.startswith("loaded"):
            iout = out.split("\n")[1:1 + len(lines)]
            break
    if not iout:
        stats["compare_skipped_model_not_accepted"] = stats.get("compare_skipped_model_not_accepted", 0) + 1
        return []
    setup = m.session_lines()
    mout = vlib.run_lines(model_exe, setup + lines)[len(setup):]
    problems = []
    stats["compare_cases"] = stats.get("compare_cases", 0) + len(lines)
    for l, a, b in zip(lines, iout, mout):
        f = a.split()
        if len(f) != 4:
            problems.append(("crash:compare", "no answer for %s" % l, {"case": l}, True))
            continue
        eq, sign, lt, heq = f
        # consistency oracle from the property text
        if (eq == "1") != (sign == "0") or (lt == "1") != (sign == "-") or (eq == "1" and heq != "1"):
            problems.append(("spec:compare-consistency", "==:%s Compare:%s <:%s hash-equal:%s are inconsistent for %s" % (eq, sign, lt, heq, l), {"case": l}, True))
        if " ".join(f[:3]) != b.strip():
            problems.append(("correspondence:compare", "implementation %s, model %s for %s" % (" ".join(f[:3]), b, l), {"case": l}, False))
    # symmetry: exactly one of a<b, a==b, b<a
    return problems


def strip_empty(toks):
    """remove empty non-terminals `( )` / `( ^ )` from a derivation"""
    out, i = [], 0
    while i < len(toks):
        if toks[i] == "(" and i + 1 < len(toks) and toks[i + 1] == ")":
            i += 2
        elif toks[i] == "(" and i + 2 < len(toks) and toks[i + 1] == "^" and toks[i + 2] == ")":
            i += 3
        else:
            out.append(toks[i])
            i += 1
    return out


def epsilon_rule_stream(ctx, lmq, sess, m, qs, stats, base):
    """chart states are canonical with respect to empty non-terminals: a derivation with epsilon rules inserted anywhere yields the
    same ChartState (score, left state, right state) as the derivation without them -- in every structure (fourth-round change C02-12)"""
    from props import c08
    rng = ctx.rng
    pairs = []
    for _, s in qs[:ctx.pick(12, 60)]:
        s = s[:8]
        if not s:
            continue
        for _ in range(3):
            bos = rng.chance(1, 2)
            t = c08.gen_tree(rng, s, outer=True, bos=bos)
            t0 = strip_empty(t)
            if t0 == t:
                # insert one after a random item boundary of the outer rule
                k = rng.range(2 if bos else 1, len(t) - 1)
                depth, cut = 0, None
                for i, tok in enumerate(t):
                    if tok == "(":
                        depth += 1
                    elif tok == ")":
                        depth -= 1
                    if i >= k and depth == 1 and tok not in ("B", "^"):
                        cut = i + 1
                        break
                if cut is None or cut >= len(t):
                    continue
                t = t[:cut] + ["(", ")"] + t[cut:]
            pairs.append((s, bos, t, t0))
    if not pairs:
        return []
    problems = []
    lines = []
    for _, _, t, t0 in pairs:
        lines += ["C " + " ".join(t), "C " + " ".join(t0)]
    for typ in ("probing", "trie", "rest"):
        cmd = [lmq, sess.arpa, typ, sess.vocab, "tmp=" + sess.dir + "/"]
        rc, out, err = vlib.sh(cmd, input=("\n".join(lines) + "\n").encode(), timeout=40)
        res = out.split("\n")
        if not res or not res[0].startswith("loaded"):
            continue
        body = [x for x in res[1:1 + len(lines)] if x != ""]
        if rc != 0 and len(body) < len(lines):
            # the scorer died or did not come back on the first derivation without an answer
            i = len(body) // 2
            s_, bos_, t_, t0_ = pairs[min(i, len(pairs) - 1)]
            problems.append(("crash:epsilon-rule:" + typ, "chart scoring of a derivation %s (rc=%d) -- neither a score nor an exception"
                             % ("did not terminate within 40 s" if rc == 124 else "killed the process", rc),
                             dict(base, type=typ, sentence=s_, bos=bos_, tree=" ".join(t_ if len(body) % 2 == 0 else t0_)), True))
            break
        stats["impl_runs"] = stats.get("impl_runs", 0) + 1
        stats["epsilon_pairs"] = stats.get("epsilon_pairs", 0) + len(pairs)
        for i, (s, bos, t, t0) in enumerate(pairs):
            if 2 * i + 1 < len(body) and body[2 * i] != body[2 * i + 1]:
                problems.append(("spec:epsilon-rule:" + typ, "a derivation with an empty non-terminal gives chart state %s, without it %s" % (body[2 * i][:120], body[2 * i + 1][:120]),
                                 dict(base, type=typ, sentence=s, bos=bos, tree=" ".join(t), tree_without=" ".join(t0)), True))
                break
    return problems


def run(ctx):
    pres = vlib.coq_prove("C02")
    ctx.set_proof(pres)
    lmq = vlib.compile_driver("lmq", DRV)
    model_exe = vlib.ocaml_model("C01")
    rng = ctx.rng
    stats = {}
    allprob = []
    nmodels = 1 if (ctx.replay_model or ctx.replaying) else ctx.pick(30, 1000)
    nontrivial = 0
    if not (ctx.replay_model or ctx.replaying):
        # a model whose highest order is sorted in several batches by the trie builder (minimum sort buffer)
        dm = lc.gen_dense_model(rng)
        dsess = lc.Session(ctx, dm, "dense")
        dqs = lc.gen_queries(rng, dm, ctx.pick(150, 1500))
        dbase = {"arpa": dm.arpa_bytes().decode("latin-1"), "vocab": dm.vocab_bytes().decode("latin-1"), "generator": "lmcommon.gen_dense_model", "queries": dqs[:20]}
        for typ, opts in (("probing", []), ("trie", ["building_memory=1048576"]), ("atrie", ["building_memory=1048576"]), ("trie", [])):
            r = dsess.run_impl(lmq, typ, dqs, opts=opts, timeout=600)
            if not r["head"].startswith("loaded") or len(r["lines"]) != len(dqs):
                allprob.append(("crash:dense:" + typ, "the dense multi-batch model does not load / answer: %s %s" % (r["head"][:100], r["err"][-200:]), dict(dbase, type=typ, opts=opts), True))
                continue
            stats["impl_runs"] = stats.get("impl_runs", 0) + 1
            stats["dense_model_runs"] = stats.get("dense_model_runs", 0) + 1
            for sig, what, rq in recombination_oracle(dm, typ, dqs, r["lines"]):
                allprob.append((sig + ":multi-batch", what, dict(dbase, type=typ, opts=opts, **rq), True))
        shutil.rmtree(dsess.dir, ignore_errors=True)
    for mi in range(nmodels):
        # every 8th model has one context with hundreds of left extensions (a child range spanning several blocks of ArrayBhiksha's
        # offset table) and 4-grams reached through small nodes: a state that lost "x a b" cannot reach "x a b d" (seeded change C02-15)
        hub = (mi % 8 == 5) and not ctx.replay_model
        m = ctx.replay_model or lc.gen_model(rng, max_order=ctx.pick(5, 6), max_vocab=ctx.pick(6, 20), hub=hub)
        if mi % 5 == 4 and not ctx.replay_model and not hub:
            # a file whose n-gram `a b c` is listed while its context `a b` is not: every loader must refuse it (a model that loads anyway has
            # a state after `a b` that cannot reach `a b c`: seventh-round seeded change C02-20 made the hashed builder tolerate it)
            ctxs = sorted(k[1:] for k in m.grams if len(k) >= 3 and k[1:] in m.grams)
            if ctxs:
                c = rng.choice(ctxs)
                del m.grams[c]
                m.file_order[len(c)].remove(c)
                stats["missing_context_models"] = stats.get("missing_context_models", 0) + 1
        sess = lc.Session(ctx, m, "m%d" % mi)
        # many short histories over a small vocabulary: plenty of colliding states
        qs = lc.gen_queries(rng, m, ctx.pick(60, 200))
        if mi % 5 == 2 and m.sents:
            # histories of more than 255 words (the whole-history entry point takes any length; a length kept in a byte wraps: C02-21)
            for _ in range(2):
                s = []
                while len(s) < 258 + rng.below(40):
                    s += list(rng.choice(m.sents))[1:]
                qs.append((rng.below(2), s))
            stats["long_history_queries"] = stats.get("long_history_queries", 0) + 2
        if hub:
            top = [k for k in sorted(m.grams) if len(k) == m.order]
            rng.shuffle(top)
            qs += [(rng.below(2), list(reversed(k))) for k in top[:ctx.pick(150, 600)]]
            stats["hub_models"] = stats.get("hub_models", 0) + 1
        base = {"arpa": m.arpa_bytes().decode("latin-1"), "vocab": m.vocab_bytes().decode("latin-1")}
        for typ in lc.TYPES:
            # quantised tries also with few bits (lossy bins): a state that keeps too little context still gives the same sums while every
            # value is exact, and a different one as soon as the bins are lossy (sixth-round seeded changes C02-17, C02-18); the oracles are
            # internal to one model, so the loss itself does not matter.  backoff_bits >= 2: one bit is finding F6 of C03.
            for qo in ([[]] + ([["probbits=%d" % rng.range(2, 5), "backoffbits=%d" % rng.range(2, 5)]] if typ in ("qtrie", "qatrie") else [])):
                r = sess.run_impl(lmq, typ, qs, opts=qo)
                if not r["head"].startswith("loaded") or len(r["lines"]) != len(qs):
                    stats["not_accepted"] = stats.get("not_accepted", 0) + 1
                    continue
                stats["impl_runs"] = stats.get("impl_runs", 0) + 1
                if qo:
                    stats["lossy_quantised_runs"] = stats.get("lossy_quantised_runs", 0) + 1
                for sig, what, rq in recombination_oracle(m, typ, qs, r["lines"]):
                    allprob.append((sig + (":few-bits" if qo else ""), what, dict(base, type=typ, opts=qo, **rq), True))
        # correspondence with the model (shared with C01)
        allprob += [p for p in c01.compare_case(ctx, m, sess, lmq, model_exe, qs[:40], ["probing", "trie"], stats) if not p[3]]
        if mi == 0:
            allprob += compare_ops(ctx, lmq, model_exe, sess, m, stats)
        if mi % 3 == 0:
            allprob += epsilon_rule_stream(ctx, lmq, sess, m, qs, stats, base)
        nontrivial += 1 if m.order >= 3 else 0
        if mi < 2:
            ctx.sample({"order": m.order, "vocab": len(m.vocab), "ngrams": len(m.grams), "suffix_closed": m.suffix_closed(), "first_query": qs[0]})
        shutil.rmtree(sess.dir, ignore_errors=True)
        if len(allprob) > 30:
            break
    ctx.count("evaluations", stats.get("scores", 0))
    ctx.coverage["models"] = nmodels
    ctx.coverage["distinct_nontrivial"] = nontrivial
    ctx.coverage["rule"] = ("random models as in C01 x random word sequences from null context and <s>; oracles: FullScore(state) == FullScoreForgotState(history), "
                            "state == GetState(history) (suffix-closed models), state size bounds, and recombination: every pair of positions (across all sequences of a "
                            "model) whose incoming states have equal words and the same next word must have identical back-offs, result and outgoing state; "
                            "non-trivial = distinct generated model of order >= 3")
    ctx.coverage.update(stats)
    ctx.assumptions += ["as C01"]
    found_any = False
    for sig, what, rq, found in allprob:
        if found:
            found_any = True
            ctx.report(sig, what, rq, True)
    if not found_any:
        for sig, what, rq, found in allprob:
            ctx.report(sig, what, rq, False)
        ctx.report_proof(pres)


def replay(ctx, obj):
    import sys
    return lc.lm_replay(sys.modules[__name__], ctx, obj)
