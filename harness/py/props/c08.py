"""C08 -- chart-state scoring equals left-to-right scoring for every derivation."""
import os
import shutil

import vlib
import lmcommon as lc

DRV = os.path.join(vlib.ROOT, "harness", "drivers", "lmq.cc")


def gen_tree(rng, words, outer=False, bos=False):
    """random n-ary bracketing of `words` (non-empty) -> token list"""
    toks = ["("]
    if bos:
        toks.append("B")
    elif rng.chance(1, 2):
        toks.append("^")
    i = 0
    n = len(words)
    nitems = 0
    while i < n:
        remaining = n - i
        if rng.chance(1, 12):
            toks += ["(", ")"] if rng.chance(2, 3) else ["(", "^", ")"]      # an empty non-terminal (epsilon rule): must change nothing
            nitems += 1
        if remaining == 1 or rng.chance(1, 2) or (nitems == 0 and remaining == n and n == 1):
            if n == 1 and not outer and nitems == 0:
                toks.append("%x" % words[i])
                i += 1
            elif rng.chance(1, 2) or remaining == n and not outer and False:
                toks.append("%x" % words[i])
                i += 1
            else:
                ln = rng.range(1, remaining)
                if ln == n and not bos:      # a sub-derivation spanning everything: allowed but keep depth finite
                    ln = max(1, n - 1)
                toks += gen_tree(rng, words[i:i + ln])
                i += ln
        else:
            ln = rng.range(1, remaining)
            if ln == n and not bos:
                ln = max(1, n - 1)
            toks += gen_tree(rng, words[i:i + ln])
            i += ln
        nitems += 1
    toks.append(")")
    return toks


def all_binary_trees(words):
    """every binary bracketing (Catalan) as token lists; leaves are terminals inside their parent rule"""
    n = len(words)
    if n == 1:
        return [["(", "%x" % words[0], ")"]]
    out = []
    for k in range(1, n):
        for a in all_binary_trees(words[:k]):
            for b in all_binary_trees(words[k:]):
                la = a if k > 1 else ["%x" % words[0]]
                lb = b if n - k > 1 else ["%x" % words[k]]
                out.append(["("] + la + lb + [")"])
    return out


def parse_chart(line, impl):
    f = line.split()
    if len(f) < 3:
        return None
    if impl:
        u = lc.bits_to_units(int(f[0], 16))
        p = int(u) if u.denominator == 1 else u
        st = lc.parse_state_impl(f[3] if len(f) > 3 else "/")
    else:
        v = f[0]
        p = -int(v[1:], 16) if v.startswith("-") else int(v, 16)
        st = lc.parse_state_model(f[3] if len(f) > 3 else "/")
    return (p, int(f[1]), int(f[2]), st)


def run(ctx):
    pres = vlib.coq_prove("C08")
    ctx.set_proof(pres)
    lmq = vlib.compile_driver("lmq", DRV)
    model_exe = vlib.ocaml_model("C01")
    rng = ctx.rng
    stats = {"impl_runs": 0, "trees": 0, "exhaustive_sentences": 0}
    problems = []
    nmodels = 1 if ctx.replay_model else ctx.pick(25, 800)
    nontrivial = set()
    unk = -100 * lc.UNIT
    for mi in range(nmodels):
        # every few models a large one: pointer compression (ArrayBhiksha chopping) only matters beyond ~64 entries per order, and only
        # ExtendLeft / UnRest (chart scoring) read entries back through BitPackedMiddle::ReadEntry (third-round seeded change C08-7)
        m = ctx.replay_model or lc.gen_model(rng, max_order=6, max_vocab=ctx.pick(12, 30), estimator_like=True, big=(mi % 6 == 2), hub=(mi % 12 == 7), full_order=(mi % 4 == 1))
        sess = lc.Session(ctx, m, "m%d" % mi)
        sents = [s for _, s in lc.gen_queries(rng, m, ctx.pick(12, 40))] + [list(s) for s in getattr(m, "special", [])]
        cases = []
        ro = ctx.replay_obj if ctx.replaying else {}
        if "tree" in ro and "sentence" in ro:
            cases.append((list(ro["sentence"]), bool(ro.get("bos")), ro["tree"].split()))
        # the special sequences of the generator (partial shrink of the usable context; fragments with order-1 left pointers): as one
        # sub-derivation with the sentence start or some other word revealed in front, plus the usual random / exhaustive bracketings
        for sp in getattr(m, "special", []):
            ws = ["%x" % w for w in sp]
            cases.append((list(sp), True, ["(", "B", "("] + ws + [")", ")"]))
            z = rng.range(3, len(m.vocab) - 1)
            cases.append(([z] + list(sp), False, ["(", "%x" % z, "("] + ws + [")", ")"]))
            if len(sp) >= 3:
                cases.append((list(sp), True, ["(", "B", "(", "(", "("] + ws[:2] + [")", "("] + ws[2:3] + [")", ")"] + ws[3:] + [")", ")"]))
        for s in sents:
            s = s[:9]
            if not s:
                continue
            if len(s) <= ctx.pick(5, 7) and rng.chance(1, 3):
                stats["exhaustive_sentences"] += 1
                for t in all_binary_trees(s):
                    cases.append((s, False, t))
                    cases.append((s, True, ["(", "B"] + t[1:]))
            for _ in range(ctx.pick(4, 10)):
                bos = rng.chance(1, 2)
                cases.append((s, bos, gen_tree(rng, s, outer=True, bos=bos)))
        lines_impl = ["C " + " ".join(t) for _, _, t in cases]
        base = {"arpa": m.arpa_bytes().decode("latin-1"), "vocab": m.vocab_bytes().decode("latin-1")}
        # model answers (probing and trie kinds)
        ml = m.session_lines()
        nset = len(ml)
        for k in ("P", "T", "R"):
            ml += ["C %s %s" % (k, " ".join(t)) for _, _, t in cases]
        mout = vlib.run_lines(model_exe, ml)
        mres = {"P": mout[nset:nset + len(cases)], "T": mout[nset + len(cases):nset + 2 * len(cases)], "R": mout[nset + 2 * len(cases):nset + 3 * len(cases)]}
        # hypotheses of C08_any_bracketing on the tables the loader models build for this file, evaluated with the extracted,
        # proved-sound checkers (TInv: LM/InvCheck.tinv_check; rest = prob and "extension bit only on contexts": LM/FlattenCheck)
        for tok in mout[nset - 1].split():
            if tok[:4] in ("invP", "invT", "invR", "flat", "extR"):
                stats["hyp_" + tok] = stats.get("hyp_" + tok, 0) + 1
        for kd, nm in (("P", "probing"), ("T", "trie"), ("R", "rest-probing")):
            toks = mout[nset - 1].split()
            if ("flat%s=0" % kd) in toks or ("inv%s=0" % kd) in toks or ("ext%s=0" % kd) in toks:
                problems.append(("correspondence:flattening-hypotheses:" + nm,
                                 "the table the %s loader model builds for an estimator-like file does not satisfy the hypotheses of C08_any_bracketing (%s)" % (nm, mout[nset - 1]),
                                 dict(base), False))
        # Config::REST_LOWER (the quantifier names it): rest costs taken from lower-order models with scores of their own -- nothing orders
        # the rest cost of an n-gram and of its extension, so only the telescoping of RuleScore / ExtendLeft / UnRest makes the totals
        # right (fifth-round seeded change C08-13 clamped a positive relative rest cost, dead code under REST_MAX)
        lower = None
        if m.order >= 3 and getattr(m, "raw_arpa", None) is None and (mi % 2 == 0 or ctx.replaying):
            if ro.get("lower"):
                lower = []
                for i, text in enumerate(ro["lower"]):
                    lower.append(os.path.join(sess.dir, "lower%d.arpa" % (i + 1)))
                    open(lower[-1], "wb").write(text.encode("latin-1"))
            else:
                lower = lc.lower_order_files(rng, m, sess.dir)
        for typ in ["probing", "rest", "trie", "atrie"] + (["rest_lower"] if lower else []) + (["qtrie"] if not ctx.quick else []):
            cmd = [lmq, sess.arpa, typ, sess.vocab, "tmp=" + sess.dir + "/"]
            if typ == "rest_lower":
                cmd = [lmq, sess.arpa, "rest", sess.vocab, "tmp=" + sess.dir + "/", "rest_lower=" + ",".join(lower)]
                stats["rest_lower_models"] = stats.get("rest_lower_models", 0) + 1
            rc, out, err = vlib.sh(cmd, input=("\n".join(lines_impl) + "\n").encode(), timeout=300)
            stats["impl_runs"] += 1
            res = out.split("\n")
            if not res or not res[0].startswith("loaded"):
                stats["not_accepted"] = stats.get("not_accepted", 0) + 1
                continue
            body = res[1:1 + len(cases)]
            if len(body) != len(cases):
                problems.append(("crash:" + typ, "driver died on a derivation (rc=%d) %s" % (rc, err[-200:]), dict(base, type=typ), True))
                continue
            for ci, ((s, bos, toks), line) in enumerate(zip(cases, body)):
                got = parse_chart(line, True)
                stats["trees"] += 1
                if len(toks) > len(s) + 3:
                    nontrivial.add((mi, tuple(toks)))
                # specification: left-to-right total
                hist = [m.bos] if bos else []
                total = 0
                for w in s:
                    p, _ = m.bo_score(hist, w, unk)
                    total += p
                    hist = [w] + hist
                rq = dict(base, type=typ, sentence=s, bos=bos, tree=" ".join(toks))
                if typ == "rest_lower":
                    rq["lower"] = [open(f, "rb").read().decode("latin-1") for f in lower]
                if typ != "qtrie" and (bos or typ not in ("rest", "rest_lower")):
                    if got is None or got[0] != total:
                        problems.append(("spec:total:" + typ + (":bos" if bos else ":fragment"),
                                         "derivation total %s/64, left-to-right total %s/64" % (got[0] if got else None, total), rq, True))
                # correspondence with the extracted model
                if typ in ("probing", "trie", "atrie", "rest"):
                    mm = parse_chart(mres[lc.CHART_KIND[typ]][ci], False)
                    if mm != got:
                        problems.append(("correspondence:chart:" + typ, "implementation %r, model %r" % (got, mm), rq, False))
            # a scorer that has already scored another rule and is given the next one through Reset(ChartState&) / Reset()
            # must be as good as new (third-round seeded change C08-9 lost left_done_ in Reset)
            if typ in ("probing", "trie"):
                rl = [("C1" if i % 2 else "C2") + l[1:] for i, l in enumerate(lines_impl)]
                rc2, out2, err2 = vlib.sh(cmd, input=("\n".join(rl) + "\n").encode(), timeout=300)
                stats["impl_runs"] += 1
                res2 = out2.split("\n")
                body2 = res2[1:1 + len(cases)]
                if len(body2) != len(cases):
                    problems.append(("crash:scorer-reuse:" + typ, "driver died on a derivation scored with a reused RuleScore (rc=%d) %s" % (rc2, err2[-200:]), dict(base, type=typ), True))
                else:
                    for ci, ((s, bos, toks), l1, l2) in enumerate(zip(cases, body, body2)):
                        stats["trees_reused_scorer"] = stats.get("trees_reused_scorer", 0) + 1
                        if l1 != l2:
                            problems.append(("spec:scorer-reuse:" + typ, "fresh RuleScore answers %s, a RuleScore reused through Reset answers %s" % (l1, l2),
                                             dict(base, type=typ, sentence=s, bos=bos, tree=" ".join(toks)), True))
                            break
            if len(problems) > 20:
                break
        # ---- lm/partial.hh: reveal context incrementally on both sides of a fragment (CheckAdjustment of partial_test.cc)
        pcases = []
        if "between" in ro:
            pcases.append((list(ro.get("before", [])), list(ro["between"]), list(ro.get("after", []))))
        # the generator's special sequences at every cut (a left part whose right state holds order-1 words, then one more word)
        for sp in getattr(m, "special", []):
            sp = list(sp)
            for a in range(1, len(sp)):
                pcases.append(([], sp[:a], sp[a:]))
                pcases.append((sp[:a], sp[a:], []))
        for s in sents:
            s = s[:8]
            for _ in range(ctx.pick(3, 8)):
                a = rng.range(0, len(s))
                b = rng.range(a, len(s))
                pcases.append((s[:a], s[a:b], s[b:]))
        fmtp = lambda c: " ; ".join(" ".join("%x" % w for w in part) for part in c)
        plines = ["P " + fmtp(c) for c in pcases]
        ml2 = m.session_lines()
        n2 = len(ml2)
        for k in ("P", "T", "R"):
            ml2 += ["P %s %s" % (k, fmtp(c)) for c in pcases]
        mo2 = vlib.run_lines(model_exe, ml2)
        mres2 = {"P": mo2[n2:n2 + len(pcases)], "T": mo2[n2 + len(pcases):n2 + 2 * len(pcases)], "R": mo2[n2 + 2 * len(pcases):]}
        for typ in ["probing", "rest", "trie", "atrie"]:
            rc, out, err = vlib.sh([lmq, sess.arpa, typ, sess.vocab, "tmp=" + sess.dir + "/"], input=("\n".join(plines) + "\n").encode(), timeout=300)
            stats["impl_runs"] += 1
            res = out.split("\n")
            if not res or not res[0].startswith("loaded"):
                continue
            body = res[1:1 + len(pcases)]
            if len(body) != len(pcases):
                problems.append(("crash:partial:" + typ, "driver died in RevealBefore/RevealAfter (rc=%d) %s" % (rc, err[-200:]), dict(base, type=typ), True))
                continue
            for ci, (c, line) in enumerate(zip(pcases, body)):
                f = line.split()
                stats["reveals"] = stats.get("reveals", 0) + 1
                vals = []
                for x in f[:5]:
                    u = lc.bits_to_units(int(x, 16))
                    vals.append(int(u) if u.denominator == 1 else u)
                got, full, pb, pm, pa = vals
                rq = dict(base, type=typ, before=c[0], between=c[1], after=c[2])
                if got != full - pb - pm - pa:
                    problems.append(("spec:reveal-adjustment:" + typ, "revealed adjustments sum to %s/64, whole minus parts is %s/64" % (got, full - pb - pm - pa), rq, True))
                if typ in ("probing", "trie", "rest", "atrie"):
                    mf = mres2[lc.CHART_KIND[typ]][ci].split()
                    mv = [(-int(v[1:], 16) if v.startswith("-") else int(v, 16)) for v in mf[:5]]
                    same = mv == vals and mf[5:7] == f[5:7] and lc.parse_state_model(mf[7] if len(mf) > 7 else "/") == lc.parse_state_impl(f[7] if len(f) > 7 else "/")
                    if not same:
                        problems.append(("correspondence:partial:" + typ, "implementation %s, model %s" % (line, mres2[lc.CHART_KIND[typ]][ci]), rq, False))
        # ---- the same with arbitrary instalments: any cut points on either side, any interleaving of the two sides, the
        #      complete flag either on the last chunk or in a separate closing call (the theorems C08_reveal_before_incremental /
        #      C08_reveal_after_incremental quantify over the cuts; the interleaving is only decided here)
        def gen_script(bl, bfull, al, afull):
            def side(n, full, lo, up):
                seq = []
                if n > 0:
                    cuts = sorted(set([n] + [rng.range(1, n) for _ in range(rng.below(3))])) if rng.below(3) else list(range(1, n + 1))
                    for c in cuts[:-1]:
                        seq.append("%s%d" % (lo, c))
                    if full and rng.below(2):
                        seq.append("%s%d" % (up, n))
                    else:
                        seq.append("%s%d" % (lo, n))
                        if full:
                            seq.append(lo + "F")
                elif full:
                    seq.append(lo + "F")
                return seq
            bs, as_ = side(bl, bfull, "b", "B"), side(al, afull, "a", "A")
            out = []
            while bs or as_:
                if bs and (not as_ or rng.below(2)):
                    out.append(bs.pop(0))
                else:
                    out.append(as_.pop(0))
            return out
        xcases = [c for c in pcases if c[1]][:ctx.pick(40, 400)]
        il = m.session_lines()
        ni = len(il)
        for k in ("P", "T", "R"):
            il += ["PX %s %s ;" % (k, fmtp(c)) for c in xcases]
        info = vlib.run_lines(model_exe, il)[ni:]
        scripts = {}
        for ki, k in enumerate(("P", "T", "R")):
            for ci, c in enumerate(xcases):
                f = info[ki * len(xcases) + ci].split()
                if len(f) == 5 and f[0] == "I":
                    scripts[(k, ci)] = gen_script(int(f[1]), f[2] == "1", int(f[3]), f[4] == "1")
        xl = m.session_lines()
        nx_ = len(xl)
        order_x = []
        for k in ("P", "T", "R"):
            for ci, c in enumerate(xcases):
                if scripts.get((k, ci)):
                    order_x.append((k, ci))
                    xl.append("PX %s %s ; %s" % (k, fmtp(c), " ".join(scripts[(k, ci)])))
        mox = dict(zip(order_x, vlib.run_lines(model_exe, xl)[nx_:]))
        for typ in ["probing", "rest", "trie", "atrie"]:
            k = lc.CHART_KIND[typ]
            mine = [(kk, ci) for (kk, ci) in order_x if kk == k]
            if not mine:
                continue
            lines = ["PX %s ; %s" % (fmtp(xcases[ci]), " ".join(scripts[(k, ci)])) for (_, ci) in mine]
            rc, out, err = vlib.sh([lmq, sess.arpa, typ, sess.vocab, "tmp=" + sess.dir + "/"], input=("\n".join(lines) + "\n").encode(), timeout=300)
            stats["impl_runs"] += 1
            res = out.split("\n")
            if not res or not res[0].startswith("loaded"):
                continue
            body = res[1:1 + len(lines)]
            if len(body) != len(lines):
                problems.append(("crash:partial-script:" + typ, "driver died in scripted RevealBefore/RevealAfter (rc=%d) %s" % (rc, err[-200:]), dict(base, type=typ), True))
                continue
            for (kk, ci), line in zip(mine, body):
                c = xcases[ci]
                f = line.split()
                stats["scripted_reveals"] = stats.get("scripted_reveals", 0) + 1
                stats["scripted_reveal_calls"] = stats.get("scripted_reveal_calls", 0) + len(scripts[(k, ci)])
                vals = []
                for x in f[:5]:
                    u = lc.bits_to_units(int(x, 16))
                    vals.append(int(u) if u.denominator == 1 else u)
                got, full, pb, pm, pa = vals
                rq = dict(base, type=typ, before=c[0], between=c[1], after=c[2], script=scripts[(k, ci)])
                if got != full - pb - pm - pa:
                    problems.append(("spec:reveal-instalments:" + typ, "instalments %s sum to %s/64, whole minus parts is %s/64" % (" ".join(scripts[(k, ci)]), got, full - pb - pm - pa), rq, True))
                ml_ = mox.get((kk, ci), "")
                mf = ml_.split()
                if len(mf) >= 7:
                    mv = [(-int(v[1:], 16) if v.startswith("-") else int(v, 16)) for v in mf[:5]]
                    same = mv == vals and mf[5:7] == f[5:7] and lc.parse_state_model(mf[7] if len(mf) > 7 else "/") == lc.parse_state_impl(f[7] if len(f) > 7 else "/")
                    if not same:
                        problems.append(("correspondence:partial-script:" + typ, "implementation %s, model %s" % (line, ml_), rq, False))
        # ---- Subsume: merging two adjacent fragments accumulates whole minus parts and yields the whole's chart state
        ucases = []
        if isinstance(ro.get("first"), list) and isinstance(ro.get("second"), list):
            ucases.append((list(ro["first"]), list(ro["second"])))
        for s in sents:
            s = s[:8]
            for a in range(0, len(s) + 1):
                ucases.append((s[:a], s[a:]))
        fmtu = lambda c: " ; ".join(" ".join("%x" % w for w in part) for part in c)
        ulines = ["SUB " + fmtu(c) for c in ucases] + ["C ( " + " ".join("%x" % w for w in (c[0] + c[1])) + " )" for c in ucases]
        ml3 = m.session_lines()
        n3 = len(ml3)
        for k in ("P", "T", "R"):
            ml3 += ["SUB %s %s" % (k, fmtu(c)) for c in ucases]
        mo3 = vlib.run_lines(model_exe, ml3)
        mres3 = {"P": mo3[n3:n3 + len(ucases)], "T": mo3[n3 + len(ucases):n3 + 2 * len(ucases)], "R": mo3[n3 + 2 * len(ucases):]}
        for typ in ["probing", "rest", "trie", "atrie"]:
            rc, out, err = vlib.sh([lmq, sess.arpa, typ, sess.vocab, "tmp=" + sess.dir + "/"], input=("\n".join(ulines) + "\n").encode(), timeout=300)
            stats["impl_runs"] += 1
            res = out.split("\n")
            if not res or not res[0].startswith("loaded"):
                continue
            body = res[1:1 + 2 * len(ucases)]
            if len(body) != 2 * len(ucases):
                problems.append(("crash:subsume:" + typ, "driver died in Subsume (rc=%d) %s" % (rc, err[-200:]), dict(base, type=typ), True))
                continue
            for ci, c in enumerate(ucases):
                f = body[ci].split()
                whole = body[len(ucases) + ci].split()
                stats["subsumes"] = stats.get("subsumes", 0) + 1
                vals = []
                for x in f[:4]:
                    u = lc.bits_to_units(int(x, 16))
                    vals.append(int(u) if u.denominator == 1 else u)
                adj, full, pa, pb = vals
                rq = dict(base, type=typ, first=c[0], second=c[1])
                if adj != full - pa - pb:
                    problems.append(("spec:subsume-adjustment:" + typ, "Subsume adjustment %s/64, whole minus parts %s/64" % (adj, full - pa - pb), rq, True))
                # merged chart state = chart state of the whole fragment (left length/full, right state)
                if f[4:] != whole[1:]:
                    problems.append(("spec:subsume-state:" + typ, "merged state %s, state of the whole fragment %s" % (" ".join(f[4:]), " ".join(whole[1:])), rq, True))
                if typ in ("probing", "trie", "rest", "atrie"):
                    mf = mres3[lc.CHART_KIND[typ]][ci].split()
                    mv = [(-int(v[1:], 16) if v.startswith("-") else int(v, 16)) for v in mf[:4]]
                    same = mv == vals and mf[4:6] == f[4:6] and lc.parse_state_model(mf[6] if len(mf) > 6 else "/") == lc.parse_state_impl(f[6] if len(f) > 6 else "/")
                    if not same:
                        problems.append(("correspondence:subsume:" + typ, "implementation %s, model %s" % (body[ci], mres3[lc.CHART_KIND[typ]][ci]), rq, False))
        if mi < 2:
            ctx.sample({"order": m.order, "vocab": len(m.vocab), "ngrams": len(m.grams), "suffix_closed": m.suffix_closed(),
                        "tree": " ".join(cases[0][2]) if cases else None})
        shutil.rmtree(sess.dir, ignore_errors=True)
        if len(problems) > 20:
            break
    ctx.count("evaluations", stats["trees"])
    ctx.coverage["models"] = nmodels
    ctx.coverage["distinct_nontrivial"] = len(nontrivial)
    ctx.coverage["rule"] = ("estimator-like random models (closed or SRI-pruned; only contexts carry non-zero back-off) x sentences x derivation trees: every binary "
                            "bracketing for short sentences (with and without <s>), random n-ary trees mixing Terminal / NonTerminal / BeginNonTerminal otherwise; "
                            "probing, rest-probing (REST_MAX), trie, array trie; evaluations = (tree, structure) pairs; non-trivial = distinct tree with at least one "
                            "nested sub-derivation")
    ctx.coverage.update(stats)
    ctx.assumptions += ["as C01", "rest-probing: totals compared only after <s> (as the property states); its rest costs are not in the model yet"]
    found_any = False
    for sig, what, rq, found in problems:
        if found:
            found_any = True
            ctx.report(sig, what, rq, True)
    if not found_any:
        for sig, what, rq, found in problems:
            ctx.report(sig, what, rq, False)
        ctx.report_proof(pres)


def replay(ctx, obj):
    import sys
    return lc.lm_replay(sys.modules[__name__], ctx, obj)
