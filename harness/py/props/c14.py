"""C14 -- Python module and virtual interface agree with the typed C++ interface (DESIGN.md section 4, C14).

Pipeline: regenerate coq/Gen/Spaces.v from the current util/spaces.cc -> proof step -> build the Python extension
from python/kenlm.cpp + python/score_sentence.cc + the freshly built libraries -> for every model file (ARPA and the
six binary types) and every generated sentence compare
   (1) the extension's score / full_scores / BaseScore loop / perplexity (all four bos/eos combinations),
   (2) the extracted Coq model run over a per-word scoring table recorded from the *typed* C++ classes,
   (3) bin/query's printed totals,
and check that the virtual interface is bit-identical to the typed classes (harness/drivers/c14_driver.cc).
The specification oracle (written from the property text) is applied to (1) directly."""
import hashlib
import json
import os
import re
import struct
import subprocess
import sys
import sysconfig

import vlib
import kspaces_gen

DRV = os.path.join(vlib.ROOT, "harness", "drivers", "c14_driver.cc")
PYSIDE = os.path.join(vlib.ROOT, "harness", "py", "c14_pyside.py")
SIG_NUL = "python:score:bos+eos-fast-path:NUL-in-sentence"
SIG_NUL_WORD = "python:vocab.Index(char*):NUL-in-word"
WS = b"\t\n\x0b\x0c\r "
UNICODE_ONLY_SPACES = [c for c in range(0x110000) if chr(c).isspace() and c not in (9, 10, 11, 12, 13, 32)]
COMBOS = ((True, True), (True, False), (False, True), (False, False))
TYPE_NAMES = ["probing", "rest-probing", "trie", "quant-trie", "array-trie", "quant-array-trie"]


TRANSLATION_ERROR = None


def regenerate():
    """never raises for an extraction problem (./check --setup calls this too): the reason is kept for run() to report"""
    global TRANSLATION_ERROR
    TRANSLATION_ERROR = kspaces_gen.regen_spaces_safe()
    return ["Gen/Spaces.v"]


# ---------------------------------------------------------------------------------------------
_WS_RUN = re.compile(rb"[\t\n\x0b\x0c\r ]+")


def ref_split(s):
    """bytes.split() as the property text describes it: maximal runs of non-whitespace bytes (the six ASCII white-space bytes
    spelled out; not bytes.split itself)"""
    return [t for t in _WS_RUN.split(s) if t]


def f32(x):
    return struct.unpack("<f", struct.pack("<f", x))[0]


def f_of_bits(h):
    return struct.unpack("<f", struct.pack("<I", int(h, 16)))[0]


def bits_of_f(x):
    return "%x" % struct.unpack("<I", struct.pack("<f", x))[0]


def f32_sum(bit_list):
    t = 0.0
    for b in bit_list:
        t = f32(t + f_of_bits(b))
    return bits_of_f(t)


# ---------------------------------------------------------------------------------------------
def pyx_embedded_check():
    """kenlm.cpp is generated from kenlm.pyx by Cython, which copies the source lines into comments.  No Cython
    is installed, so the tie between the .pyx (the anchored source) and the compiled .cpp is this textual check."""
    cpp = open(os.path.join(vlib.REPO, "python", "kenlm.cpp"), encoding="utf-8", errors="replace").read()
    pyx = open(os.path.join(vlib.REPO, "python", "kenlm.pyx"), encoding="utf-8", errors="replace").read().split("\n")
    bad, covered, blocks = [], set(), 0
    for m in re.finditer(r'/\* "kenlm\.pyx":(\d+)\n(.*?)\n \*/', cpp, re.S):
        n = int(m.group(1))
        body = []
        for l in m.group(2).split("\n"):
            body.append(l[3:] if l.startswith(" * ") else l[2:] if l.startswith(" *") else l)
        k = [i for i, b in enumerate(body) if "# <<<<<<<<<<<<<<" in b]
        if len(k) != 1:
            continue
        k = k[0]
        body[k] = body[k].split("# <<<<<<<<<<<<<<")[0]
        blocks += 1
        for i, b in enumerate(body):
            ln = n - k + i
            b = b.replace("*[inserted by cython to avoid comment closer]/", "*/").replace("/[inserted by cython to avoid comment start]*", "/*")
            src = pyx[ln - 1] if 1 <= ln <= len(pyx) else "<past end of kenlm.pyx>"
            if b.rstrip() != src.rstrip():
                bad.append({"pyx_line": ln, "pyx": src, "cpp_comment": b})
            else:
                covered.add(ln)
    # executable lines of the Model methods the property names
    need = []
    in_doc = False
    start = next((i for i, l in enumerate(pyx) if l.startswith("cdef class Model")), None)
    if start is None:
        bad.append({"pyx_line": 0, "pyx": "cdef class Model not found", "cpp_comment": ""})
        start = len(pyx)
    for i in range(start, len(pyx)):
        l = pyx[i]
        if i > start and l and not l[0].isspace():
            break
        st = l.strip()
        if st.count('"""') == 1:
            in_doc = not in_doc
            continue
        if in_doc or not st or st.startswith("#") or st.startswith('"""'):
            continue
        need.append(i + 1)
    missing = [ln for ln in need if ln not in covered]
    return bad, blocks, len(covered), missing


def build_pyext():
    """compile the extension against the freshly built static libraries (2.5 s); cached on the inputs"""
    bdir = vlib.build_repo(["kenlm", "kenlm_util"])
    srcs = [os.path.join(vlib.REPO, "python", f) for f in ("kenlm.cpp", "score_sentence.cc")]
    h = hashlib.sha256()
    for f in srcs + [os.path.join(vlib.REPO, "python", "score_sentence.hh")]:
        h.update(open(f, "rb").read())
    for l in ("kenlm", "kenlm_util"):
        st = os.stat(os.path.join(bdir, "lib", "lib%s.a" % l))
        h.update(("%s:%d:%d" % (l, st.st_mtime_ns, st.st_size)).encode())
    import glob
    for pat in ("lm/*.hh", "util/*.hh", "util/double-conversion/*.h"):
        for f in sorted(glob.glob(os.path.join(vlib.REPO, pat))):
            st = os.stat(f)
            h.update(("%s:%d:%d" % (f, st.st_mtime_ns, st.st_size)).encode())
    outdir = os.path.join(vlib.CACHE, "pyext")
    os.makedirs(outdir, exist_ok=True)
    out = os.path.join(outdir, "kenlm" + sysconfig.get_config_var("EXT_SUFFIX"))
    stamp = out + ".stamp"
    if os.path.exists(out) and os.path.exists(stamp) and open(stamp).read() == h.hexdigest():
        return outdir
    cmd = ["g++", "-O2", "-shared", "-fPIC", "-std=c++11", "-w"] + [d for d in vlib.KENLM_DEFS] + \
          ["-I" + vlib.REPO, "-I" + sysconfig.get_paths()["include"]] + srcs + ["-o", out, "-L" + os.path.join(bdir, "lib"),
           "-lkenlm", "-lkenlm_util"] + vlib.SYS_LIBS
    with vlib._Lock(out + ".lock"):
        rc, o, e = vlib.sh(cmd, timeout=600)
        if rc != 0:
            raise vlib.InfraError("the Python extension does not compile from python/kenlm.cpp against the current /repo:\n" + (o + e)[-3000:])
        open(stamp, "w").write(h.hexdigest())
    return outdir


# ---------------------------------------------------------------------------------------------
def parse_arpa(path):
    grams = {}
    n = 0
    for l in open(path, "rb").read().split(b"\n"):
        l = l.rstrip(b"\r")
        m = re.match(rb"\\(\d+)-grams:", l)
        if m:
            n = int(m.group(1)); grams[n] = []
            continue
        if l.startswith(b"\\") or not l.strip() or l.startswith(b"ngram "):
            continue
        if n:
            f = l.split(b"\t")
            if len(f) >= 2:
                grams[n].append(f[1].split(b" "))
    return grams


def long_words(rng):
    """vocabulary words around every length at which a fixed-size buffer or a bounded scan could cut a word: 254 .. 257 bytes,
    1000, 4096 +- 1, 65535 .. 65537, 70000; ASCII (URL-like) and UTF-8 whose 2- and 3-byte characters straddle byte 255 / 256"""
    out = []
    for k, n in enumerate((254, 255, 256, 257, 1000, 4095, 4096, 4097, 65535, 65536, 65537, 70000)):
        head = b"http://example.net/%d/" % n
        fill = bytes([97 + (k + j) % 26 for j in range(7)])
        out.append((head + fill * (n // 7 + 1))[:n])
    e2, e3 = "\u00e9".encode("utf-8"), "\u4e16".encode("utf-8")
    out += [e2 * 127, e2 * 127 + b"z", e2 * 128, b"q" + e2 * 127 + e2, e3 * 85, b"q" + e3 * 85, b"qq" + e3 * 85, e3 * 86,
            e3 * 21845 + b"k", e2 * (rng.range(120, 140))]
    seen, res = set(), []
    for w in out:
        if w not in seen:
            seen.add(w); res.append(w)
    return res


def gen_arpa(rng, path):
    """a small valid order-3 model: UTF-8 and punctuation words, probabilities multiples of 1/64"""
    words = [b"<unk>", b"<s>", b"</s>"] + [w.encode("utf-8") for w in
             ("h\u00e9llo", "\u4e16\u754c", "na\u00efve", "a=b", "x", "y", "42", "\u00a0nbsp", "\u2003em")] + long_words(rng)
    def p():
        return "%.6f" % (-rng.range(1, 255) / 64.0)
    uni = list(words)
    body = [w for w in words if w not in (b"<unk>", b"<s>", b"</s>")]
    bi = set()
    for a in [b"<s>"] + body:
        for b in body + [b"</s>"]:
            if rng.chance(1, 3):
                bi.add((a, b))
    bi = sorted(bi)
    tri = sorted({(a, b, c) for (a, b) in bi for (b2, c) in bi if b2 == b and rng.chance(1, 3)})
    if not tri and bi:
        a, b = bi[0]
        nxt = [x for x in bi if x[0] == b]
        if nxt:
            tri = [(a, b, nxt[0][1])]
    out = [b"\\data\\", b"ngram 1=%d" % len(uni), b"ngram 2=%d" % len(bi)]
    if tri:
        out.append(b"ngram 3=%d" % len(tri))
    out += [b"", b"\\1-grams:"]
    for w in uni:
        if w == b"</s>":
            out.append(p().encode() + b"\t" + w)
        elif w == b"<s>":
            out.append(b"-99\t" + w + b"\t" + p().encode())
        else:
            out.append(p().encode() + b"\t" + w + b"\t" + p().encode())
    out += [b"", b"\\2-grams:"]
    for g in bi:
        out.append(p().encode() + b"\t" + b" ".join(g) + ((b"\t" + p().encode()) if tri else b""))
    if tri:
        out += [b"", b"\\3-grams:"]
        for g in tri:
            out.append(p().encode() + b"\t" + b" ".join(g))
    out += [b"", b"\\end\\", b""]
    open(path, "wb").write(b"\n".join(out))


def gen_sentences(rng, grams, n_random):
    vocab = [g[0] for g in grams.get(1, [])]
    # words of more than 2000 bytes appear in the fixed sentences only (each costs ~0.1 MB per call on every path)
    body = [w for w in vocab if w not in (b"<s>",) and len(w) <= 2000] or [b"x"]
    short = [w for w in body if len(w) <= 64] or body
    w1, w2 = rng.choice(short), rng.choice(short)
    fixed = [b"", b" ", b"\t\n\x0b\x0c\r ", b"  " + w1, w1 + b"  ", w1, b"<unk>", b"</s>", b"<s>", w1 + b" <s> " + w2,
             w1 + b" </s> " + w2, b"zzzOOVzzz", w1 + b" zzzOOVzzz " + w2, "\u00e9\u4e16 \u00a0 \u2003".encode("utf-8"), b"\xff\xfe " + w1,
             b"\x85 " + w1 + b" \xa0", b"\x1c\x1d\x1e\x1f " + w1,      # str.split() whitespace that bytes.split() keeps
             b"w" * 1000, b" ".join([w1, w2] * 100)]
    # every long vocabulary word alone, after and before another word (all Python paths look words up one by one)
    for w in vocab:
        if len(w) > 2000:
            fixed += [w1 + b" " + w]
        elif len(w) > 64:
            fixed += [w, w1 + b" " + w, w + b"\t" + w2 + b" " + w]
    # every character str.split() / str.isspace() treats as a separator although it is not ASCII white space: for the model
    # (bytes.split() / util::kSpaces on the UTF-8 bytes) these are ordinary word bytes
    for cp in UNICODE_ONLY_SPACES:
        ch = chr(cp).encode("utf-8")
        fixed.append(w1 + ch + w2)
    fixed.append(w1 + b" " + "".join(chr(c) for c in UNICODE_ONLY_SPACES[:6]).encode("utf-8") + b" " + w2)
    for ws in WS:
        fixed.append(w1 + bytes([ws]) + w2)
        fixed.append(bytes([ws]) + w1 + bytes([ws, ws]) + w2 + bytes([ws]))
    # NUL (F7): the fast path sees a C string
    fixed += [b"\x00", w1 + b"\x00 " + w2, w1 + b" \x00" + w2, b"\x00 " + w1, w1 + b" " + w2 + b"\x00", w1 + b"\x00" + w2,
              b"looking on\x00 a little"]
    out = list(fixed)
    grams = {n: [g for g in gs if all(len(t) <= 2000 for t in g)] for n, gs in grams.items()}
    grams = {n: gs for n, gs in grams.items() if gs}
    orders = sorted(grams)
    for _ in range(n_random):
        toks = []
        for _ in range(rng.range(1, 4)):
            r = rng.below(10)
            if r < 6 and orders:
                toks += [t for t in rng.choice(grams[rng.choice(orders[-2:] if rng.chance(2, 3) else orders)]) if t not in (b"<s>", b"</s>")]
            elif r < 8:
                toks.append(rng.choice(body))
            else:
                toks.append(rng.choice([b"OOV", "\u00fc".encode("utf-8"), b"=", b"<unk>", b"A\x01B",
                                        rng.choice(body) + chr(rng.choice(UNICODE_ONLY_SPACES)).encode("utf-8") + rng.choice(body)]))
        s = bytearray()
        if rng.chance(1, 4):
            s += bytes(rng.choice(WS) for _ in range(rng.range(1, 3)))
        for i, t in enumerate(toks):
            if i:
                s += bytes(rng.choice(WS) if rng.chance(1, 2) else 32 for _ in range(1 if rng.chance(3, 4) else rng.range(2, 4)))
            s += t
        if rng.chance(1, 4):
            s += bytes(rng.choice(WS) for _ in range(rng.range(1, 3)))
        if rng.chance(1, 12):
            k = rng.below(len(s) + 1)
            s[k:k] = b"\x00"
        out.append(bytes(s))
    # distinct, order kept
    seen, res = set(), []
    for s in out:
        if s not in seen:
            seen.add(s); res.append(s)
    return res


# ---------------------------------------------------------------------------------------------
def hx(s):
    return s.hex() if s else "-"


def cstr(s):
    return s.split(b"\x00")[0]


def run_pyside_session(extdir, specs, jobs, timeout=1200):
    """ONE interpreter with every model of `specs` loaded (in that order); jobs = [(model index, sentence)] in the order they
    are to be executed.  Returns the observations in job order."""
    env = {"PYTHONPATH": extdir}
    data = "".join("%d %s\n" % (k, hx(s)) for k, s in jobs).encode()
    rc, out, err = vlib.sh([sys.executable, PYSIDE] + list(specs), input=data, env=env, timeout=timeout)
    lines = [l for l in out.split("\n") if l.startswith("{")]
    if rc != 0 or len(lines) != len(jobs) + 1:
        return None, "python side died rc=%d after %d answers: %s" % (rc, max(len(lines) - 1, 0), err[-600:])
    return [json.loads(l) for l in lines[1:]], None


def run_pyside(extdir, model, sentences, load_methods=False, timeout=600):
    return run_pyside_session(extdir, [model + ("+lm" if load_methods else "")], [(0, s) for s in sentences], timeout)


def variants(s):
    """token lists under which a sentence can be scored: the whole bytes object split (specification, typed C++, query tool),
    the split of its C-string prefix (ScoreSentence fast path, F7), the whole split with every word cut at its first NUL
    (Index(char*) on the slow path, F7b)"""
    full = tuple(ref_split(s))
    return full, tuple(ref_split(cstr(s))), tuple(cstr(t) for t in full)


def thex(t):
    return t.hex() if t else "e"


def run_typed(drv, model, mtype, sentences):
    """typed chains for the token lists of every sentence x bos"""
    lines, keys = [], []
    for i, s in enumerate(sentences):
        for toks in set(variants(s)):
            for bos in (1, 0):
                lines.append("%d %s" % (bos, " ".join(thex(t) for t in toks) if toks else "-"))
                keys.append((i, toks, bos))
    rc, out, err = vlib.sh([drv, model, mtype], input=("\n".join(lines) + "\n").encode(), timeout=600)
    res = out.split("\n")
    if rc != 0 or not res or not res[0].startswith("READY") or len(res) < len(lines) + 1:
        return None, "typed driver failed rc=%d: %s %s" % (rc, out[:300], err[-300:])
    chains = {}
    for (i, toks, bos), l in zip(keys, res[1:]):
        body, _, virt = l.partition(" | virt=")
        steps = [tuple(x.split(":")) for x in body.split()]
        chains[(i, toks, bos)] = (steps, virt)
    return chains, None


def model_line(s, chains, i):
    """the case line for the extracted model: vocabulary ids and the scoring table of this sentence"""
    vocab, table = {}, {}
    eos_id = None
    for toks in set(variants(s)):
        for bos in (1, 0):
            steps, _ = chains[(i, toks, bos)]
            hist = []
            for k, (wid, pb, ln) in enumerate(steps):
                wid = int(wid)
                if k < len(toks):
                    vocab[hx(toks[k])] = wid
                else:
                    eos_id = wid
                table[(bos, ",".join("%x" % h for h in hist) or "-", wid)] = (pb, int(ln))
                # the eos entry for every prefix is needed when eos is scored after fewer words: not the case (eos only at the end)
                hist.insert(0, wid)
    parts = [hx(s), "%x" % eos_id, "V", str(len(vocab))]
    for w, wid in sorted(vocab.items()):
        parts += [w, "%x" % wid]
    parts += ["T", str(len(table))]
    for (bos, hist, wid), (pb, ln) in sorted(table.items()):
        parts += [str(bos), hist, "%x" % wid, pb, "%x" % ln]
    return " ".join(parts)


def py_line(obs):
    segs = []
    for c in obs["combos"]:
        fs = ",".join("%s/%d/%d" % (p, n, o) for p, n, o in c["fs"]) or "-"
        segs.append("score=%s fs=%s st=%s" % (c["score"], fs, c.get("st", "n/a")))
    return segs


def expected_fs(chains, i, toks, bos, eos):
    steps, _ = chains[(i, toks, 1 if bos else 0)]
    exp = [[pb, int(ln), 1 if int(wid) == 0 else 0] for wid, pb, ln in steps]
    if not eos:
        return exp[:-1]
    exp[-1][2] = 0
    return exp


def oracle(s, obs, chains, i):
    """specification oracle on the extension's answers, from the property text.  Returns [(signature, what)].
    The reference for every per-word number is the typed C++ interface on the tokens of the whole byte string."""
    fails = []
    nul = b"\x00" in s
    toks, toks_prefix, toks_c = variants(s)
    for (bos, eos), c in zip(COMBOS, obs["combos"]):
        tag = "bos=%d:eos=%d" % (bos, eos)
        exp = expected_fs(chains, i, toks, bos, eos)
        fs_ok = c["fs"] == exp
        if not fs_ok:
            if nul and c["fs"] == expected_fs(chains, i, toks_c, bos, eos):
                fails.append((SIG_NUL_WORD, "full_scores looks up a word containing a NUL byte as its C-string prefix"))
            else:
                fails.append(("python:full_scores!=typed:" + tag, "full_scores %s, typed FullScore chain %s" % (c["fs"][:6], exp[:6])))
        total = f32_sum([p for p, _, _ in c["fs"]])
        if c["score"] != total:
            if nul and bos and eos and c["score"] == f32_sum([p for p, _, _ in expected_fs(chains, i, toks_prefix, True, True)]):
                fails.append((SIG_NUL, "score(bos=True,eos=True)=%s scores the C-string prefix, sum(full_scores)=%s" % (c["score"], total)))
            else:
                fails.append(("python:score!=sum(full_scores):" + tag, "score=%s, float32 sum of full_scores=%s" % (c["score"], total)))
        if len(c["fs"]) != len(toks) + (1 if eos else 0):
            fails.append(("python:full_scores:length:" + tag, "full_scores yields %d entries for %d words" % (len(c["fs"]), len(toks))))
        if "st" in c:
            if c["st"] != total:
                fails.append(("python:stateful-total!=sum(full_scores):" + tag, "BaseScore loop total=%s, sum(full_scores)=%s" % (c["st"], total)))
            for k, (b, f) in enumerate(zip(c["bfs"], c["fs"])):
                if b[:3] != f or b[3] != f[0]:
                    fails.append(("python:BaseFullScore!=full_scores:" + tag, "word %d: BaseFullScore/BaseScore %s vs full_scores %s" % (k, b, f)))
                    break
        for key in [k for k in chains if k[0] == i]:
            if chains[key][1] != "ok":
                fails.append(("virtual-interface!=typed", chains[key][1]))
        for name, b in c.get("lm", {}).items():
            if b != c["score"]:
                fails.append(("python:Config.load_method:" + name, "score %s under load method %s, %s by default" % (b, name, c["score"])))
    # perplexity = 10 ** -(average log10 probability including </s>)
    tt = obs["combos"][0]
    n = len(toks) + 1
    want = 10.0 ** (-f_of_bits(f32_sum([p for p, _, _ in tt["fs"]])) / n)
    got = float.fromhex(obs["ppl"])
    if not (got == want or abs(got - want) <= 1e-12 * max(abs(want), 1e-300)):
        via_score = 10.0 ** (-f_of_bits(tt["score"]) / n)
        if nul and (got == via_score or abs(got - via_score) <= 1e-12 * abs(via_score)):
            fails.append((SIG_NUL, "perplexity is computed from the fast-path score"))
        else:
            fails.append(("python:perplexity", "perplexity=%r, 10**-(sum/n)=%r (n=%d)" % (got, want, n)))
    # a str sentence is its UTF-8 bytes: every entry point must answer exactly as for the bytes object
    if "str" in obs:
        t = obs["str"]
        for (bos, eos), cb, ct in zip(COMBOS, obs["combos"], t["combos"]):
            tag = "bos=%d:eos=%d" % (bos, eos)
            if ct["score"] != cb["score"]:
                fails.append(("python:str-input!=bytes-input:score:" + tag, "score(str)=%s, score(bytes)=%s" % (ct["score"], cb["score"])))
            if ct["fs"] != cb["fs"]:
                fails.append(("python:str-input!=bytes-input:full_scores:" + tag, "full_scores(str)=%s, full_scores(bytes)=%s" % (ct["fs"][:6], cb["fs"][:6])))
        if t["contains"] != obs["contains"]:
            fails.append(("python:str-input!=bytes-input:__contains__", "`word in model` differs between str and bytes words"))
        got_t = float.fromhex(t["ppl"])
        # perplexity of the str sentence against the specification directly: words are counted the model's way
        want_t = 10.0 ** (-f_of_bits(f32_sum([p for p, _, _ in t["combos"][0]["fs"]])) / n)
        if not (got_t == want_t or abs(got_t - want_t) <= 1e-12 * max(abs(want_t), 1e-300)):
            via_score = 10.0 ** (-f_of_bits(t["combos"][0]["score"]) / n)
            if nul and (got_t == via_score or abs(got_t - via_score) <= 1e-12 * abs(via_score)):
                fails.append((SIG_NUL, "perplexity is computed from the fast-path score"))
            else:
                fails.append(("python:perplexity:str-input", "perplexity(str)=%r, 10**-(sum of the %d per-word log probabilities / %d)=%r" % (got_t, n, n, want_t)))
    def inv(ts):
        return [1 if int(chains[(i, ts, 1)][0][k][0]) != 0 else 0 for k in range(len(ts))]
    if obs["contains"] != inv(toks):
        if nul and obs["contains"] == inv(toks_c):
            fails.append((SIG_NUL_WORD, "`word in model` looks up a word containing a NUL byte as its C-string prefix"))
        else:
            fails.append(("python:__contains__", "word in model disagrees with the typed vocabulary"))
    return fails


def run_query(query, model, sentences, null_context):
    """bin/query -v word -v sentence; returns {sentence index: (words [(len, prob, oov)], total)} for newline-free sentences"""
    idx = [i for i, s in enumerate(sentences) if b"\n" not in s]
    data = b"".join(sentences[i] + b"\n" for i in idx)
    cmd = ["timeout", "120", query] + (["-n"] if null_context else []) + ["-v", "word", "-v", "sentence", model]
    rc, out, err = vlib.sh(cmd, input=data, timeout=150, binary=True)
    if rc != 0:
        return None, "query exited %d: %s" % (rc, err[-300:].decode("utf-8", "replace"))
    lines = out.split(b"\n")
    if lines and lines[-1] == b"":
        lines.pop()
    if len(lines) != len(idx):
        return None, "query printed %d lines for %d sentences" % (len(lines), len(idx))
    res = {}
    for i, l in zip(idx, lines):
        f = l.split(b"\t")
        m = re.match(rb"Total: (\S+) OOV: (\d+)$", f[-1])
        if not m:
            return None, "unparsable query line %r" % l[:200]
        words = []
        for w in f[:-1]:
            surface_id, ln, pr = w.rsplit(b" ", 2)
            wid = int(surface_id.rsplit(b"=", 1)[1])
            words.append((int(ln), float(pr), 1 if wid == 0 else 0))
        res[i] = (words, float(m.group(1)), int(m.group(2)))
    return res, None


def close32(a, b):
    return bits_of_f(a) == bits_of_f(b) or abs(a - b) <= 2e-6 * max(1.0, abs(a), abs(b))


def oracle_query(s, chains, i, q, null_context):
    """the query tool's printed decimals against the typed chain (float32 tolerance): together with the bit-exact
    python-vs-typed comparison this is `score equals, to float32 rounding, what the query tool reports`"""
    toks = variants(s)[0]
    words, total, oov = q
    exp = expected_fs(chains, i, toks, not null_context, not null_context)
    fails = []
    if [(n, o) for _, n, o in exp] != [(n, o) for n, _, o in words] or not all(close32(f_of_bits(p), pr) for (p, _, _), (_, pr, _) in zip(exp, words)):
        fails.append(("query-tool!=typed:per-word", "query prints %s, typed chain %s" % (words[:6], exp[:6])))
    if not close32(f_of_bits(f32_sum([p for p, _, _ in exp])), total):
        fails.append(("query-tool!=typed:total", "query Total %r, typed sum %r" % (total, f_of_bits(f32_sum([p for p, _, _ in exp])))))
    if oov != sum(o for _, _, o in exp):
        fails.append(("query-tool!=typed:oov-count", "query OOV %d" % oov))
    return fails


# ---------------------------------------------------------------------------------------------
def make_models(ctx, drv, rng, thorough):
    """[(label, arpa path, model path, type argument for the typed driver)]"""
    arpas = [("test.arpa", os.path.join(vlib.REPO, "lm", "test.arpa")), ("test_nounk.arpa", os.path.join(vlib.REPO, "lm", "test_nounk.arpa"))]
    g = os.path.join(ctx.scratch, "gen.arpa")
    gen_arpa(rng, g)
    arpas.append(("gen.arpa", g))
    out = []
    for k, (name, path) in enumerate(arpas):
        out.append((name + ":arpa", path, path, "0"))      # the Python module loads ARPA text as PROBING
        types = list(range(6)) if (thorough or k == 0) else sorted({0, rng.range(1, 5), rng.range(2, 5)})
        for t in types:
            b = os.path.join(ctx.scratch, "%s.%d.bin" % (name, t))
            rc, o, e = vlib.sh([drv, "--build", path, str(t), b], timeout=120)
            if rc != 0 or not os.path.exists(b):
                raise vlib.InfraError("cannot build %s binary of %s: %s %s" % (TYPE_NAMES[t], name, o[-300:], e[-300:]))
            out.append(("%s:%s" % (name, TYPE_NAMES[t]), path, b, "auto"))
    return out


def check_model(ctx, label, arpa, model, mtype, sentences, drv, extdir, query, ocaml, results, pyobs, session):
    chains, err = run_typed(drv, model, mtype, sentences)
    if err:
        raise vlib.InfraError(err)
    qs = {}
    for null_context, ci in ((False, 0), (True, 3)):
        q, err = run_query(query, model, sentences, null_context)
        if err:
            ctx.report("query-tool:failed", err, {"model": label, "arpa": arpa}, found=True)
            q = {}
        qs[ci] = q
    arpa_text = open(arpa, "rb").read().decode("latin-1") if arpa.startswith(ctx.scratch) else None
    mlines = [model_line(s, chains, i) for i, s in enumerate(sentences)]
    mout = vlib.run_lines(ocaml, mlines) if ocaml else None
    for i, s in enumerate(sentences):
        fails = oracle(s, pyobs[i], chains, i)
        for ci in (0, 3):
            if i in qs[ci]:
                fails += oracle_query(s, chains, i, qs[ci][i], ci == 3)
                results["query_compared"] += 1
        results["evaluations"] += 4
        case = {"session": session, "model": label, "arpa": os.path.relpath(arpa, vlib.REPO) if arpa.startswith(vlib.REPO + os.sep) else arpa, "arpa_text": arpa_text,
                "sentence_hex": hx(s), "sentence_repr": repr(s)[:200]}
        for sig, what in fails:
            results["spec_fail"] += 0 if sig in (SIG_NUL, SIG_NUL_WORD) else 1
            ctx.report(sig, what, dict(case, observed=pyobs[i] if len(json.dumps(pyobs[i])) < 4000 else "large"))
        toks = ref_split(s)
        if len(toks) >= 2 or s != s.strip(b" ") or b"\x00" in s:
            results["nontrivial"].add((label, s))
        if mout is not None:
            segs = mout[i].split(" ; ")
            want = py_line(pyobs[i])
            ok = len(segs) == 6
            if ok:
                for k in range(4):
                    a = segs[1 + k]
                    if "st" not in pyobs[i]["combos"][k]:
                        a = re.sub(r"st=\S+$", "st=n/a", a)
                    ok = ok and a == want[k]
                m = re.match(r"ppl=([0-9a-f]+)/(\d+)$", segs[5])
                if m:
                    w = 10.0 ** (-f_of_bits(m.group(1)) / int(m.group(2)))
                    g = float.fromhex(pyobs[i]["ppl"])
                    ok = ok and (w == g or abs(w - g) <= 1e-12 * abs(w))
                else:
                    ok = False
            if not ok:
                results["mismatch"].append((case, mout[i][:1500], " ; ".join(want)[:1500]))
            else:
                results["validated"] += 1
        if len(ctx.coverage["samples"]) < 6 and (i % 17 == 3):
            ctx.sample({"model": label, "sentence": repr(s)[:120], "python": pyobs[i]["combos"][0], "model_line": (mout[i][:300] if mout else None)})


def run(ctx):
    regenerate()
    pres = vlib.coq_prove("C14")
    ctx.set_proof(pres)
    rng = ctx.rng
    thorough = not ctx.quick
    # tie between the anchored .pyx and the compiled .cpp
    bad, blocks, covered, missing = pyx_embedded_check()
    ctx.coverage["pyx_comment_blocks_checked"] = blocks
    ctx.coverage["pyx_lines_confirmed_in_cpp"] = covered
    ctx.coverage["pyx_model_code_lines_without_comment"] = missing[:20]
    if bad or blocks < 50:
        ctx.report("tie:kenlm.pyx-vs-kenlm.cpp", "python/kenlm.cpp no longer embeds python/kenlm.pyx line for line: the compiled module is not the anchored source "
                   "(no Cython here to regenerate it)", {"differences": bad[:10], "blocks": blocks}, found=False)
    extdir = build_pyext()
    drv = vlib.compile_driver("c14_driver", DRV)
    query = vlib.tool("query")
    try:
        ocaml = vlib.ocaml_model("C14")
        model_broken = None
    except vlib.ModelBroken as e:
        ocaml, model_broken = None, str(e)
    models = make_models(ctx, drv, rng, thorough)
    results = {"evaluations": 0, "spec_fail": 0, "nontrivial": set(), "mismatch": [], "validated": 0, "query_compared": 0}
    corpus = []
    cp = os.path.join(vlib.ROOT, "corpus", "C14", "sentences.txt")
    if os.path.exists(cp):
        corpus = [bytes.fromhex(l.strip()) if l.strip() != "-" else b"" for l in open(cp) if l.strip() and not l.startswith("#")]
    ctx.count("corpus_cases", len(corpus))
    per_model = []
    for label, arpa, model, mtype in models:
        grams = parse_arpa(arpa)
        sentences = corpus + gen_sentences(rng.fork(), grams, ctx.pick(25, 2500))
        seen, ss = set(), []
        for s in sentences:
            if s not in seen:
                seen.add(s); ss.append(s)
        per_model.append(ss)
    # ONE interpreter holds every model (all types of every ARPA file), loaded in a seed-dependent order; the calls of the
    # different models are interleaved in random order, so state that a binding keeps per process rather than per model shows
    order = list(range(len(models)))
    rng.shuffle(order)
    specs = [models[k][2] + ("+lm" if (models[k][0].endswith("probing") or models[k][0].endswith(":trie")) else "") for k in order]
    jobs = [(pos, i) for pos, k in enumerate(order) for i in range(len(per_model[k]))]
    rng.shuffle(jobs)
    session = {"load_order": [models[k][0] for k in order], "first_scored": models[order[jobs[0][0]]][0] if jobs else None}
    obs, err = run_pyside_session(extdir, specs, [(pos, per_model[order[pos]][i]) for pos, i in jobs])
    if err:
        ctx.report("python:extension-died", err, {"session": session}, found=True)
        obs = None
    ctx.coverage["models_in_one_interpreter"] = len(models)
    ctx.coverage["first_model_scored"] = session["first_scored"]
    if obs is not None:
        by_model = [[None] * len(ss) for ss in per_model]
        for (pos, i), o in zip(jobs, obs):
            by_model[order[pos]][i] = o
        for k, (label, arpa, model, mtype) in enumerate(models):
            check_model(ctx, label, arpa, model, mtype, per_model[k], drv, extdir, query, ocaml, results, by_model[k], session)
    ctx.count("evaluations", results["evaluations"])
    ctx.coverage["distinct_nontrivial"] = len(results["nontrivial"])
    ctx.coverage["traces_validated_against_impl"] = results["validated"]
    ctx.coverage["query_tool_comparisons"] = results["query_compared"]
    ctx.coverage["models"] = [m[0] for m in models]
    ctx.coverage["rule"] = ("every model file (lm/test.arpa, lm/test_nounk.arpa, a generated order-3 ARPA with UTF-8 words and dyadic probabilities; as ARPA text "
                            "and as binary of the six types) x sentences (empty, all-whitespace, each ASCII whitespace byte as separator / leading / trailing, "
                            "OOV, vocabulary words of 254..257 / 1000 / 4095..4097 / 65535..65537 / 70000 bytes and UTF-8 words straddling byte 255/256, <s> </s> <unk> inside, invalid UTF-8, every non-ASCII str.isspace() character between two words, 1000-byte word, 200 words, NUL at every position class, "
                            "random joins of the model's own n-grams with random whitespace) x bos/eos in {T,F}^2; all model files are loaded into ONE interpreter in a seed-dependent order and their calls interleaved at random; every valid-UTF-8 sentence is given to score / full_scores / perplexity / `in` both as bytes and as str.  evaluations = sentence x model x combination.  "
                            "Non-trivial: >= 2 tokens, or leading/trailing whitespace, or a NUL byte; distinct = distinct (model, sentence).")
    ctx.coverage["spec_oracle_failures"] = results["spec_fail"]
    ctx.coverage["correspondence_mismatches"] = len(results["mismatch"])
    ctx.assumptions += ["CPython/Cython glue (reference counting, bytes -> char*) is exercised, not modelled",
                        "python/kenlm.cpp is tied to python/kenlm.pyx by the embedded-source-comment check (Cython is not installed)",
                        "float32 addition is emulated as double addition rounded once (innocuous double rounding for binary32 in binary64)",
                        "the per-word scoring function of the extracted model is the table recorded from the typed C++ classes for the histories of the case",
                        "extraction (ExtrOcamlBasic only), the OCaml and C++ drivers and the Python harness are trusted"]
    if not ctx.violations:
        if results["mismatch"]:
            case, a, b = results["mismatch"][0]
            ctx.report("correspondence:python-module-vs-model", "extracted model (over the typed C++ scores) and the Python module disagree; the specification "
                       "oracle accepts the module's answers", dict(case, model=a, python=b, n_mismatches=len(results["mismatch"])), found=False)
        elif model_broken:
            ctx.report("model-broken", "executable model no longer builds", {"log": model_broken[-2000:]}, found=False)
        ctx.report_proof(pres)
    kspaces_gen.report_translation(ctx, TRANSLATION_ERROR)


def replay(ctx, obj):
    """rebuilds every model type of the case's ARPA file, loads them all into one interpreter (the other types first, as a
    process-wide state needs) and applies the oracles to the sentence on each of them"""
    r = obj["replay"]
    drv = vlib.compile_driver("c14_driver", DRV)
    extdir = build_pyext()
    query = vlib.tool("query")
    arpa = r["arpa"] if os.path.isabs(r["arpa"]) else os.path.join(vlib.REPO, r["arpa"])
    if r.get("arpa_text"):
        arpa = os.path.join(ctx.scratch, "replay.arpa")
        open(arpa, "wb").write(r["arpa_text"].encode("latin-1"))
    name, _, kind = r["model"].partition(":")
    files = [("arpa", arpa, "0")]
    for t in range(6):
        b = os.path.join(ctx.scratch, "replay.%d.bin" % t)
        vlib.sh([drv, "--build", arpa, str(t), b], timeout=120, check=True)
        files.append((TYPE_NAMES[t], b, "auto"))
    # the reported model last, the model that was scored first in the failing session first
    first = (r.get("session") or {}).get("first_scored", "").partition(":")[2]
    files.sort(key=lambda f: (f[0] == kind, f[0] != first))
    s = bytes.fromhex(r["sentence_hex"]) if r["sentence_hex"] != "-" else b""
    obs, err = run_pyside_session(extdir, [f[1] for f in files], [(k, s) for k in range(len(files))])
    if err:
        print(err); return 1
    bad = 0
    print("sentence:", repr(s))
    for (k, model, mtype), o in zip(files, obs):
        chains, err = run_typed(drv, model, mtype, [s])
        fails = oracle(s, o, chains, 0)
        for nc, ci in ((False, 0), (True, 3)):
            q, err = run_query(query, model, [s], nc)
            if q and 0 in q:
                fails += oracle_query(s, chains, 0, q[0], nc)
        fails = [(sig, what) for sig, what in fails if sig not in (SIG_NUL, SIG_NUL_WORD)]
        print("model:", name + ":" + k, "score TT:", o["combos"][0]["score"], "sum(full_scores) TT:", f32_sum([p for p, _, _ in o["combos"][0]["fs"]]))
        for sig, what in fails:
            print("  ORACLE:", sig, what)
        bad += len(fails)
    import shutil
    shutil.rmtree(ctx.scratch, ignore_errors=True)
    return 1 if bad else 0
