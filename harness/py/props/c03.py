"""C03 -- all model data structures are observationally equivalent (and independent of build parameters)."""
import os
import shutil

import vlib
import lmcommon as lc
from props import c01

DRV = os.path.join(vlib.ROOT, "harness", "drivers", "lmq.cc")


def transcript(line, quant=False, probs_only=False):
    items = lc.parse_line(line, True)
    out = []
    for it in items:
        if probs_only:
            out.append((it["fs"][0], it["ff"][0]))
        elif quant:
            out.append(tuple(c01.strip_values(k, it[k]) for k in ("fs", "st", "ff", "fst", "gs")))
        else:
            out.append(tuple(it[k] for k in ("fs", "st", "ff", "fst", "gs")))
    return out


def lossless_bits(m):
    """the smallest (prob_bits, backoff_bits) for which the quantiser has a bin of its own for every value it is trained on: every order
    fewer entries (blanks allowed for: x2 + 2) than probability bins, every middle order fewer NON-ZERO back-offs than back-off value bins
    (2^b - 2: zero back-offs use the two reserved codes and are not trained on -- fifth-round seeded change C03-13 fed them in)"""
    ent = max([len(m.file_order.get(n, [])) for n in range(2, m.order + 1)] + [1])
    nzb = max([sum(1 for k in m.file_order.get(n, []) if m.grams[k]["bo"] != 0) for n in range(2, m.order)] + [0])
    pb = next(b for b in range(2, 26) if ent * 2 + 2 < (1 << b))
    bb = next(b for b in range(2, 26) if nzb * 2 + 2 < (1 << b) - 2)
    return pb, bb


def param_variants(rng, typ, thorough, m=None):
    v = [[]]
    if typ in ("qtrie", "qatrie") and m is not None and getattr(m, "raw_arpa", None) is None:
        v += [["probbits=%d" % lossless_bits(m)[0], "backoffbits=%d" % lossless_bits(m)[1]]]
    if typ in ("probing", "rest"):
        v += [["mult=%s" % rng.choice(["1.01", "1.1", "1.5", "2", "3", "10"])]]
        if thorough:
            v += [["mult=1.001"], ["mult=5"]]
    if typ in ("atrie", "qatrie"):
        v += [["bhiksha=%d" % rng.choice([0, 1, 2, 3, 5, 8, 22, 25, 57, 58, 64, 255])]]
        if thorough:
            v += [["bhiksha=%d" % b] for b in (0, 1, 4, 25)]
    if typ in ("qtrie", "qatrie"):
        v += [["probbits=%d" % rng.range(2, 25), "backoffbits=%d" % rng.range(2, 25)]]
    if typ not in ("probing", "rest"):
        v += [["building_memory=%d" % rng.choice([1, 1 << 20, 1 << 24])]]
    return v


def bhiksha_stream(ctx, stats):
    """trie::ArrayBhiksha driven directly: model (extracted) vs implementation, and the round-trip oracle"""
    rng = ctx.rng
    drv = vlib.compile_driver("c03_bhiksha", os.path.join(vlib.ROOT, "harness", "drivers", "c03_bhiksha.cc"))
    model = vlib.ocaml_model("C03")
    cases = []
    for _ in range(ctx.pick(400, 6000)):
        n = rng.choice([2, 3, rng.range(2, 40), rng.range(40, 400)])
        style = rng.below(4)
        top = rng.choice([1, 5, 100, 5000, 1 << 20])
        if style == 0:
            vs = sorted(rng.below(top + 1) for _ in range(n))
        elif style == 1:                      # one node with a huge child range, flat elsewhere
            j = rng.below(n)
            vs = [0 if i <= j else top for i in range(n)]
        elif style == 2:                      # steps landing exactly on block boundaries
            step = 1 << rng.range(0, 8)
            vs = [min(top, (i // rng.range(1, 4)) * step) for i in range(n)]
            vs.sort()
        else:
            vs = sorted(rng.choice([0, top // 2, top]) for _ in range(n))
        if vs[-1] == 0:
            vs[-1] = 1
        cfg = rng.choice([0, 1, 2, 3, 5, 8, 22, 25, 64])
        cases.append("BH %x %s" % (cfg, " ".join("%x" % v for v in vs)))
    iout = vlib.run_lines(drv, cases)
    mout = vlib.run_lines(model, cases)
    problems = []
    stats["bhiksha_cases"] = len(cases)
    for c, a, b in zip(cases, iout, mout):
        vs = [int(x, 16) for x in c.split()[2:]]
        f = a.split()
        exp = ["%x:%x" % (vs[i], vs[i + 1]) for i in range(len(vs) - 1)]
        if f[2:] != exp:
            problems.append(("spec:bhiksha-roundtrip", "ArrayBhiksha decodes %s..., stored %s..." % (" ".join(f[2:6]), " ".join(exp[:4])), {"case": c[:600], "impl": a[:300]}, True))
        elif a != b:
            problems.append(("correspondence:bhiksha", "implementation %s, model %s" % (a[:200], b[:200]), {"case": c[:600]}, False))
    return problems


def image_stream(ctx, stats, lmq):
    """the bytes of the search structure of a `trie` / `trie -a` / `probing` binary file against the extracted layout models
    (coq/C03/TrieLayout.v, TrieMem.v, TrieImage.v: forest of the loaded trie table -> depth-first build -> bit-packed arrays over the
    generated routines, offset tables of C03/BhikshaModel.v; coq/C03/ProbingImage.v: unigram array + linear-probing tables keyed by the
    64-bit n-gram hash, entries in ReadNGrams/FindLower order, placement by C20/ProbingModel.v); when the bytes differ, every n-gram of the model is queried on the
    written file and compared with the model's answers to look for a behavioural difference"""
    rng = ctx.rng
    exe = vlib.ocaml_model("C01")
    problems = []
    n = 1 if ctx.replay_model else ctx.pick(10, 150)
    stats["image_files"] = 0
    stats["image_bytes"] = 0
    for mi in range(n):
        m = ctx.replay_model or lc.gen_model(rng, max_order=ctx.pick(5, 6), max_vocab=rng.choice([6, 12, 12, 20, 30]), hub=(mi % 5 == 3))
        if len(m.grams) > 700:
            continue
        sess = lc.Session(ctx, m, "img%d" % mi)
        base = {"arpa": m.arpa_bytes().decode("latin-1"), "vocab": m.vocab_bytes().decode("latin-1")}
        for typ, kd, cfg in (("trie", "T", 0), ("atrie", "A", rng.choice([64, 255, 22])), ("atrie", "A", rng.choice([0, 1, 2, 3, 5, 8])),
                             ("probing", "P", rng.choice(["1.5", "1.2", "2", "3", "7.5"]))):
            binf = os.path.join(sess.dir, "%s.%s.bin" % (typ, cfg))
            opts = ["bhiksha=%d" % cfg] if kd == "A" else ["mult=%s" % cfg] if kd == "P" else []
            cmd = [lmq, sess.arpa, typ, sess.vocab, "tmp=" + sess.dir + "/", "write_mmap=" + binf, "include_vocab=0"] + opts
            rc, out, err = vlib.sh(cmd, input=b"IDS\n", timeout=120)
            res = out.split("\n")
            stats["impl_runs"] += 1
            if not res[0].startswith("loaded") or len(res) < 2:
                continue
            ids = [int(x, 16) for x in res[1].split()]
            if len(ids) < len(m.vocab):
                continue
            def mp(w): return ids[w]
            ls = ["MODEL %d %d %s %s" % (m.order, 1 if m.saw_unk else 0, lc.shex(-100 * lc.UNIT), ",".join(str(b) for b in m.buckets(float(cfg) if kd == "P" else 1.5))), "BOS %x" % mp(m.bos)]
            for k in m.file_order.get(1, []):
                g = m.grams[k]
                ls.append("U %x %s %s %d" % (mp(k[0]), lc.shex(g["prob"]), lc.shex(g["bo"]), 1 if (g["pz"] and g["prob"] == 0) else 0))
            for o in range(2, m.order + 1):
                for k in m.file_order.get(o, []):
                    g = m.grams[k]
                    ls.append("G %d %s %s %s" % (o, ",".join("%x" % mp(w) for w in k), lc.shex(g["prob"]), lc.shex(g["bo"] if o < m.order else 0)))
            ls.append("END")
            ls.append("PIMG %d" % (len(m.file_order.get(1, [])) + 1) if kd == "P" else "IMG %s %x" % (kd, cfg))
            qs = lc.ngram_queries(m)
            for b, ws in qs:
                ls.append("S %s %d %s" % ("P" if kd == "P" else "T", b, " ".join("%x" % mp(w) for w in ws)))
            mo = vlib.run_lines(exe, ls)
            img = mo[len(ls) - len(qs) - 1]
            if not (img.startswith("walk=") or img.startswith("img ")):
                continue                      # the model rejects the file (missing context, table full ...): nothing to lay out
            chk, _, hx = img.partition(" ")
            if kd == "P":
                chk = "walk=1"
            mb = bytes.fromhex(hx)
            fb = open(binf, "rb").read()
            stats["image_files"] += 1
            stats["image_bytes"] += len(mb)
            rq = dict(base, type=typ, opts=opts + ["include_vocab=0"], stream="trie-image")
            if chk != "walk=1":
                problems.append(("model:trie-walk-check", "the walk over the model's own trie memory does not find the entries of the model's table", rq, False))
            tail = fb[len(fb) - len(mb):] if len(fb) >= len(mb) else b""
            if tail == mb:
                continue
            first = next((i for i in range(len(mb)) if i >= len(tail) or tail[i] != mb[i]), 0)
            what = ("search structure of the %s file differs from the layout model at byte %d of %d (file %s..., model %s...)"
                    % (typ, first, len(mb), tail[first:first + 16].hex(), mb[first:first + 16].hex()))
            # look for a behavioural difference: every n-gram of the model, on the written file
            r2 = sess.run_impl(lmq, typ, qs, model_file=binf)
            stats["impl_runs"] += 1
            bad = None
            if not r2["head"].startswith("loaded") or len(r2["lines"]) != len(qs):
                bad = ("the written file does not load / answer: %s" % r2["head"][:100], None)
            else:
                for (b, ws), il, ml in zip(qs, r2["lines"], mo[len(ls) - len(qs):]):
                    try:
                        pi, pm = lc.parse_line(il, True), lc.parse_line(ml, False)
                    except Exception:
                        continue
                    vi = [(x["fs"], x["ff"]) for x in pi]
                    vm = [(x["fs"], x["ff"]) for x in pm]
                    if vi != vm:
                        bad = ("scores of the written file differ from the model on an n-gram of the model", (b, ws))
                        break
            if bad:
                problems.append(("spec:trie-image:" + typ, what + "; " + bad[0], dict(rq, query=bad[1]), True))
            else:
                problems.append(("correspondence:trie-image:" + typ, what, rq, False))
        shutil.rmtree(sess.dir, ignore_errors=True)
    return problems


def quant_stream(ctx, stats):
    """lm::ngram::SeparatelyQuantize driven directly (SetupMemory, Train, MiddlePointer::Write/Prob/Backoff) against the
    extracted rational model of coq/C03/QuantModel.v.  Back-off bits >= 2 here: one back-off bit is finding F6."""
    import struct
    from fractions import Fraction
    rng = ctx.rng
    drv = vlib.compile_driver("c03_bhiksha", os.path.join(vlib.ROOT, "harness", "drivers", "c03_bhiksha.cc"))
    model = vlib.ocaml_model("C03")
    cases = []
    for _ in range(ctx.pick(300, 5000)):
        pb = rng.choice([1, 1, 2, 3, 4, rng.range(1, 6)])
        bb = rng.choice([2, 2, 3, 4, rng.range(2, 5)])
        npv = rng.choice([0, 1, 2, rng.range(1, 8), rng.range(4, 40), (1 << pb), (1 << pb) + 1, 2 * (1 << pb) - 1])
        nbv = rng.choice([0, 1, rng.range(1, 8), rng.range(4, 40), (1 << bb) - 2, (1 << bb) - 1])
        spread = rng.choice([3, 10, 200, 4000])
        few = rng.below(3) == 0             # few distinct values, many repeats: the shape of F5
        pool = [-(1 + rng.below(spread)) for _ in range(rng.range(1, 4))]
        probs = [(rng.choice(pool) if few else -rng.below(spread + 1)) for _ in range(npv)]
        bpool = [rng.choice([-1, 1]) * (1 + rng.below(spread)) for _ in range(rng.range(1, 4))]
        backs = [(rng.choice(bpool) if few else rng.choice([-1, -1, -1, 1]) * (1 + rng.below(spread))) for _ in range(nbv)]
        tests = []
        for _t in range(rng.range(1, 10)):
            tp = rng.choice(probs) if probs and rng.below(3) else -rng.below(spread + 8)
            tb = 0 if rng.below(4) == 0 else (rng.choice(backs) if backs and rng.below(3) else rng.choice([-1, 1]) * (1 + rng.below(spread + 8)))
            tests.append("%d:%d" % (tp, tb))
        cases.append("QZ %d %d ; %s ; %s ; %s" % (pb, bb, " ".join(map(str, probs)), " ".join(map(str, backs)), " ".join(tests)))
    iout = vlib.run_lines(drv, cases)
    mout = vlib.run_lines(model, cases)

    def fl(h):
        v = struct.unpack("<f", struct.pack("<I", int(h, 16)))[0]
        if v != v: return "nan"
        if v in (float("inf"), float("-inf")): return "-inf" if v < 0 else "+inf"
        return Fraction(v)

    def mq(t):
        if t == "-inf": return t
        a, b = t.split("/")
        return Fraction(int(a, 16), int(b, 16))

    def close(a, b):
        if isinstance(a, str) or isinstance(b, str): return a == b
        return abs(a - b) <= abs(b) / (1 << 22)

    def split(line, conv2):
        f = line.split()
        ip, ib, ir = f.index("P"), f.index("B"), f.index("R")
        return f[ip + 1:ib], f[ib + 1:ir], f[ir + 1:]

    problems = []
    stats["quant_cases"] = len(cases)
    stats["quant_values_written"] = 0
    stats["quant_near_ties_skipped"] = 0
    stats["quant_exact_readbacks"] = 0
    second = []
    stats["quant_lossless_claim_failures"] = 0      # F5 seen through the direct interface (reported by the corpus case)
    for c, a, b in zip(cases, iout, mout):
        try:
            aP, aB, aR = split(a, None); bP, bB, bR = split(b, None)
        except ValueError:
            problems.append(("correspondence:quant", "unparsable answer: implementation %r, model %r" % (a[:120], b[:120]), {"case": c[:800]}, False))
            continue
        iP, iB = [fl(x) for x in aP], [fl(x) for x in aB]
        mP, mB = [mq(x) for x in bP], [mq(x) for x in bB]
        if len(iP) != len(mP) or len(iB) != len(mB) or not all(close(x, y) for x, y in zip(iP + iB, mP + mB)):
            problems.append(("correspondence:quant-tables", "MakeBins centres differ: implementation %s | %s, model %s | %s" % (iP[:6], iB[:6], mP[:6], mB[:6]), {"case": c[:800]}, False))
            continue
        parts = c.split(" ; ")
        pb = int(parts[0].split()[1])
        probs = [int(x) for x in parts[1].split()]
        tests = parts[3].split()
        # second pass: the model encodes against the implementation's own (float) centres, so the only float effect left is the
        # rounding of the two subtractions in `value - lo < hi - value`
        def cs(v): return v if isinstance(v, str) else "%x/%x" % (v.numerator, v.denominator) if v >= 0 else "-%x/%x" % (-v.numerator, v.denominator)
        second.append((c, "QE %s ; %s ; %s ; %s" % (parts[0].split()[2], " ".join(cs(v) for v in iP), " ".join(cs(v) for v in iB), parts[3]), iP, iB, aR))
        for t, ar, br in zip(tests, aR, bR):
            x = Fraction(int(t.split(":")[0]), 64)
            ip_ = fl(ar.split(":")[0])
            if int(t.split(":")[0]) in probs and len(set(probs)) <= (1 << pb) and ip_ != x:
                stats["quant_lossless_claim_failures"] += 1
            # oracle from the property text: the two zero back-offs stay zero, a non-zero back-off never becomes one of them by code
    def f32(fr):
        return Fraction(struct.unpack("<f", struct.pack("<f", float(fr)))[0])
    eout = vlib.run_lines(model, [q for _, q, _, _, _ in second])
    for (c, q, iP, iB, aR), e in zip(second, eout):
        ef = e.split()
        tests = c.split(" ; ")[3].split()
        if not ef or ef[0] != "R" or len(ef) - 1 != len(tests) or len(aR) != len(tests):
            problems.append(("correspondence:quant-encode", "unparsable answer: implementation %r, model %r" % (aR[:6], e[:120]), {"case": c[:800]}, False))
            continue
        for t, ar, er in zip(tests, aR, ef[1:]):
            stats["quant_values_written"] += 1
            x, xb = [Fraction(int(v), 64) for v in t.split(":")]
            ip_, ib_ = [fl(v) for v in ar.split(":")]
            (pc, mp_), (bc, mb_) = [(int(v.split("=")[0]), mq(v.split("=")[1])) for v in er.split(":")]
            for what, xv, iv, mv, code, table in (("prob", x, ip_, mp_, pc, iP), ("backoff", xb, ib_, mb_, bc, iB)):
                if iv == mv:
                    if not isinstance(iv, str) and iv == xv: stats["quant_exact_readbacks"] += 1
                    continue
                # the model chose the lower neighbour (exact distances) where float subtraction rounds both distances to the same value
                if what == "backoff" and xv == 0:
                    pass
                elif code + 1 < len(table) and not isinstance(table[code], str) and iv == table[code + 1] and \
                        xv - table[code] < table[code + 1] - xv and f32(xv - table[code]) == f32(table[code + 1] - xv):
                    stats["quant_near_ties_skipped"] += 1
                    continue
                problems.append(("correspondence:quant-encode", "%s %s reads back as %s, the model (on the implementation's centres) says %s" % (what, xv, iv, mv), {"case": c[:800], "pair": t}, False))
            if xb == 0 and ib_ != 0:
                problems.append(("spec:quant-zero-backoff", "zero back-off reads back as %s" % ib_, {"case": c[:800], "pair": t}, True))
            if xb != 0 and bc < 2:
                problems.append(("correspondence:quant-encode", "non-zero back-off %s gets the reserved code %d in the model" % (xb, bc), {"case": c[:800], "pair": t}, False))
    return problems


def run(ctx):
    pres = vlib.coq_prove("C03")
    ctx.set_proof(pres)
    lmq = vlib.compile_driver("lmq", DRV)
    rng = ctx.rng
    stats = {"impl_runs": 0, "param_variants": 0, "scores": 0}
    problems = []
    nmodels = 1 if ctx.replay_model else ctx.pick(25, 800)
    nontrivial = 0
    # corpus first: the minimal witness of finding F5 (bigram probabilities {-2,-1,-1,-1}, 1 bit = 2 bins)
    cm = lc.parse_arpa(open(os.path.join(vlib.ROOT, "corpus", "C03", "f5_q.arpa"), "rb").read())
    cs = lc.Session(ctx, cm, "corpus_f5")
    cq = lc.exhaustive_queries(cm, 3)
    rt = cs.run_impl(lmq, "trie", cq)
    rq = cs.run_impl(lmq, "qtrie", cq, opts=["probbits=1", "backoffbits=8"])
    stats["impl_runs"] += 2
    if rt["head"].startswith("loaded") and rq["head"].startswith("loaded"):
        if [transcript(l) for l in rt["lines"]] != [transcript(l) for l in rq["lines"]]:
            problems.append(("quant:lossless-claim:equal-population-bins", "2 distinct bigram probabilities, 2 bins, yet the quantised trie is lossy",
                             {"arpa": "corpus/C03/f5_q.arpa", "opts": ["probbits=1", "backoffbits=8"]}))
    if not ctx.replay_model:
        # "... the sort memory used while building the trie": a model whose highest order does not fit the builder's minimum sort
        # buffer (several sort batches, every context in more than one) against the default buffer (one batch) and against probing
        dm = lc.gen_dense_model(rng)
        dsess = lc.Session(ctx, dm, "dense")
        dqs = lc.gen_queries(rng, dm, ctx.pick(150, 1500))
        dbase = {"arpa": dm.arpa_bytes().decode("latin-1"), "vocab": dm.vocab_bytes().decode("latin-1"), "generator": "lmcommon.gen_dense_model", "queries": dqs[:20]}
        dref = None
        for typ, opts in (("probing", []), ("trie", []), ("trie", ["building_memory=1048576"]), ("atrie", ["building_memory=1048576"])):
            r = dsess.run_impl(lmq, typ, dqs, opts=opts, timeout=600)
            stats["impl_runs"] += 1
            if not r["head"].startswith("loaded") or len(r["lines"]) != len(dqs):
                problems.append(("crash:dense:" + typ, "the dense multi-batch model does not load / answer: %s %s" % (r["head"][:100], r["err"][-200:]), dict(dbase, type=typ, opts=opts)))
                continue
            stats["dense_model_runs"] = stats.get("dense_model_runs", 0) + 1
            full = [transcript(l, False) for l in r["lines"]]
            if dref is None:
                dref = (full, typ, opts)
            elif dref[0] != full:
                i = next(i for i in range(len(full)) if full[i] != dref[0][i])
                problems.append(("spec:sort-memory-dependence:" + typ, "results of %s %r differ from %s %r on a model sorted in several batches" % (typ, opts, dref[1], dref[2]),
                                 dict(dbase, type=typ, opts=opts, other=dref[1], query=dqs[i])))
        shutil.rmtree(dsess.dir, ignore_errors=True)
    for mi in range(nmodels):
        big = (mi % 6 == 2)
        hub = (mi % 12 == 5)
        m = ctx.replay_model or lc.gen_model(rng, max_order=ctx.pick(5, 6), max_vocab=ctx.pick(8, 40), big=big, hub=hub)
        big = big or hub
        sess = lc.Session(ctx, m, "m%d" % mi)
        qs = lc.gen_queries(rng, m, ctx.pick(30, 120)) + (lc.ngram_queries(m) if big else [])
        # every stored non-zero back-off of order >= 2 is charged at least once: the context followed by a word that does not extend it
        nzk = [k for k in sorted(m.grams) if len(k) >= 2 and m.grams[k]["bo"] != 0]
        rng.shuffle(nzk)
        for k in nzk[:25]:
            ws = [w for w in range(1, len(m.vocab)) if (w,) + k not in m.grams]
            if ws:
                qs.append((0, list(reversed(k)) + [rng.choice(ws)]))
        if big:
            stats["big_models"] = stats.get("big_models", 0) + 1
        base = {"arpa": m.arpa_bytes().decode("latin-1"), "vocab": m.vocab_bytes().decode("latin-1"), "queries": qs[:50]}
        closed = m.suffix_closed()
        ref = {}          # reference transcripts
        for typ in lc.TYPES:
            for opts in param_variants(rng, typ, not ctx.quick, m):
                r = sess.run_impl(lmq, typ, qs, opts=opts)
                stats["impl_runs"] += 1
                stats["param_variants"] += 1 if opts else 0
                if not r["head"].startswith("loaded") or len(r["lines"]) != len(qs):
                    stats["not_accepted"] = stats.get("not_accepted", 0) + 1
                    continue
                quant = typ in ("qtrie", "qatrie")
                full = [transcript(l, quant) for l in r["lines"]]
                # "... or the write method": the same build written to a binary file (either write method) and read back by a
                # program that knows nothing of the build parameters answers the same (bin/query on files built with -a/-p/-q/-b/-S/-w)
                if opts and rng.chance(1, 2):
                    binf = os.path.join(sess.dir, "c03.%s.bin" % typ)
                    wm = rng.choice(["mmap", "after"])
                    wb = sess.run_impl(lmq, typ, qs, opts=list(opts) + ["write_mmap=" + binf, "write_method=" + wm])
                    stats["impl_runs"] += 1
                    if wb["head"].startswith("loaded") and os.path.exists(binf):
                        rb = sess.run_impl(lmq, typ, qs, model_file=binf, opts=[])
                        stats["impl_runs"] += 1
                        stats["binary_roundtrips"] = stats.get("binary_roundtrips", 0) + 1
                        if not rb["head"].startswith("loaded") or rb["lines"] != r["lines"]:
                            problems.append(("spec:write-method-dependence:" + typ, "a binary built with %r (write method %s) and loaded with default settings answers differently from the build itself: %s" % (opts, wm, rb["head"][:80]),
                                             dict(base, type=typ, opts=opts, write_method=wm)))
                        try:
                            os.remove(binf)
                        except OSError:
                            pass
                pr = [transcript(l, probs_only=True) for l in r["lines"]]
                stats["scores"] += sum(len(x) for x in full)
                # (1) parameters never matter within one structure
                k1 = ("struct", typ)
                if quant and any(o.startswith("probbits") for o in opts):
                    k1 = None      # different bit widths legitimately quantise differently
                if k1:
                    if k1 in ref and ref[k1][0] != full:
                        problems.append(("spec:parameter-dependence:" + typ, "results change with build parameters %r vs %r" % (ref[k1][1], opts),
                                         dict(base, type=typ, opts=opts, other=ref[k1][1])))
                    ref.setdefault(k1, (full, opts))
                # (2) probabilities agree across all unquantised structures, always
                if not quant:
                    if "probs" in ref and ref["probs"][0] != pr:
                        problems.append(("spec:prob-differs:%s-vs-%s" % (typ, ref["probs"][1]), "probabilities differ between structures",
                                         dict(base, type=typ, other=ref["probs"][1], opts=opts)))
                    ref.setdefault("probs", (pr, typ))
                    # (3) suffix-closed: everything agrees
                    if closed:
                        if "full" in ref and ref["full"][0] != full:
                            i = next(i for i in range(len(full)) if full[i] != ref["full"][0][i])
                            problems.append(("spec:structure-differs:%s-vs-%s" % (typ, ref["full"][1]), "lengths/flags/states differ between structures on a suffix-closed model",
                                             dict(base, type=typ, other=ref["full"][1], opts=opts, query=qs[i], a=repr(full[i]), b=repr(ref["full"][0][i]))))
                        ref.setdefault("full", (full, typ))
                else:
                    # (5) lossless whenever no order has more values than bins: with the default 8 bits every order of
                    #     these models has fewer entries than bins, so each value gets its own bin
                    pbits = bbits = 8
                    for o in opts:
                        if o.startswith("probbits="):
                            pbits = int(o.split("=")[1])
                        if o.startswith("backoffbits="):
                            bbits = int(o.split("=")[1])
                    only_bits = all(o.startswith(("probbits=", "backoffbits=")) for o in opts)
                    small = all(len(m.file_order.get(n, [])) * 2 + 2 < (1 << pbits) for n in range(2, m.order + 1)) and \
                        all(sum(1 for k in m.file_order.get(n, []) if m.grams[k]["bo"] != 0) * 2 + 2 < (1 << bbits) - 2 for n in range(2, m.order))
                    if small and only_bits and opts:
                        stats["quant_lossless_variants"] = stats.get("quant_lossless_variants", 0) + 1
                    if only_bits and small and ("struct", "trie") in ref:
                        exact = [transcript(l, False) for l in r["lines"]]
                        if exact != ref[("struct", "trie")][0]:
                            problems.append(("spec:quant-lossless:" + typ, "quantised trie differs from the trie although every order has fewer values than bins",
                                             dict(base, type=typ)))
                    # (4) quantised trie: same structural results as the unquantised trie
                    tk = ("struct", "trie")
                    if tk in ref:
                        tq = [[tuple(c01.strip_values(k, v) for k, v in zip(("fs", "st", "ff", "fst", "gs"), item)) for item in q] for q in ref[tk][0]]
                        if tq != full:
                            sig = "spec:quant-structure:" + typ
                            if any(o == "backoffbits=1" for o in opts):
                                sig = "quant:backoff_bits=1:no-value-bins"
                            problems.append((sig, "quantised trie returns different lengths/flags/states than the unquantised trie", dict(base, type=typ, opts=opts)))
        # directed: few DISTINCT values but more entries than bins (finding F5), and backoff_bits=1 (finding F6)
        if ("struct", "trie") in ref and mi % 3 == 0:
            vals = {}
            for n in range(2, m.order + 1):
                ks = m.file_order.get(n, [])
                vals[n] = len({m.grams[k]["prob"] for k in ks})
            for opts, sig in ((["probbits=2", "backoffbits=8"], "quant:lossless-claim:equal-population-bins"),
                              (["probbits=8", "backoffbits=1"], "quant:backoff_bits=1:no-value-bins")):
                r = sess.run_impl(lmq, "qtrie", qs, opts=opts)
                stats["impl_runs"] += 1
                if not r["head"].startswith("loaded") or len(r["lines"]) != len(qs):
                    continue
                if sig.startswith("quant:lossless"):
                    if max(vals.values()) > 4:
                        continue        # more distinct values than 2^2 bins: the property claims nothing
                    exact = [transcript(l, False) for l in r["lines"]]
                    if exact != ref[("struct", "trie")][0]:
                        problems.append((sig, "every order has at most 4 distinct probabilities, 2 bits = 4 bins, yet the quantised trie is lossy", dict(base, opts=opts)))
                else:
                    full = [transcript(l, True) for l in r["lines"]]
                    tq = [[tuple(c01.strip_values(k, v) for k, v in zip(("fs", "st", "ff", "fst", "gs"), item)) for item in q] for q in ref[("struct", "trie")][0]]
                    if full != tq:
                        problems.append((sig, "backoff_bits=1 leaves no value bins: lengths/flags/states differ from the unquantised trie", dict(base, opts=opts)))
        # ---- the same through the chart API (the property's quantifier: ExtendLeft, UnRest through RuleScore): derivation trees and
        #      Subsume over the same sentences must give the same totals in every unquantised structure (and the same chart states
        #      on a suffix-closed model); array tries only differ from tries once pointer compression chops bits, i.e. on big models
        from . import c08 as c08m
        ctrees = []
        for _, sq in qs[:ctx.pick(25, 80)]:
            sq = list(sq)[:8]
            if not sq:
                continue
            for _k in range(2):
                bos = rng.chance(1, 2)
                ctrees.append("C " + " ".join(c08m.gen_tree(rng, sq, outer=True, bos=bos)))
            if len(sq) >= 2:
                cut = rng.range(1, len(sq) - 1)
                ctrees.append("SUB %s ; %s" % (" ".join("%x" % w for w in sq[:cut]), " ".join("%x" % w for w in sq[cut:])))
        cref = None
        for typ in ("probing", "trie", "atrie"):
            for opts in ([[]] + ([["bhiksha=%d" % rng.choice([0, 1, 3, 8, 64, 255])]] if typ == "atrie" else [])):
                rc, out, err = vlib.sh([lmq, sess.arpa, typ, sess.vocab, "tmp=" + sess.dir + "/"] + opts, input=("\n".join(ctrees) + "\n").encode(), timeout=300)
                stats["impl_runs"] += 1
                res = out.split("\n")
                if not res or not res[0].startswith("loaded"):
                    continue
                body = res[1:1 + len(ctrees)]
                if len(body) != len(ctrees):
                    problems.append(("crash:chart:" + typ, "driver died on a derivation / Subsume (rc=%d) %s" % (rc, err[-200:]), dict(base, type=typ, opts=opts)))
                    continue
                stats["chart_lines"] = stats.get("chart_lines", 0) + len(body)
                view = [l if closed else l.split()[0] for l in body]
                if cref is None:
                    cref = (view, typ, opts)
                elif cref[0] != view:
                    i = next(i for i in range(len(view)) if view[i] != cref[0][i])
                    problems.append(("spec:chart-differs:%s-vs-%s" % (typ, cref[1]), "RuleScore / Subsume results differ between structures: %s vs %s" % (view[i], cref[0][i]),
                                     dict(base, type=typ, opts=opts, other=cref[1], line=ctrees[i])))
        nontrivial += 1 if m.order >= 3 else 0
        if mi < 2:
            ctx.sample({"order": m.order, "vocab": len(m.vocab), "ngrams": len(m.grams), "suffix_closed": closed, "first_query": qs[0]})
        shutil.rmtree(sess.dir, ignore_errors=True)
        if len(problems) > 20:
            break
    bh_problems = bhiksha_stream(ctx, stats)
    bh_problems += quant_stream(ctx, stats)
    bh_problems += image_stream(ctx, stats, lmq)
    ctx.count("evaluations", stats["scores"])
    ctx.coverage["models"] = nmodels
    ctx.coverage["distinct_nontrivial"] = nontrivial
    ctx.coverage["rule"] = ("random models as in C01 loaded into probing, rest-probing, trie, array trie, quantised trie, quantised array trie, each also with a "
                            "random build-parameter variant (probing_multiplier, pointer_bhiksha_bits, prob/backoff bits, building_memory); canonical transcripts "
                            "(bit patterns, words through strings) must be identical as the property states; non-trivial = distinct model of order >= 3")
    ctx.coverage.update(stats)
    ctx.assumptions += ["as C01", "quantised models: structural equality only; value losslessness is finding F5 (see known_findings.jsonl)"]
    found = False                        # a listed known finding does not count: it must not hide a broken correspondence
    for sig, what, rq in problems:
        found = bool(ctx.report(sig, what, rq, True)) or found
    for sig, what, rq, f in bh_problems:
        if f:
            found = bool(ctx.report(sig, what, rq, True)) or found
    if not found:
        for sig, what, rq, f in bh_problems:
            ctx.report(sig, what, rq, False)
        ctx.report_proof(pres)


def replay(ctx, obj):
    import sys
    return lc.lm_replay(sys.modules[__name__], ctx, obj)
